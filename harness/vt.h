// vt.h -- common recorder for the conformance harnesses (no Fastor dependency).
// Every harness binary takes the output ndjson path as argv[1] and writes one JSON object per line,
// one per spec action.  Nothing in here decides pass/fail: the TLC trace specification is the judge.
#ifndef VT_H
#define VT_H
#include <cstdio>
#include <cstdlib>
#include <cstdint>
#include <cstring>
#include <cmath>
#include <complex>
#include <string>
#include <vector>
#include <fstream>
#include <exception>
#include <type_traits>
#include <signal.h>
#include <unistd.h>
#include <sys/mman.h>

namespace vt {

// ---------------------------------------------------------------------------------------------
// output
static FILE* g_out = nullptr;
static const char* g_cfg = "?";
static int g_fd = 2;
static volatile const char* g_cur_case = "";   // for the fault handler

// value that marks "not an integer in the judged range" -- never equal to an expected value
static const long long BADV = 1999999999LL;
static const long long LIM  = 1000000000LL;     // |v| < LIM is loggable (TLC ints are 32 bit)

static int g_closed = 0;
// a process that ends without close_ok() (exit() reached through corrupted control flow, e.g. after undefined behaviour in the
// library call of the current case) leaves a Fault event for that case instead of a truncated trace
inline void abnormal_exit() {
    if (g_closed || !g_out) return;
    fflush(g_out);
    char b[256];
    int n = snprintf(b, sizeof b, "{\"e\":\"Fault\",\"cfg\":\"%s\",\"sig\":-2,\"case\":\"%s\"}\n", g_cfg, (const char*)g_cur_case);
    if (n > 0) { ssize_t r = write(g_fd, b, (size_t)n); (void)r; }
    _exit(0);
}
inline void open(int argc, char** argv, const char* cfg) {
    if (g_out) abnormal_exit();          // second call: control flow is corrupt
    const char* p = argc > 1 ? argv[1] : "/dev/stdout";
    g_out = std::fopen(p, "w");
    if (!g_out) { std::perror("vt::open"); std::exit(3); }
    std::atexit(abnormal_exit);
    g_fd = fileno(g_out);
    g_cfg = cfg;
    static char buf[1 << 20];
    setvbuf(g_out, buf, _IOFBF, sizeof buf);
}
inline void close_ok() {
    std::fprintf(g_out, "{\"e\":\"End\",\"cfg\":\"%s\"}\n", g_cfg);
    g_closed = 1;
    std::fclose(g_out);
}

// fault / terminate: flush what we have and leave a Fault event so a truncated trace is recognisable
inline void fault_handler(int sig) {
    if (g_out) fflush(g_out);   // not strictly async-signal-safe; acceptable: we are about to _exit
    char b[256];
    int n = snprintf(b, sizeof b, "{\"e\":\"Fault\",\"cfg\":\"%s\",\"sig\":%d,\"case\":\"%s\"}\n", g_cfg, sig, (const char*)g_cur_case);
    if (n > 0) { ssize_t r = write(g_fd, b, (size_t)n); (void)r; }
    _exit(0);
}
inline void term_handler() {
    if (g_out) fflush(g_out);
    char b[256];
    int n = snprintf(b, sizeof b, "{\"e\":\"Fault\",\"cfg\":\"%s\",\"sig\":-1,\"case\":\"%s\"}\n", g_cfg, (const char*)g_cur_case);
    if (n > 0) { ssize_t r = write(g_fd, b, (size_t)n); (void)r; }
    _exit(0);
}
inline void install_handlers() {
    static char altstack[1 << 16];
    stack_t ss; ss.ss_sp = altstack; ss.ss_size = sizeof altstack; ss.ss_flags = 0;
    sigaltstack(&ss, nullptr);
    struct sigaction sa; memset(&sa, 0, sizeof sa);
    sa.sa_handler = fault_handler; sa.sa_flags = SA_ONSTACK;
    sigaction(SIGSEGV, &sa, nullptr); sigaction(SIGBUS, &sa, nullptr);
    sigaction(SIGILL, &sa, nullptr);  sigaction(SIGFPE, &sa, nullptr);
    sigaction(SIGABRT, &sa, nullptr);
    std::set_terminate(term_handler);
}

// ---------------------------------------------------------------------------------------------
// deterministic data (splitmix64); all randomness derives from the seed in the plan
struct Rng {
    uint64_t s;
    explicit Rng(uint64_t seed) : s(seed * 0x9E3779B97F4A7C15ull + 0x1234567ull) {}
    uint64_t next() { uint64_t z = (s += 0x9E3779B97F4A7C15ull); z = (z ^ (z >> 30)) * 0xBF58476D1CE4E5B9ull;
                      z = (z ^ (z >> 27)) * 0x94D049BB133111EBull; return z ^ (z >> 31); }
    int range(int lo, int hi) { return lo + (int)(next() % (uint64_t)(hi - lo + 1)); }   // inclusive
};
inline uint64_t hash_str(const char* s) { uint64_t h = 1469598103934665603ull; while (*s) { h ^= (unsigned char)*s++; h *= 1099511628211ull; } return h; }

// ---------------------------------------------------------------------------------------------
// element type helpers
template<class T> struct is_cx : std::false_type {};
template<class T> struct is_cx<std::complex<T>> : std::true_type {};
template<class T> struct tag;
template<> struct tag<float>   { static const char* s() { return "f32"; } };
template<> struct tag<double>  { static const char* s() { return "f64"; } };
template<> struct tag<int>     { static const char* s() { return "i32"; } };
template<> struct tag<long long> { static const char* s() { return "i64"; } };
template<> struct tag<long>    { static const char* s() { return "i64"; } };
template<> struct tag<std::complex<float>>  { static const char* s() { return "c32"; } };
template<> struct tag<std::complex<double>> { static const char* s() { return "c64"; } };
template<> struct tag<bool>    { static const char* s() { return "b"; } };
template<> struct tag<unsigned long> { static const char* s() { return "u64"; } };

template<class T> inline T from_int(int v) { return (T)v; }
template<class T> inline T from_int2(int re, int im, std::true_type) { return T((typename T::value_type)re, (typename T::value_type)im); }
template<class T> inline T from_int2(int re, int, std::false_type) { return (T)re; }

// fill with small integers in [lo,hi]; complex gets independent parts
template<class T> inline void fill_small(T* p, size_t n, Rng& r, int lo, int hi) {
    for (size_t i = 0; i < n; ++i) { int a = r.range(lo, hi); int b = is_cx<T>::value ? r.range(lo, hi) : 0; p[i] = from_int2<T>(a, b, is_cx<T>()); }
}

// ---------------------------------------------------------------------------------------------
// logging values as integers
template<class T> inline long long as_ll(T v, std::true_type /*floating*/) {
    if (!(v == v)) return BADV;
    if (v != std::floor(v)) return BADV;
    if (v >= (T)LIM || v <= -(T)LIM) return BADV;
    return (long long)v;
}
template<class T> inline long long as_ll(T v, std::false_type) {
    long long x = (long long)v; if (x >= LIM || x <= -LIM) return BADV; return x;
}
template<class T> inline void put_val(std::string& o, const T& v) {
    o += std::to_string(as_ll(v, std::is_floating_point<T>()));
}
template<class T> inline void put_val(std::string& o, const std::complex<T>& v) {
    o += "["; o += std::to_string(as_ll(v.real(), std::true_type())); o += ","; o += std::to_string(as_ll(v.imag(), std::true_type())); o += "]";
}
inline void put_val(std::string& o, const bool& v) { o += v ? "1" : "0"; }

struct Ev {
    std::string s; bool first = true;
    explicit Ev(const char* e) { s.reserve(4096); s = "{\"e\":\""; s += e; s += "\",\"cfg\":\""; s += g_cfg; s += "\""; }
    void key(const char* k) { s += ",\""; s += k; s += "\":"; }
    Ev& str(const char* k, const std::string& v) { key(k); s += "\""; s += v; s += "\""; return *this; }
    Ev& num(const char* k, long long v) { key(k); s += std::to_string(v); return *this; }
    template<class T> Ev& val(const char* k, const T& v) { key(k); put_val(s, v); return *this; }
    template<class T> Ev& arr(const char* k, const T* p, size_t n) {
        key(k); s += "[";
        for (size_t i = 0; i < n; ++i) { if (i) s += ","; put_val(s, p[i]); }
        s += "]"; return *this;
    }
    Ev& ints(const char* k, const std::vector<long long>& v) {
        key(k); s += "["; for (size_t i = 0; i < v.size(); ++i) { if (i) s += ","; s += std::to_string(v[i]); } s += "]"; return *this;
    }
    Ev& raw(const char* k, const std::string& json) { key(k); s += json; return *this; }
    void emit() { s += "}\n"; fwrite(s.data(), 1, s.size(), g_out); }
};

// 16-bit limbs, least significant first (TLC integers are 32 bit; JSON deserialisation wraps silently)
inline std::string limbs(uint64_t w, int nl) {
    std::string o = "["; for (int i = 0; i < nl; ++i) { if (i) o += ","; o += std::to_string((unsigned)((w >> (16 * i)) & 0xFFFFu)); } o += "]"; return o;
}
template<class T> inline uint64_t bits_of(T v) { uint64_t w = 0; memcpy(&w, &v, sizeof(T)); return w; }

// ---------------------------------------------------------------------------------------------
// A destination bracketed by guard cells holding a sentinel value; the whole block is logged so the
// spec's frame condition is evaluated on the guards as well.
template<class T> struct Guarded {
    static const int G = 4;
    std::vector<T> blk; size_t n;
    explicit Guarded(size_t n_) : blk(n_ + 2 * G), n(n_) { for (auto& x : blk) x = sentinel(); }
    static T sentinel() { return from_int2<T>(7777, 0, is_cx<T>()); }
    T* data() { return blk.data() + G; }
};

// ---------------------------------------------------------------------------------------------
// Guard-page placement (C07): returns a pointer p to `bytes` bytes such that p+bytes abuts a PROT_NONE
// page (end==true) or p is the first byte after one (end==false), shifted by `mis` bytes of slack.
struct PageArena {
    char* base = nullptr; size_t len = 0; size_t pg = 4096;
    explicit PageArena(size_t payload_pages = 16) {
        len = (payload_pages + 2) * pg;
        base = (char*)mmap(nullptr, len, PROT_READ | PROT_WRITE, MAP_PRIVATE | MAP_ANONYMOUS, -1, 0);
        if (base == MAP_FAILED) { std::perror("mmap"); std::exit(3); }
        mprotect(base, pg, PROT_NONE);
        mprotect(base + len - pg, pg, PROT_NONE);
    }
    ~PageArena() { if (base) munmap(base, len); }
    char* at_end(size_t bytes) { return base + len - pg - bytes; }
    char* at_start() { return base + pg; }
    size_t payload() const { return len - 2 * pg; }
};

} // namespace vt
#endif
