# pipeline.py -- the check flow shared by all properties (DESIGN.md Appendix C):
#  (1) bounded model checks of the property's L1/L2 models  (2) plan from the TLC generator spec
#  (3) codegen + build per configuration from /repo's tree   (4) run -> ndjson
#  (5) join by case / shard   (6) TLC trace validation   (7) confirm + classify   (8) evidence
import os, sys, json, time, traceback
from vtlib import *


class Check:
    prop = "C00"
    level = "model_checking"
    trace_module = None          # e.g. "TraceMatmul"
    trace_cfg = None             # e.g. "TraceMatmul.cfg"
    joined = True                # join events by case across configurations before judging
    assumptions = []
    rule = ""

    # ---- hooks for subclasses ---------------------------------------------------------------
    def configs(self, ctx):
        if ctx.tier == "quick":
            return list(QUICK_CFGS)
        # every ISA under C++14, the two wide ones also under C++17
        return ["%s-14-O2" % i for i in ALL_ISAS] + ["avx2-17-O2", "avx512-17-O2"]

    def model_checks(self, ctx):
        pass

    def plan(self, ctx):
        """-> list of case dicts, each with a unique 'case' id."""
        raise NotImplementedError

    def units(self, ctx, plan, cfgname):
        """-> list of (unit_name, source_text, extra_flags) for one configuration."""
        raise NotImplementedError

    def event_weight(self, ev):
        return 1

    def nontrivial(self, ev):
        return True

    def sample(self, ev):
        s = json.dumps(ev, separators=(",", ":"))
        return json.loads(s) if len(s) < 1500 else {"e": ev.get("e"), "case": ev.get("case"), "truncated": s[:1200]}

    def allow_compile_fail(self):
        return False

    def post_events(self, ctx, traces):
        """hook: traces {cfg:[events]} -> possibly modified"""
        return traces

    def extra_coverage(self, ctx):
        return {}

    # ---- flow ---------------------------------------------------------------------------------
    def run_core(self, ctx):
        self.model_checks(ctx)
        plan = self.plan(ctx)
        if ctx.replay:
            want = ctx.replay["case"]
            plan = [c for c in plan if c["case"] == want or want.startswith(c["case"] + "/") or want.startswith(c["case"] + "#")]
            if not plan:
                raise ToolFailure("replay case %s is not in the plan for seed %d tier %s" % (want, ctx.seed, ctx.tier))
        cfgs = self.configs(ctx)
        if os.environ.get("VERIF_CFGS"):                    # experimentation only: override the configuration list
            cfgs = os.environ["VERIF_CFGS"].split(",")
        if ctx.replay and ctx.replay.get("cfg") in cfgs:
            cfgs = [ctx.replay["cfg"]]
        log("%s: plan %d cases, %d configurations" % (self.prop, len(plan), len(cfgs)))
        units = []
        for c in cfgs:
            for (n, s, e) in self.units(ctx, plan, c):
                units.append((n, s, c, e))
        t = time.time()
        bins = build_many(ctx, units, allow_fail=self.allow_compile_fail())
        log("built %d units in %.0fs" % (len(units), time.time() - t))
        jobs = []
        for (n, s, c, e) in units:
            b = bins[(n, c)]
            if b is None:
                continue
            jobs.append((b, ctx.path("raw", c, n + ".ndjson"), ()))
        t = time.time()
        run_many(jobs)
        traces = {}
        for (n, s, c, e) in units:
            p = ctx.path("raw", c, n + ".ndjson")
            if bins[(n, c)] is None:
                traces.setdefault(c, []).append({"e": "CompileFail", "case": "unit/" + n, "cfg": c, "in": {"unit": n}, "out": {"ok": 0}})
                continue
            evs = read_events(p)
            check_complete(p, evs)
            traces.setdefault(c, []).extend(evs)
        traces = self.post_events(ctx, traces)
        if os.environ.get("VERIF_CORRUPT"):
            # binding self-test (DESIGN 7): flip one recorded result value per configuration; the judge must reject exactly there
            for c, evs in traces.items():
                cand = [e for e in evs if isinstance(e.get("out"), dict) and any(isinstance(v, list) and v for v in e["out"].values())
                        and e["e"] not in ("Reset", "Snapshot", "Meta")]
                if cand:
                    e = cand[len(cand) // 2]
                    k = [k for k, v in e["out"].items() if isinstance(v, list) and v][0]
                    v = e["out"][k]
                    i = len(v) // 2
                    v[i] = [v[i][0] + 1, v[i][1]] if isinstance(v[i], list) else v[i] + 1
                    log("CORRUPTED %s [%s] out.%s[%d]" % (e["case"], c, k, i))
        nraw = sum(len(v) for v in traces.values())
        log("ran %d binaries, %d events in %.0fs" % (len(jobs), nraw, time.time() - t))
        if self.joined:
            events = join_by_case(traces)
            shards = write_shards(ctx, events, weight=self.event_weight)
        else:
            events, shards = [], []
            for c, evs in traces.items():
                evs = [e for e in evs if e["e"] != "End"]
                events.extend(evs)
                shards += self.shard_unjoined(ctx, c, evs)
        t = time.time()
        rejects, jstates = judge(ctx, self.trace_module, self.trace_cfg, shards)
        log("judged %d events in %d shards in %.0fs: %d rejected" % (len(events), len(shards), time.time() - t, len(rejects)))
        if rejects:
            rejects = self.confirm(ctx, rejects)
        return {"plan": plan, "cfgs": cfgs, "events": events, "jstates": jstates, "rejects": rejects}

    def run(self, ctx):
        r = self.run_core(ctx)
        plan, cfgs, events, jstates, rejects = r["plan"], r["cfgs"], r["events"], r["jstates"], r["rejects"]
        known, viol = classify(self.prop, rejects)
        for kid, k in sorted(known.items()):
            print("KNOWN-FINDING: property=%s %s %s (%d rejected events, e.g. %s)" % (self.prop, kid, k["finding"]["what"], k["n"], k["example"]), flush=True)
        seen = set()
        for r in viol:
            p = write_replay(ctx, r)
            if p in seen:
                continue
            seen.add(p)
            print("VIOLATION property=%s replay=%s" % (self.prop, p), flush=True)
        self.evidence(ctx, plan, cfgs, events, jstates, known, viol)
        return 1 if viol else 0

    def shard_unjoined(self, ctx, cfgname, evs):
        """Stateful traces: keep executions (Reset..) together; split at Reset boundaries."""
        execs, cur = [], []
        for e in evs:
            if e["e"] == "Reset" and cur:
                execs.append(cur)
                cur = []
            cur.append(e)
        if cur:
            execs.append(cur)
        n = max(1, min(NCPU, len(execs) // 20 + 1))
        paths = []
        for i in range(n):
            part = [e for ex in execs[i::n] for e in ex]
            if not part:
                continue
            p = ctx.path("trace", "%s_%02d.ndjson" % (cfgname.replace("+", "_"), i))
            with open(p, "w") as f:
                for e in part:
                    f.write(json.dumps(e, separators=(",", ":")) + "\n")
            paths.append(p)
        return paths

    def confirm(self, ctx, rejects):
        """A rejection is reported only if judging the rejected event again, alone, repeats it."""
        if not self.joined:
            return rejects
        evs, seen = [], set()
        for r in rejects:
            if r["case"] not in seen:
                seen.add(r["case"])
                evs.append(r["event"])
        p = ctx.path("trace", "confirm.ndjson")
        with open(p, "w") as f:
            for e in evs:
                f.write(json.dumps(e, separators=(",", ":")) + "\n")
        again, _ = judge(ctx, self.trace_module, self.trace_cfg, [p])
        keys = {(r["case"], r["cfg"]) for r in again}
        tags = {(r["case"], r["cfg"]): r.get("tag", "") for r in again}
        kept = [r for r in rejects if (r["case"], r["cfg"]) in keys]
        if len(kept) != len(rejects):
            ctx.notes.append("%d rejections did not repeat and were dropped" % (len(rejects) - len(kept)))
        return kept

    def evidence(self, ctx, plan, cfgs, events, jstates, known, viol):
        mc_gen = sum(r["generated"] for r in ctx.mc_results)
        mc_dist = sum(r["distinct"] for r in ctx.mc_results)
        nt = [e for e in events if self.nontrivial(e)]
        distinct = len({json.dumps(e.get("in", e), sort_keys=True) for e in nt})
        step = max(1, len(events) // 3)
        samples = [self.sample(e) for e in events[::step][:3]]
        cov = {
            "states": mc_dist + jstates, "transitions": mc_gen + jstates,
            "traces_validated_against_impl": len(events) if self.joined else sum(1 for e in events if e["e"] == "Reset"),
            "samples": samples or [{"note": "empty plan"}],
            "evaluations": sum(len(e.get("outs", [1])) for e in events), "distinct_nontrivial": distinct,
            "rule": self.rule, "configurations": cfgs, "plan_cases": len(plan),
            "model_checks": [{k: r[k] for k in ("module", "cfg", "generated", "distinct", "wall_s", "action_coverage") if k in r} for r in ctx.mc_results],
            "trace_states": jstates, "events_judged": len(events),
            "known_findings_hit": {k: v["n"] for k, v in known.items()},
            "exhaustive": False, "notes": ctx.notes,
        }
        cov.update(self.extra_coverage(ctx))
        write_evidence(ctx, self.level, cov, self.assumptions, len(viol))


def main(registry):
    import argparse
    ap = argparse.ArgumentParser()
    ap.add_argument("prop")
    ap.add_argument("--tier", default=os.environ.get("VERIF_TIER", "quick"))
    ap.add_argument("--replay")
    a = ap.parse_args()
    seed = int(os.environ.get("VERIF_SEED", "1"))
    replay = None
    if a.replay:
        replay = json.load(open(a.replay))
        seed = replay.get("seed", seed)
        a.tier = replay.get("tier", a.tier)
    if a.prop not in registry:
        print("unknown property", a.prop)
        return 2
    ctx = Ctx(a.prop, a.tier, seed, replay)
    chk = registry[a.prop]()
    try:
        rc = chk.run(ctx)
    except ToolFailure as e:
        print("CHECK-BROKEN (tool failure, not a violation):", e, flush=True)
        return 2
    except Exception:
        traceback.print_exc()
        print("CHECK-BROKEN (driver exception, not a violation)", flush=True)
        return 2
    log("%s %s done in %.0fs rc=%d" % (a.prop, a.tier, time.time() - ctx.t0, rc))
    if rc == 0 and not os.environ.get("VERIF_KEEP_WORK"):
        shutil.rmtree(ctx.work, ignore_errors=True)
    return rc
