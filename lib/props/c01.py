# C01 -- matrix product equals the mathematical product for every shape and scalar type
from pipeline import *

CXX_T = {"f32": "float", "f64": "double", "i32": "int", "i64": "std::int64_t", "c32": "std::complex<float>", "c64": "std::complex<double>"}

PRELUDE = r'''
#include <Fastor/Fastor.h>
#include "vt.h"
using namespace Fastor;
#ifndef VT_CFG
#define VT_CFG "?"
#endif
template<class T, size_t M, size_t N> struct Boxed { T g0[16]; Tensor<T,M,N> D; T g1[16]; };
template<class T, size_t M> struct Boxed1 { T g0[16]; Tensor<T,M> D; T g1[16]; };

template<class T> static void fill_draw(T* p, size_t rows, size_t cols, int draw, vt::Rng& r, int which) {
    if (draw == 2) {   // position-revealing: distinct value per (row, col), kept far below 2^24 after K-fold sums
        for (size_t i = 0; i < rows; ++i) for (size_t j = 0; j < cols; ++j) {
            int v = (int)(i * cols + j + 1 + which);
            p[i * cols + j] = vt::from_int2<T>(v, vt::is_cx<T>::value ? (int)((i + 2 * j) % 5) - 2 : 0, vt::is_cx<T>());
        }
    } else vt::fill_small(p, rows * cols, r, draw == 0 ? -9 : -4, draw == 0 ? 9 : 5);
}

template<class TC, class TA, class TB> static void apply_form(std::integral_constant<int,0>, TC& D, const TA& A, const TB& B) { D = matmul(A, B); }
template<class TC, class TA, class TB> static void apply_form(std::integral_constant<int,1>, TC& D, const TA& A, const TB& B) { TC C = A % B; D = C; }
template<class TC, class TA, class TB> static void apply_form(std::integral_constant<int,2>, TC& D, const TA& A, const TB& B) { D = A % B; }
template<class TC, class TA, class TB> static void apply_form(std::integral_constant<int,3>, TC& D, const TA& A, const TB& B) { D += A % B; }
template<class TC, class TA, class TB> static void apply_form(std::integral_constant<int,4>, TC& D, const TA& A, const TB& B) { D -= A % B; }
template<class TC, class TA, class TB> static void apply_form(std::integral_constant<int,5>, TC& D, const TA& A, const TB& B) { D *= A % B; }
// FORM: 0 eager matmul(A,B); 1 Tensor C = A % B; 2 C = A % B; 3 C += A % B; 4 C -= A % B; 5 C *= A % B
// KIND: 0 matrix-matrix, 1 matrix-vector (B rank 1, N == 1), 2 vector-matrix (A rank 1, M == 1)
template<class T, size_t M, size_t K, size_t N, int KIND, int FORM>
static void mm_case(const char* id, const char* form, const char* kind) {
    using TA = typename std::conditional<KIND == 2, Tensor<T,K>, Tensor<T,M,K>>::type;
    using TB = typename std::conditional<KIND == 1, Tensor<T,K>, Tensor<T,K,N>>::type;
    using TC = typename std::conditional<KIND == 1, Tensor<T,M>, typename std::conditional<KIND == 2, Tensor<T,N>, Tensor<T,M,N>>::type>::type;
    for (int draw = 0; draw < 3; ++draw) {
        std::string cid = std::string(id) + "/d" + std::to_string(draw);
        vt::g_cur_case = cid.c_str();
        vt::Rng r(vt::hash_str(cid.c_str()));
        TA A; TB B;
        fill_draw(A.data(), M, K, draw, r, 0);
        fill_draw(B.data(), K, N, draw, r, 3);
        struct { T g0[16]; TC D; T g1[16]; } bx;
        for (int i = 0; i < 16; ++i) { bx.g0[i] = vt::Guarded<T>::sentinel(); bx.g1[i] = vt::Guarded<T>::sentinel(); }
        T pre[M * N];
        vt::fill_small(pre, M * N, r, -3, 3);
        for (size_t i = 0; i < M * N; ++i) bx.D.data()[i] = pre[i];
        apply_form(std::integral_constant<int,FORM>(), bx.D, A, B);
        std::vector<T> blk;
        for (int i = 12; i < 16; ++i) blk.push_back(bx.g0[i]);
        for (size_t i = 0; i < M * N; ++i) blk.push_back(bx.D.data()[i]);
        for (int i = 0; i < 4; ++i) blk.push_back(bx.g1[i]);
        vt::Ev ev("Matmul");
        ev.str("case", cid);
        ev.s += ",\"in\":{\"T\":\""; ev.s += vt::tag<T>::s(); ev.s += "\"";
        ev.str("form", form).str("kind", kind).num("M", M).num("K", K).num("N", N);
        ev.arr("A", A.data(), M * K).arr("B", B.data(), K * N).arr("pre", pre, M * N);
        ev.s += "},\"out\":{\"x\":0";
        ev.arr("blk", blk.data(), blk.size());
        ev.s += "}";
        ev.emit();
    }
}
template<class T, size_t N> static void meta_best(const char* Ts) {
    vt::Ev ev("Meta");
    ev.str("case", std::string("meta/best/") + Ts + "/" + std::to_string(N));
    ev.s += ",\"in\":{\"k\":\"best_simd\",\"T\":\""; ev.s += Ts; ev.s += "\"";
    ev.num("N", N);
    ev.s += "},\"out\":{\"size\":" + std::to_string((long long)choose_best_simd_t<SIMDVector<T,DEFAULT_ABI>,N>::Size) + "}";
    ev.emit();
}
'''

FORM_ID = {"eager": 0, "t_ctor": 1, "t_assign": 2, "t_add": 3, "t_sub": 4, "t_mul": 5}
KIND_ID = {"mm": 0, "mv": 1, "vm": 2}


def case_id(c):
    return "mm/%s/%s/%s/%dx%dx%d" % (c["kind"], c["T"], c["form"], c["M"], c["K"], c["N"])


class C01(Check):
    prop = "C01"
    trace_module = "TraceMatmul"
    trace_cfg = "TraceMatmul.cfg"
    rule = ("cases = states of GenMatmul (exhaustive box of (M,K,N) x type x form, plus shapes at every boundary of the kernel ladder "
            "N~kV, M mod unroll, K=1 for every native vector width); each case runs on 3 data draws (two random small-integer, one "
            "position-revealing); distinct = distinct (case, data) inputs; every one is non-trivial (a full product is compared element-wise, guards included)")
    assumptions = ["operand data are small integers, exactly representable in every element type, so exact equality is sound for any summation order/FMA",
                   "Schwartz-Zippel: a wrong bilinear kernel agrees on a random draw from [-9,9] with probability <= 2/19 per element",
                   "TLC evaluates the L1 operator Matmul!Product; the C++ side only records"]

    def model_checks(self, ctx):
        model_check(ctx, "MC_SimdDispatch", "MC_SimdDispatch.cfg", workers=1)
        # unbounded companion (Apalache / SMT) of the tiling obligations TLC checks on the plan's shapes: the big-block / small-block /
        # remainder tiling of the row and column loops partitions [0, L) for EVERY length L
        if ctx.tier == "thorough":
            apalache_check(ctx, "TilingUnbounded", "Inv", timeout=1200)

    def configs(self, ctx):
        if ctx.tier == "quick":
            return list(QUICK_CFGS)
        # every ISA under C++14, the two wide ones also under C++17 (the kernels have if-constexpr branches)
        return ["%s-14-O2" % i for i in ALL_ISAS] + ["avx2-17-O2", "avx512-17-O2"]

    def plan(self, ctx):
        cfg = "GenMatmul_%s.cfg" % ctx.tier
        items, gen, dist, out = tlc_emit(ctx, "GenMatmul", cfg, env={"VERIF_SEED": str(ctx.seed)})
        if "No error has been found" not in out:
            raise ToolFailure("GenMatmul: design obligation failed or generator error: " + out[-1500:])
        ctx.mc_results.append({"module": "GenMatmul", "cfg": cfg, "generated": gen, "distinct": dist, "ok": True, "wall_s": 0,
                               "action_coverage": {}})
        for c in items:
            c["case"] = case_id(c)
        items.sort(key=lambda c: c["case"])
        self.routes = {}
        for c in items:
            for isa, r in c["routes"].items():
                self.routes.setdefault(isa, {}).setdefault(r, 0)
                self.routes[isa][r] += 1
        return items

    def units(self, ctx, plan, cfgname):
        # cap a TU at ~100 instantiations (compile time is superlinear in TU size)
        plan = sorted(plan, key=lambda c: (c["M"] * c["N"], c["case"]))
        chunks, per = [], 90
        for i in range(0, len(plan), per):
            chunks.append(plan[i:i + per])
        units = []
        ns = sorted({(c["T"], c["N"]) for c in plan if c["T"] in ("f32", "f64", "i32", "i64")})
        for ci, ch in enumerate(chunks):
            body = []
            for c in ch:
                body.append('    mm_case<%s,%d,%d,%d,%d,%d>("%s","%s","%s");' % (
                    CXX_T[c["T"]], c["M"], c["K"], c["N"], KIND_ID[c["kind"]], FORM_ID[c["form"]], c["case"], c["form"], c["kind"]))
            if ci == 0:
                for (T, n) in ns:
                    body.append('    meta_best<%s,%d>("%s");' % (CXX_T[T], n, T))
            src = PRELUDE + "int main(int argc, char** argv) {\n    vt::open(argc, argv, \"%s\");\n    vt::install_handlers();\n" % cfgname
            src += "\n".join(body) + "\n    vt::close_ok();\n    return 0;\n}\n"
            units.append(("mm_%03d" % ci, src, []))
        return units

    def event_weight(self, ev):
        i = ev.get("in", {})
        return 1 + i.get("M", 1) * i.get("K", 1) * i.get("N", 1) if ev["e"] == "Matmul" else 1

    def nontrivial(self, ev):
        return ev["e"] == "Matmul"

    def extra_coverage(self, ctx):
        return {"l2_route_counts_per_isa": getattr(self, "routes", {})}
