# C02 -- an evaluated expression equals the scalar operation applied element by element
from pipeline import *
from c01 import CXX_T

PRELUDE = r'''
#include <Fastor/Fastor.h>
#include "vt.h"
using namespace Fastor;
// operands of one case: tensors a b c (small integers), q (perfect squares), d (non-zero), m (multiples of s), scalar s
template<class T, size_t N> struct Ops {
    Tensor<T,N> a, b, c, q, d, m, pre; T s;
    __attribute__((noinline)) Ops(const char* id, int divform) {
        vt::Rng r(vt::hash_str(id));
        static const int svals[3] = {2, 3, -2};
        s = vt::from_int2<T>(svals[r.range(0, 2)], r.range(-1, 1), vt::is_cx<T>());
        for (size_t i = 0; i < N; ++i) {
            a.data()[i] = vt::from_int2<T>(r.range(-6, 6), r.range(-3, 3), vt::is_cx<T>()); b.data()[i] = vt::from_int2<T>(r.range(-6, 6), r.range(-3, 3), vt::is_cx<T>());
            c.data()[i] = vt::from_int2<T>(r.range(-6, 6), r.range(-3, 3), vt::is_cx<T>());
            int rt = r.range(0, 6); q.data()[i] = (T)(rt * rt);
            int dv = r.range(1, 3) * (r.range(0, 1) ? 1 : -1); d.data()[i] = (T)dv;
            m.data()[i] = (T)(r.range(-4, 4)) * s;
            int t = r.range(-3, 3);
            pre.data()[i] = divform ? (T)(t * dv) * s : vt::from_int2<T>(t, r.range(-2, 2), vt::is_cx<T>());
        }
        asm volatile("" : : "r"(a.data()), "r"(b.data()), "r"(c.data()), "r"(q.data()), "r"(d.data()), "r"(m.data()), "r"(pre.data()) : "memory");
    }
};
template<class T, size_t N, class R> static void log_expr(const char* id, const char* tt, const char* head, const Ops<T,N>& o, const R& res) {
    vt::Ev ev("Expr"); ev.str("case", id);
    ev.s += ",\"in\":{\"T\":\""; ev.s += tt; ev.s += "\","; ev.s += head;
    ev.val("s", o.s);
    ev.s += ",\"env\":{\"x\":0";
    ev.arr("a", o.a.data(), N).arr("b", o.b.data(), N).arr("c", o.c.data(), N).arr("q", o.q.data(), N).arr("d", o.d.data(), N).arr("m", o.m.data(), N);
    ev.s += "}";
    ev.arr("pre", o.pre.data(), N);
    ev.s += "},\"out\":{\"x\":0";
    ev.arr("vals", res.data(), N);
    ev.s += "}";
    ev.emit();
}

// ---- table mode: one operation on boundary / special values; reference = the same scalar C++ operation, element by element
template<class T> struct UInt;
template<> struct UInt<int> { typedef unsigned type; };
template<> struct UInt<std::int64_t> { typedef std::uint64_t type; };
template<class T, bool I = std::is_integral<T>::value> struct Sc;
template<class T> struct Sc<T,true> {      // integers: wrap-around arithmetic spelled with unsigned (no UB)
    typedef typename UInt<T>::type U;
    static T neg(T a) { return (T)(U(0) - (U)a); } static T abs(T a) { return a < 0 ? neg(a) : a; }
    static T add(T a, T b) { return (T)((U)a + (U)b); } static T sub(T a, T b) { return (T)((U)a - (U)b); } static T mul(T a, T b) { return (T)((U)a * (U)b); }
};
template<class T> struct Sc<T,false> {
    static T neg(T a) { return -a; } static T abs(T a) { return std::abs(a); }
    static T add(T a, T b) { return a + b; } static T sub(T a, T b) { return a - b; } static T mul(T a, T b) { return a * b; }
};
template<class T> static std::vector<T> boundary_values(std::true_type) {
    typedef std::numeric_limits<T> L; typedef typename UInt<T>::type U;
    return { T(0), T(1), T(-1), T(2), T(-3), L::min(), T(L::min() + 1), L::max(), T(L::max() - 1), (T)(U)(~U(0) / 3), (T)(U)(~U(0) / 3 * 2), T(46341), T(-46341) };
}
template<class T> static std::vector<T> boundary_values(std::false_type) {
    typedef std::numeric_limits<T> L;
    return { T(0), -T(0), T(1), T(-1), T(1.5), T(-2.25), T(0.1), T(3), L::min(), -L::min(), L::denorm_min(), -L::denorm_min(), L::max(), -L::max(),
             L::infinity(), -L::infinity(), L::quiet_NaN(), T(1e-3), T(700), T(-700), T(0.5) };
}
template<class T, size_t N> struct TOps {
    Tensor<T,N> a, b;
    // nonan: min/max of a NaN operand is not among the operations the property promises bit-exact (SIMD min/max return the
    // second operand, std::min/std::max the first): NaN is left out of the operand set for those two operations
    __attribute__((noinline)) TOps(const char* id, bool nonan = false) {
        vt::Rng r(vt::hash_str(id));
        std::vector<T> bv = boundary_values<T>(std::is_integral<T>());
        if (nonan) for (auto& v : bv) if (v != v) v = T(2.5);
        for (size_t i = 0; i < N; ++i) { a.data()[i] = bv[r.range(0, (int)bv.size() - 1)]; b.data()[i] = bv[r.range(0, (int)bv.size() - 1)]; }
        asm volatile("" : : "r"(a.data()), "r"(b.data()) : "memory");
    }
};
template<class R> static std::string limbs_of(const R* p, size_t n) {
    std::string o = "[";
    for (size_t i = 0; i < n; ++i) {
        R v = p[i]; uint64_t w = vt::bits_of(v);
        if (v != v) w = (sizeof(R) == 8) ? 0x7ff8000000000000ull : 0x7fc00000ull;      // NaNs compared as a class
        if (i) o += ",";
        o += vt::limbs(w, sizeof(R) == 1 ? 1 : (int)(sizeof(R) / 2));
    }
    return o + "]";
}
template<class T, size_t N, class R> static void log_table(const char* id, const char* tt, const char* op, const TOps<T,N>& o, const R* res, const R* ref, const R* alt = nullptr) {
    vt::Ev ev("ExprTable"); ev.str("case", id);
    ev.s += ",\"in\":{\"T\":\""; ev.s += tt; ev.s += "\",\"mode\":\"table\"";
    ev.str("op", op).num("N", N);
    ev.raw("a", limbs_of(o.a.data(), N)).raw("b", limbs_of(o.b.data(), N)).raw("ref", limbs_of(ref, N));
    if (alt) ev.raw("alt", limbs_of(alt, N));
    ev.s += "},\"out\":{\"x\":0";
    ev.raw("limbs", limbs_of(res, N));
    ev.s += "}";
    ev.emit();
}
'''


def cxx(e):
    k = e["k"]
    if k == "t":
        return "o." + e["n"]
    if k == "s":
        return "o.s"
    if k == "k":
        return "decltype(o.s)(%d)" % e["v"]
    if k == "neg":
        return "(-%s)" % cxx(e["x"])
    if k == "not":
        return "(!%s)" % cxx(e["x"])
    if k in ("abs", "sqrt"):
        return "%s(%s)" % (k, cxx(e["x"]))
    if k in ("min", "max"):
        return "%s(%s,%s)" % (k, cxx(e["l"]), cxx(e["r"]))
    op = {"add": "+", "sub": "-", "mul": "*", "div": "/", "lt": "<", "le": "<=", "gt": ">", "ge": ">=", "eq": "==", "ne": "!=", "and": "&&", "or": "||"}[k]
    return "(%s%s%s)" % (cxx(e["l"]), op, cxx(e["r"]))


def tstr(e):
    k = e["k"]
    if k == "t":
        return e["n"]
    if k == "s":
        return "s"
    if k == "k":
        return "k%d" % e["v"] if e["v"] >= 0 else "km%d" % -e["v"]
    if "x" in e:
        return "%s(%s)" % (k, tstr(e["x"]))
    return "%s(%s,%s)" % (k, tstr(e["l"]), tstr(e["r"]))


TABLE = {
    "neg": ("-o.a", "Sc<T>::neg(x)", "T"), "abs": ("abs(o.a)", "Sc<T>::abs(x)", "T"),
    "add": ("o.a+o.b", "Sc<T>::add(x,y)", "T"), "sub": ("o.a-o.b", "Sc<T>::sub(x,y)", "T"), "mul": ("o.a*o.b", "Sc<T>::mul(x,y)", "T"),
    "min": ("min(o.a,o.b)", "std::min(x,y)", "T"), "max": ("max(o.a,o.b)", "std::max(x,y)", "T"),
    "lt": ("o.a<o.b", "x<y", "bool"), "le": ("o.a<=o.b", "x<=y", "bool"), "eq": ("o.a==o.b", "x==y", "bool"), "ne": ("o.a!=o.b", "x!=y", "bool"),
    "sqrt": ("sqrt(o.a)", "std::sqrt(x)", "T"), "div": ("o.a/o.b", "x/y", "T"),
    "exp": ("exp(o.a)", "std::exp(x)", "T"), "log": ("log(o.a)", "std::log(x)", "T"), "sin": ("sin(o.a)", "std::sin(x)", "T"),
    "cos": ("cos(o.a)", "std::cos(x)", "T"), "tan": ("tan(o.a)", "std::tan(x)", "T"), "tanh": ("tanh(o.a)", "std::tanh(x)", "T"),
    "atan": ("atan(o.a)", "std::atan(x)", "T"), "cbrt": ("cbrt(o.a)", "std::cbrt(x)", "T"), "floor": ("floor(o.a)", "std::floor(x)", "T"),
    "ceil": ("ceil(o.a)", "std::ceil(x)", "T"), "round": ("round(o.a)", "std::round(x)", "T"), "trunc": ("trunc(o.a)", "std::trunc(x)", "T"),
    "pow": ("pow(o.a,o.b)", "std::pow(x,y)", "T"), "hypot": ("hypot(o.a,o.b)", "std::hypot(x,y)", "T"), "atan2": ("atan2(o.a,o.b)", "std::atan2(x,y)", "T"),
    "isnan": ("isnan(o.a)", "std::isnan(x)", "bool"), "isinf": ("isinf(o.a)", "std::isinf(x)", "bool"), "isfinite": ("isfinite(o.a)", "std::isfinite(x)", "bool"),
}

AOP = {"set": "=", "add": "+=", "sub": "-=", "mul": "*=", "div": "/="}


class C02(Check):
    prop = "C02"
    trace_module = "TraceExpr"
    trace_cfg = "TraceExpr.cfg"
    rule = ("cases = states of GenExpr: expression trees up to depth 2 over tensor leaves, a scalar on either side, unary minus, abs, sqrt, "
            "+ - * /, min, max, the six comparisons and && || !, crossed with the five assignment forms, tensor sizes {1,3,4,7,8,15,16,17,33,35} "
            "(every residue of the vector widths, with and without a vector body) and four element types, hash-sampled by VERIF_SEED; "
            "TLC evaluates the tree with Expr!Eval on the logged operands and compares every flat position; "
            "distinct = distinct (tree, operator, size, type); all are non-trivial")
    assumptions = ["operands are small integers / perfect squares / exact multiples, so every intermediate is an exact integer in all four types "
                   "and bit-exact equality is sound (checked per event by Expr!InDomain; out-of-domain events are skipped, not failed)",
                   "transcendental functions and IEEE special / integer boundary values are judged relative to the scalar C++ operation (table mode)",
                   "complex<double> is exercised on the ring operations (unary minus, + - *, scalar on either side) only"]

    def plan(self, ctx):
        cfg = "GenExpr_%s.cfg" % ctx.tier
        items, gen, dist, out = tlc_emit(ctx, "GenExpr", cfg, env={"VERIF_SEED": str(ctx.seed)})
        if "No error has been found" not in out:
            raise ToolFailure("GenExpr failed: " + out[-1500:])
        ctx.mc_results.append({"module": "GenExpr", "cfg": cfg, "generated": gen, "distinct": dist, "ok": True, "wall_s": 0, "action_coverage": {}})
        for c in items:
            if c.get("mode") == "table":
                c["case"] = "ext/%s/%s/%d" % (c["T"], c["op"], c["N"])
                continue
            c["case"] = "ex/%s/%s/%d/%s" % (c["T"], c["aop"], c["N"], tstr(c["tree"]))
        items.sort(key=lambda c: c["case"])
        return items

    def stmt(self, c):
        T = CXX_T[c["T"]]
        N = c["N"]
        if c.get("mode") == "table":
            fx, sx, rt = TABLE[c["op"]]
            R = "bool" if rt == "bool" else "T"
            nonan = ",true" if c["op"] in ("min", "max") else ""
            alt, altarg = "", ""
            if c["op"] == "round":     # named deviation D17: the vector body rounds halves to even (nearbyint), the scalar tail away from zero
                alt, altarg = " alt[i] = std::nearbyint(x);", ",alt"
            return ('    { typedef %s T; TOps<T,%d> o("%s"%s); Tensor<%s,%d> R = %s; %s ref[%d]; %s alt[%d]; (void)alt; '
                    'for (size_t i = 0; i < %d; ++i) { volatile T xv = o.a.data()[i], yv = o.b.data()[i]; T x = xv, y = yv; (void)y; ref[i] = (%s)(%s);%s } '
                    'log_table("%s","%s","%s",o,R.data(),ref%s); }') % (T, N, c["case"], nonan, R, N, fx, R, N, R, N, N, R, sx, alt, c["case"], c["T"], c["op"], altarg)
        head = json.dumps(json.dumps({"tree": c["tree"], "aop": c["aop"], "N": N}, separators=(",", ":"))[1:-1])
        o = "Ops<%s,%d> o(\"%s\",%d);" % (T, N, c["case"], 1 if c["aop"] == "div" else 0)
        if c["bool"]:
            body = "Tensor<bool,%d> R = %s;" % (N, cxx(c["tree"]))
        else:
            body = "Tensor<%s,%d> R = o.pre; R %s %s;" % (T, N, AOP[c["aop"]], cxx(c["tree"]))
        return '    { %s %s log_expr("%s","%s",%s,o,R); }' % (o, body, c["case"], c["T"], head)

    def units(self, ctx, plan, cfgname):
        units, per = [], 70
        plan = sorted(plan, key=lambda c: (c.get("mode", ""), c["T"], c["N"], c["case"]))
        for ci in range(0, len(plan), per):
            body = "\n".join(self.stmt(c) for c in plan[ci:ci + per])
            src = PRELUDE + "int main(int argc, char** argv) {\n    vt::open(argc, argv, \"%s\");\n    vt::install_handlers();\n%s\n    vt::close_ok();\n    return 0;\n}\n" % (cfgname, body)
            units.append(("ex_%03d" % (ci // per), src, []))
        return units

    def event_weight(self, ev):
        return 1 + ev.get("in", {}).get("N", 1)
