# C03 -- pairwise einsum / contraction / single-tensor einsum / inner / outer / explicit-output einsum
#        equal the Einstein summation they denote
from pipeline import *
from c01 import CXX_T

PRELUDE = r'''
#include <Fastor/Fastor.h>
#include "vt.h"
#include <sys/wait.h>
using namespace Fastor;

// operand data: draw 0 = small random integers in [-4,4]; draw 1 = position-revealing (value = 1 + offset mod 31 / 29, so a
// misplaced element changes the result) -- small enough that every sum of <= 1500 products stays exact in float
template<class T> __attribute__((noinline)) static void es_fill(T* p, size_t n, int draw, vt::Rng& r, int which) {
    if (draw == 1) {
        for (size_t i = 0; i < n; ++i)
            p[i] = vt::from_int2<T>(1 + (int)(i % (which ? 29 : 31)), vt::is_cx<T>::value ? (int)((i + which) % 5) - 2 : 0, vt::is_cx<T>());
    } else vt::fill_small(p, n, r, -4, 4);
    asm volatile("" : : "r"(p) : "memory");
}
template<class T> static std::string es_in(const char* head, const T* a, size_t na, const T* b, size_t nb) {
    vt::Ev t("x"); t.s.clear(); t.s += head;
    t.arr("A", a, na).arr("B", b, nb);
    return t.s;
}
// result: extents of the returned STATIC type and its elements
template<class T, size_t... R> static void es_put(vt::Ev& ev, const Tensor<T,R...>& r) {
    const long long d[] = {(long long)R..., 0};
    ev.s += ",\"shape\":[";
    for (size_t i = 0; i < sizeof...(R); ++i) { if (i) ev.s += ","; ev.s += std::to_string(d[i]); }
    ev.s += "]";
    ev.arr("vals", r.data(), (size_t)pack_prod<R...>::value);
}
template<class T> static typename std::enable_if<std::is_arithmetic<T>::value || vt::is_cx<T>::value>::type
es_put(vt::Ev& ev, const T& r) { ev.s += ",\"shape\":[]"; ev.arr("vals", &r, 1); }

static void es_fault(const std::string& cid, const std::string& in, int sig) {
    vt::Ev ev("Einsum"); ev.str("case", cid);
    ev.s += ",\"in\":{" + in + "},\"out\":{\"fault\":" + std::to_string(sig) + ",\"shape\":[],\"vals\":[]}";
    ev.emit();
}
static void es_child_signals() {
    signal(SIGSEGV, SIG_DFL); signal(SIGBUS, SIG_DFL); signal(SIGILL, SIG_DFL); signal(SIGFPE, SIG_DFL); signal(SIGABRT, SIG_DFL);
}
static void es_wait(pid_t pid, const std::string& cid, const std::string& in) {
    int st = 0; waitpid(pid, &st, 0);
    if (!(WIFEXITED(st) && WEXITSTATUS(st) == 0)) es_fault(cid, in, WIFSIGNALED(st) ? WTERMSIG(st) : 1000 + WEXITSTATUS(st));
}
// Every call runs in a forked child: a call that faults (or smashes its stack) costs one event, not the rest of the unit.
// The child computes the result FIRST and only then builds the event.
#define ES_RUN(CALL)                                                                             \
    fflush(vt::g_out);                                                                           \
    pid_t pid = fork();                                                                          \
    if (pid == 0) {                                                                              \
        es_child_signals();                                                                      \
        auto res = CALL;                                                                         \
        vt::Ev ev("Einsum"); ev.str("case", cid);                                                \
        ev.s += ",\"in\":{" + in + "},\"out\":{\"fault\":0";                                     \
        es_put(ev, res);                                                                         \
        ev.s += "}"; ev.emit(); fflush(vt::g_out); _exit(0);                                     \
    }                                                                                            \
    es_wait(pid, cid, in);

template<class TA, class TB, class F> static void es_pair(const char* id, const char* head, F f) {
    for (int draw = 0; draw < 2; ++draw) {
        std::string cid = std::string(id) + "/d" + std::to_string(draw);
        vt::g_cur_case = cid.c_str();
        vt::Rng r(vt::hash_str(cid.c_str()));
        TA a; TB b;
        es_fill(a.data(), (size_t)a.size(), draw, r, 0);
        es_fill(b.data(), (size_t)b.size(), draw, r, 1);
        std::string in = es_in(head, a.data(), (size_t)a.size(), b.data(), (size_t)b.size());
        ES_RUN(f(a, b))
    }
}
template<class TA, class F> static void es_single(const char* id, const char* head, F f) {
    for (int draw = 0; draw < 2; ++draw) {
        std::string cid = std::string(id) + "/d" + std::to_string(draw);
        vt::g_cur_case = cid.c_str();
        vt::Rng r(vt::hash_str(cid.c_str()));
        TA a;
        es_fill(a.data(), (size_t)a.size(), draw, r, 0);
        std::string in = es_in(head, a.data(), (size_t)a.size(), a.data(), 0);
        ES_RUN(f(a))
    }
}
// L2 binding: the library's own classifier values for this pattern (compared with EinsumDispatch; mismatch = MODEL-DRIFT)
template<class I, class J, class TB> static void es_meta(const char* id, const char* head) {
    vt::Ev ev("Meta"); ev.str("case", std::string("meta/") + id);
    ev.s += ",\"in\":{"; ev.s += head; ev.s += "},\"out\":{\"x\":0";
    ev.num("pr", is_pair_reduction<I,J>::value ? 1 : 0);
    ev.num("mv", internal::is_generalised_matrix_vector<I,J>::value ? 1 : 0);
    ev.num("vm", internal::is_generalised_vector_matrix<I,J>::value ? 1 : 0);
    ev.num("mm", internal::is_generalised_matrix_matrix<I,J>::value ? 1 : 0);
    ev.num("stride", (long long)is_vectorisable<I,J,TB>::stride);
    ev.s += "}";
    ev.emit();
}
'''

PAIR_FORMS = ("einsum", "contraction", "explicit")


def _digits(l):
    return "".join(str(x) for x in l)


def _shape(s):
    return "x".join(str(x) for x in s) if s else "s"


def case_id(c):
    pat = _digits(c["la"]) + ("_" + _digits(c["lb"]) if c["lb"] else "") + ("_o" + _digits(c["out"]) if c["out"] else "")
    return "es/%s/%s/%s/%s%s" % (c["form"], c["T"], pat, _shape(c["sa"]), ("_" + _shape(c["sb"])) if c["lb"] else "")


def _idx(l, kind="Index"):
    return "%s<%s>" % (kind, ",".join(str(x) for x in l))


def _tensor(T, s):
    return "Tensor<%s%s>" % (CXX_T[T], "".join(",%d" % x for x in s))


def nterms(c):
    ext = dict(zip(c["la"] + c["lb"], c["sa"] + c["sb"]))
    n = 1
    for v in ext.values():
        n *= v
    return n


class C03(Check):
    prop = "C03"
    trace_module = "TraceEinsum"
    trace_cfg = "TraceEinsum.cfg"
    rule = ("cases = states of GenEinsum: EVERY pair of index lists of operand ranks 1..3 (quick; 1..4 thorough, quick samples rank 4) in which no "
            "label occurs more than twice (all partial matchings of the positions between and within the two lists, canonical labels; "
            "minus the patterns no configuration compiles), each with one or two extent assignments from {1,2,3,4,5,8,9} (distinct labels "
            "-> distinct extents within a budget of multiply-adds; last label of b a multiple / a non-multiple of the vector widths); forms "
            "einsum<I,J>, contraction<I,J>, einsum<I,J,OIndex> (C++17 configurations), einsum<I>(a) for every rank 1..4 pattern (+OIndex), "
            "inner, outer; each case on 2 data draws (random small integers in [-4,4], position-revealing); distinct = distinct (case, draw) "
            "inputs; every event compares the extents of the static result type and every element with Einsum!EinsteinSum computed by TLC")
    assumptions = ["operand data are small integers (|x| <= 31), every partial sum stays exactly representable in every element type, so exact "
                   "equality with the TLC-computed Einstein sum is sound for any summation order / FMA / ISA",
                   "Schwartz-Zippel: a wrong multilinear form agrees with the right one on a random draw from [-4,4] with probability <= 2/9 per element; "
                   "the position-revealing draw makes a permuted/transposed result visible deterministically",
                   "rounding of non-integer data is not judged (exact data only); CONTRACT_OPT variants -3/-2 are not exercised (they reject reduction patterns by static_assert)",
                   "each call runs in a forked child process so that a faulting call is recorded as one rejected event"]

    def configs(self, ctx):
        if ctx.tier == "quick":
            return list(QUICK_CFGS) + ["avx2-17-O2"]
        return ["%s-%s-O2" % (i, s) for i in ALL_ISAS for s in ("14", "17")] + ["avx2-14-O2+CONTRACT_OPT=%d" % k for k in (-1, 1, 2)]

    def model_checks(self, ctx):
        # L2 => L1 without the exemption of the reported defect classes: TLC finds the counterexample by itself (documented, expected)
        model_check(ctx, "MC_EinsumDispatch", "MC_EinsumDispatch.cfg", workers=1, expect_violation="AllRoutesRefineL1",
                    env={"VERIF_SEED": str(ctx.seed)})
        # ... and with the exemption it holds for every pattern of ranks <= 3 under every vector setting
        model_check(ctx, "MC_EinsumDispatch", "MC_EinsumDispatch_sound.cfg", workers=1, env={"VERIF_SEED": str(ctx.seed)})

    def plan(self, ctx):
        cfg = "GenEinsum_%s.cfg" % ctx.tier
        t = time.time()
        items, gen, dist, out = tlc_emit(ctx, "GenEinsum", cfg, env={"VERIF_SEED": str(ctx.seed)}, timeout=1500)
        if "No error has been found" not in out:
            raise ToolFailure("GenEinsum: spec-level obligation failed or generator error: " + out[-1500:])
        ctx.mc_results.append({"module": "GenEinsum", "cfg": cfg, "generated": gen, "distinct": dist, "ok": True,
                               "wall_s": round(time.time() - t, 1), "action_coverage": {}})
        for c in items:
            c["case"] = case_id(c)
        items.sort(key=lambda c: c["case"])
        if len({c["case"] for c in items}) != len(items):
            raise ToolFailure("GenEinsum: case ids are not unique")
        self.routes, self.classes = {}, {}
        for c in items:
            self.routes[c["route"]] = self.routes.get(c["route"], 0) + 1
            if c["defect"]:
                self.classes[c["defect"]] = self.classes.get(c["defect"], 0) + 1
        self.by_case = {c["case"]: c for c in items}
        return items

    # which cases a configuration runs: the explicit-output overload set is declared under FASTOR_CXX_VERSION >= 2017 only;
    # the CONTRACT_OPT configurations run the pair forms of ranks <= 3 on the two main types (compile cost of the meta-engine)
    def runs(self, c, cfgname):
        if c["form"] in ("explicit", "single_explicit") and "-17-" not in cfgname:
            return False
        if "CONTRACT_OPT" in cfgname:
            return c["form"] in ("einsum", "contraction") and c["T"] in ("f64", "i32") and max(len(c["la"]), len(c["lb"])) <= 3
        return True

    def stmt(self, c):
        T, form = c["T"], c["form"]
        head = '\\"T\\":\\"%s\\",\\"form\\":\\"%s\\",\\"la\\":[%s],\\"lb\\":[%s],\\"sa\\":[%s],\\"sb\\":[%s],\\"out\\":[%s]' % (
            T, form, ",".join(map(str, c["la"])), ",".join(map(str, c["lb"])), ",".join(map(str, c["sa"])),
            ",".join(map(str, c["sb"])), ",".join(map(str, c["out"])))
        tA = _tensor(T, c["sa"])
        if form in ("single", "single_explicit"):
            targs = _idx(c["la"]) + ("," + _idx(c["out"], "OIndex") if form == "single_explicit" else "")
            return '    es_single<%s>("%s","%s",[](const %s& a){ return einsum<%s>(a); });' % (tA, c["case"], head, tA, targs)
        tB = _tensor(T, c["sb"])
        I, J = _idx(c["la"]), _idx(c["lb"])
        if form == "einsum":
            call = "einsum<%s,%s>(a,b)" % (I, J)
        elif form == "contraction":
            call = "contraction<%s,%s>(a,b)" % (I, J)
        elif form == "explicit":
            call = "einsum<%s,%s,%s>(a,b)" % (I, J, _idx(c["out"], "OIndex"))
        elif form == "inner":
            call = "inner(a,b)"
        elif form == "outer":
            call = "outer(a,b)"
        else:
            raise ToolFailure("unknown form " + form)
        s = '    es_pair<%s,%s>("%s","%s",[](const %s& a, const %s& b){ return %s; });' % (tA, tB, c["case"], head, tA, tB, call)
        if form == "einsum":
            s += '\n    es_meta<%s,%s,%s>("%s","%s");' % (I, J, tB, c["case"], head)
        return s

    def units(self, ctx, plan, cfgname):
        mine = [c for c in plan if self.runs(c, cfgname)]
        mine.sort(key=lambda c: (c["T"], len(c["la"]) + len(c["lb"]), c["case"]))
        units, per = [], 55
        for ci in range(0, len(mine), per):
            body = "\n".join(self.stmt(c) for c in mine[ci:ci + per])
            src = PRELUDE + "int main(int argc, char** argv) {\n    vt::open(argc, argv, \"%s\");\n    vt::install_handlers();\n%s\n    vt::close_ok();\n    return 0;\n}\n" % (cfgname, body)
            units.append(("es_%03d" % (ci // per), src, []))
        return units

    def post_events(self, ctx, traces):
        # MODEL-DRIFT report (never a verdict): pure key comparison of the library's classifier values with the route / vector
        # length TLC computed from EinsumDispatch for the same case in the plan
        drift = set()
        for cfgname, evs in traces.items():
            for e in evs:
                if e.get("e") != "Meta":
                    continue
                c = self.by_case.get(e["case"][len("meta/"):])
                if not c:
                    continue
                o = e["out"]
                code = "inner" if o["pr"] else "mv" if o["mv"] else "vm" if o["vm"] else "mm" if o["mm"] else c["route"] if c["route"] in ("outer", "nest") else "?"
                if code != c["route"] or o["stride"] != c["stride"]:
                    drift.add(c["case"])
        self.drift = sorted(drift)
        if drift:
            ctx.notes.append("MODEL-DRIFT: EinsumDispatch disagrees with the library's classifiers on %d cases, e.g. %s" % (len(drift), self.drift[0]))
            log("MODEL-DRIFT (not a violation): %d cases, e.g. %s" % (len(drift), self.drift[0]))
        return traces

    def event_weight(self, ev):
        i = ev.get("in", {})
        if ev["e"] != "Einsum":
            return 5
        return 20 + nterms(i) + len(i.get("A", [])) + len(i.get("B", []))

    def nontrivial(self, ev):
        return ev["e"] == "Einsum"

    def extra_coverage(self, ctx):
        return {"l2_route_counts": getattr(self, "routes", {}), "l2_defect_class_cases": getattr(self, "classes", {}),
                "model_drift_cases": getattr(self, "drift", [])}
