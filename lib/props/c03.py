# C03 -- pairwise einsum / contraction / single-tensor einsum / inner / outer / explicit-output einsum
#        equal the Einstein summation they denote
import zlib
from pipeline import *
from c01 import CXX_T

PRELUDE = r'''
#include <Fastor/Fastor.h>
#include "vt.h"
#include <sys/wait.h>
using namespace Fastor;

// operand data: draw 0 = small random integers in [-4,4]; draw 1 = position-revealing (value = 1 + offset mod 31 / 29, so a
// misplaced element changes the result) -- small enough that every sum of <= 1500 products stays exact in float
template<class T> __attribute__((noinline)) static void es_fill(T* p, size_t n, int draw, vt::Rng& r, int which) {
    if (draw == 1) {
        for (size_t i = 0; i < n; ++i)
            p[i] = vt::from_int2<T>(1 + (int)(i % (which ? 29 : 31)), vt::is_cx<T>::value ? (int)((i + which) % 5) - 2 : 0, vt::is_cx<T>());
    } else vt::fill_small(p, n, r, -4, 4);
    asm volatile("" : : "r"(p) : "memory");
}
template<class T> static std::string es_in(const char* head, const T* a, size_t na, const T* b, size_t nb) {
    vt::Ev t("x"); t.s.clear(); t.s += head;
    t.arr("A", a, na).arr("B", b, nb);
    return t.s;
}
// result of a call as plain integers: extents of the returned STATIC type, then its elements (complex: re, im)
struct EsRes { std::vector<long long> shape, vals; };
template<class T> static void es_val(EsRes& o, const T& v) { o.vals.push_back(vt::as_ll(v, std::is_floating_point<T>())); }
template<class T> static void es_val(EsRes& o, const std::complex<T>& v) {
    o.vals.push_back(vt::as_ll(v.real(), std::true_type())); o.vals.push_back(vt::as_ll(v.imag(), std::true_type()));
}
template<class T, size_t... R> static void es_put(EsRes& o, const Tensor<T,R...>& r) {
    const long long d[] = {(long long)R..., 0};
    for (size_t i = 0; i < sizeof...(R); ++i) o.shape.push_back(d[i]);
    for (size_t i = 0; i < (size_t)pack_prod<R...>::value; ++i) es_val(o, r.data()[i]);
}
template<class T> static typename std::enable_if<std::is_arithmetic<T>::value || vt::is_cx<T>::value>::type
es_put(EsRes& o, const T& r) { es_val(o, r); }

static void es_child_exit() { _exit(77); }
static void es_child_setup() {
    signal(SIGSEGV, SIG_DFL); signal(SIGBUS, SIG_DFL); signal(SIGILL, SIG_DFL); signal(SIGFPE, SIG_DFL); signal(SIGABRT, SIG_DFL);
    std::set_terminate(es_child_exit);
    alarm(30);              // a call that does not return is a fault (14) too
}
template<class T> __attribute__((noinline)) static void es_load(T* d, const T* s, size_t n) {
    for (size_t i = 0; i < n; ++i) d[i] = s[i];
    asm volatile("" : : "r"(d) : "memory");
}
// One case = one plain function  fn(res, pa, pb)  that copies the operand data into its statically shaped tensors, makes the
// call and stores the result.  The driver is templated on the element type only.  Every call runs in a forked child process that
// sends the result through a pipe as raw integers; the parent (whose memory the call cannot have damaged) writes the event.  A call
// that faults or smashes its stack therefore costs one event (fault = signal number, 1000 + exit code, 2000 = malformed reply)
// and not the rest of the unit.
static std::string es_out_json(int fault, const std::vector<long long>& w, bool cx) {
    std::string o = "\"fault\":" + std::to_string(fault) + ",\"shape\":[";
    size_t ns = 0, nv = 0;
    bool ok = fault == 0 && !w.empty();
    if (ok) { ns = (size_t)w[0]; ok = w[0] >= 0 && w[0] <= 8 && w.size() >= ns + 2; }
    if (ok) { nv = (size_t)w[ns + 1]; ok = w[ns + 1] >= 0 && w.size() == ns + 2 + nv && (!cx || nv % 2 == 0); }
    if (!ok) return "\"fault\":" + std::to_string(fault ? fault : 2000) + ",\"shape\":[],\"vals\":[]";
    for (size_t i = 0; i < ns; ++i) { if (i) o += ","; o += std::to_string(w[1 + i]); }
    o += "],\"vals\":[";
    const long long* v = w.data() + ns + 2;
    for (size_t i = 0; i < nv; i += cx ? 2 : 1) {
        if (i) o += ",";
        long long x = v[i]; if (x >= vt::LIM || x <= -vt::LIM) x = vt::BADV;
        if (cx) { long long y = v[i + 1]; if (y >= vt::LIM || y <= -vt::LIM) y = vt::BADV; o += "[" + std::to_string(x) + "," + std::to_string(y) + "]"; }
        else o += std::to_string(x);
    }
    return o + "]";
}
template<class T> static void es_drive(const char* id, const char* head, size_t na, size_t nb, void (*fn)(EsRes&, const T*, const T*)) {
    for (int draw = 0; draw < 2; ++draw) {
        std::string cid = std::string(id) + "/d" + std::to_string(draw);
        vt::g_cur_case = cid.c_str();
        vt::Rng r(vt::hash_str(cid.c_str()));
        std::vector<T> a(na), b(nb);
        es_fill(a.data(), na, draw, r, 0);
        es_fill(b.data(), nb, draw, r, 1);
        int fd[2];
        if (pipe(fd) != 0) { std::perror("pipe"); std::exit(3); }
        fflush(vt::g_out);
        pid_t pid = fork();
        if (pid < 0) { std::perror("fork"); std::exit(3); }
        if (pid == 0) {
            close(fd[0]);
            es_child_setup();
            EsRes res;
            fn(res, a.data(), b.data());
            std::vector<long long> w;
            w.push_back((long long)res.shape.size()); w.insert(w.end(), res.shape.begin(), res.shape.end());
            w.push_back((long long)res.vals.size());  w.insert(w.end(), res.vals.begin(), res.vals.end());
            const char* p = (const char*)w.data(); size_t left = w.size() * sizeof(long long);
            while (left) { ssize_t k = write(fd[1], p, left); if (k <= 0) _exit(78); p += k; left -= (size_t)k; }
            _exit(0);
        }
        close(fd[1]);
        std::vector<long long> w; long long buf[512]; ssize_t k; size_t bytes = 0;
        std::vector<char> raw;
        while ((k = read(fd[0], buf, sizeof buf)) > 0) { raw.insert(raw.end(), (char*)buf, (char*)buf + k); bytes += (size_t)k; if (bytes > (1u << 24)) break; }
        close(fd[0]);
        int st = 0; waitpid(pid, &st, 0);
        int fault = (WIFEXITED(st) && WEXITSTATUS(st) == 0) ? 0 : (WIFSIGNALED(st) ? WTERMSIG(st) : 1000 + WEXITSTATUS(st));
        if (raw.size() % sizeof(long long) == 0) { w.resize(raw.size() / sizeof(long long)); if (!w.empty()) memcpy(w.data(), raw.data(), raw.size()); }
        vt::Ev ev("Einsum"); ev.str("case", cid);
        ev.s += ",\"in\":{"; ev.s += es_in(head, a.data(), na, b.data(), nb); ev.s += "},\"out\":{";
        ev.s += es_out_json(fault, w, vt::is_cx<T>::value);
        ev.s += "}";
        ev.emit();
    }
}
// L2 binding: the library's own classifier values for this pattern (compared with EinsumDispatch; mismatch = MODEL-DRIFT)
template<class I, class J, class TB> static void es_meta(const char* id, const char* head) {
    vt::Ev ev("Meta"); ev.str("case", std::string("meta/") + id);
    ev.s += ",\"in\":{"; ev.s += head; ev.s += "},\"out\":{\"x\":0";
    ev.num("pr", is_pair_reduction<I,J>::value ? 1 : 0);
    ev.num("mv", internal::is_generalised_matrix_vector<I,J>::value ? 1 : 0);
    ev.num("vm", internal::is_generalised_vector_matrix<I,J>::value ? 1 : 0);
    ev.num("mm", internal::is_generalised_matrix_matrix<I,J>::value ? 1 : 0);
    ev.num("stride", (long long)is_vectorisable<I,J,TB>::stride);
    ev.s += "}";
    ev.emit();
}
'''

def _digits(l):
    return "".join(str(x) for x in l)


def _shape(s):
    return "x".join(str(x) for x in s) if s else "s"


def case_id(c):
    pat = _digits(c["la"]) + ("_" + _digits(c["lb"]) if c["lb"] else "") + ("_o" + _digits(c["out"]) if c["out"] else "")
    return "es/%s/%s/%s/%s%s" % (c["form"], c["T"], pat, _shape(c["sa"]), ("_" + _shape(c["sb"])) if c["lb"] else "")


def _idx(l, kind="Index"):
    return "%s<%s>" % (kind, ",".join(str(x) for x in l))


def _tensor(T, s):
    return "Tensor<%s%s>" % (CXX_T[T], "".join(",%d" % x for x in s))


def nterms(c):
    ext = dict(zip(c["la"] + c["lb"], c["sa"] + c["sb"]))
    n = 1
    for v in ext.values():
        n *= v
    return n


class C03(Check):
    prop = "C03"
    trace_module = "TraceEinsum"
    trace_cfg = "TraceEinsum.cfg"
    rule = ("cases = states of GenEinsum: EVERY pair of index lists of operand ranks 1..3 (quick; 1..4 thorough, quick samples rank 4) in which no "
            "label occurs more than twice (all partial matchings of the positions between and within the two lists, canonical labels), each with one or two extent assignments from {1,2,3,4,5,8,9} (distinct labels "
            "-> distinct extents within a budget of multiply-adds; last label of b a multiple / a non-multiple of the vector widths); forms "
            "einsum<I,J>, contraction<I,J>, einsum<I,J,OIndex> (C++17 configurations), einsum<I>(a) for every rank 1..4 pattern (+OIndex), "
            "inner, outer; each case on 2 data draws (random small integers in [-4,4], position-revealing); distinct = distinct (case, draw) "
            "inputs; every event compares the extents of the static result type and every element with Einsum!EinsteinSum computed by TLC; "
            "thorough: the 6 primary ISA/standard configurations run the whole plan, the other 6 a fixed third of the einsum<I,J> cases, "
            "the 3 CONTRACT_OPT configurations the pair forms of ranks <= 3")
    assumptions = ["operand data are small integers (|x| <= 31), every partial sum stays exactly representable in every element type, so exact "
                   "equality with the TLC-computed Einstein sum is sound for any summation order / FMA / ISA",
                   "Schwartz-Zippel: a wrong multilinear form agrees with the right one on a random draw from [-4,4] with probability <= 2/9 per element; "
                   "the position-revealing draw makes a permuted/transposed result visible deterministically",
                   "rounding of non-integer data is not judged (exact data only); CONTRACT_OPT variants -3/-2 are not exercised (they reject reduction patterns by static_assert)",
                   "each call runs in a forked child process so that a faulting call is recorded as one rejected event"]

    def configs(self, ctx):
        if ctx.tier == "quick":
            return list(QUICK_CFGS) + ["avx2-17-O2"]
        return ["%s-14-O2" % i for i in ALL_ISAS] + ["avx2-17-O2", "avx512-17-O2"] + ["avx2-14-O2+CONTRACT_OPT=%d" % k for k in (-1, 1, 2)]

    def model_checks(self, ctx):
        # L2 => L1, no exemptions: every pair pattern of ranks <= 3, einsum / contraction, scalar and SIMD build, uniform vectorisable extents
        model_check(ctx, "MC_EinsumDispatch", "MC_EinsumDispatch.cfg", workers=1, env={"VERIF_SEED": str(ctx.seed)})

    def plan(self, ctx):
        cfg = "GenEinsum_%s.cfg" % ctx.tier
        t = time.time()
        items, gen, dist, out = tlc_emit(ctx, "GenEinsum", cfg, env={"VERIF_SEED": str(ctx.seed)}, timeout=1500)
        if "No error has been found" not in out:
            raise ToolFailure("GenEinsum: spec-level obligation failed or generator error: " + out[-1500:])
        ctx.mc_results.append({"module": "GenEinsum", "cfg": cfg, "generated": gen, "distinct": dist, "ok": True,
                               "wall_s": round(time.time() - t, 1), "action_coverage": {}})
        for c in items:
            c["case"] = case_id(c)
        items.sort(key=lambda c: c["case"])
        if len({c["case"] for c in items}) != len(items):
            raise ToolFailure("GenEinsum: case ids are not unique")
        self.routes = {}
        for c in items:
            self.routes[c["route"]] = self.routes.get(c["route"], 0) + 1
        self.by_case = {c["case"]: c for c in items}
        return items

    # Which cases a configuration runs (a case id denotes the same inputs in every configuration that runs it):
    #  * the explicit-output overload set is declared under FASTOR_CXX_VERSION >= 2017 only;
    #  * the CONTRACT_OPT configurations run the pair forms of ranks <= 3 on the two main types (compile cost of the meta-engine);
    #  * thorough tier: the configurations in PRIMARY run the whole plan, the remaining ISA x standard combinations run every case of
    #    the non-einsum forms and a fixed third of the einsum<I,J> cases (chosen by a hash of the case id).
    PRIMARY = ("scalar-14-O2", "sse2-14-O2", "avx2-14-O2", "avx512-14-O2", "avx2-17-O2", "avx512-17-O2")

    def runs(self, c, cfgname):
        if c["form"] in ("explicit", "single_explicit") and "-17-" not in cfgname:
            return False
        if "CONTRACT_OPT" in cfgname:
            return c["form"] in ("einsum", "contraction") and c["T"] in ("f64", "i32") and max(len(c["la"]), len(c["lb"])) <= 3
        # C06 FINDING (configuration-dependent rejection, excluded here): under -DFASTOR_DONT_VECTORISE _matmul<std::complex<double>,M,K,N>
        # does not compile for wide N (simd_vector_complex_scalar.h:72, SIMDVector<complex<T>,scalar>::operator[] returns T; reached from
        # _matmul_base_masked), so complex einsum calls that the classifiers route to a flat matmul back end are not offered there
        if cfgname.startswith("scalar-") and c["T"] in ("c64", "c32") and c.get("route") in ("mv", "vm", "mm"):
            return False
        if cfgname not in self.PRIMARY and c["form"] == "einsum":
            return zlib.crc32(c["case"].encode()) % 3 == 0
        return True

    def stmt(self, c, k, meta):
        """-> (function definition, statement in main) for case c (k: number inside the unit)"""
        T, form = c["T"], c["form"]
        cT = CXX_T[T]
        head = '\\"T\\":\\"%s\\",\\"form\\":\\"%s\\",\\"la\\":[%s],\\"lb\\":[%s],\\"sa\\":[%s],\\"sb\\":[%s],\\"out\\":[%s]' % (
            T, form, ",".join(map(str, c["la"])), ",".join(map(str, c["lb"])), ",".join(map(str, c["sa"])),
            ",".join(map(str, c["sb"])), ",".join(map(str, c["out"])))
        tA = _tensor(T, c["sa"])
        na = nb = 1
        for x in c["sa"]:
            na *= x
        if form in ("single", "single_explicit"):
            targs = _idx(c["la"]) + ("," + _idx(c["out"], "OIndex") if form == "single_explicit" else "")
            fn = ("static void c%d(EsRes& o, const %s* pa, const %s*) { %s a; es_load(a.data(), pa, %d); es_put(o, einsum<%s>(a)); }"
                  % (k, cT, cT, tA, na, targs))
            return fn, '    es_drive<%s>("%s","%s",%d,0,c%d);' % (cT, c["case"], head, na, k)
        for x in c["sb"]:
            nb *= x
        tB = _tensor(T, c["sb"])
        I, J = _idx(c["la"]), _idx(c["lb"])
        if form == "einsum":
            call = "einsum<%s,%s>(a,b)" % (I, J)
        elif form == "contraction":
            call = "contraction<%s,%s>(a,b)" % (I, J)
        elif form == "explicit":
            call = "einsum<%s,%s,%s>(a,b)" % (I, J, _idx(c["out"], "OIndex"))
        elif form == "inner":
            call = "inner(a,b)"
        elif form == "outer":
            call = "outer(a,b)"
        else:
            raise ToolFailure("unknown form " + form)
        fn = ("static void c%d(EsRes& o, const %s* pa, const %s* pb) { %s a; %s b; es_load(a.data(), pa, %d); es_load(b.data(), pb, %d); es_put(o, %s); }"
              % (k, cT, cT, tA, tB, na, nb, call))
        st = '    es_drive<%s>("%s","%s",%d,%d,c%d);' % (cT, c["case"], head, na, nb, k)
        if form == "einsum" and meta:
            st += '\n    es_meta<%s,%s,%s>("%s","%s");' % (I, J, tB, c["case"], head)
        return fn, st

    def units(self, ctx, plan, cfgname):
        mine = [c for c in plan if self.runs(c, cfgname)]
        # units of similar cost: cases dealt round-robin in order of (type, size of the loop nest)
        mine.sort(key=lambda c: (c["T"], nterms(c), c["case"]))
        nunits = max(1, round(len(mine) / 64.0))
        # the classifier values are compile-time constants independent of the configuration: logged in one configuration
        meta = cfgname == "avx2-14-O2"
        units = []
        for u in range(nunits):
            fns, sts = [], []
            for k, c in enumerate(mine[u::nunits]):
                f, s = self.stmt(c, k, meta)
                fns.append(f)
                sts.append(s)
            src = (PRELUDE + "\n".join(fns) + "\nint main(int argc, char** argv) {\n    vt::open(argc, argv, \"%s\");\n    vt::install_handlers();\n%s\n"
                   "    vt::close_ok();\n    return 0;\n}\n" % (cfgname, "\n".join(sts)))
            units.append(("es_%03d" % u, src, []))
        return units

    def post_events(self, ctx, traces):
        # MODEL-DRIFT report (never a verdict): pure key comparison of the library's classifier values with the route / vector
        # length TLC computed from EinsumDispatch for the same case in the plan
        drift = set()
        for cfgname, evs in traces.items():
            for e in evs:
                if e.get("e") != "Meta":
                    continue
                c = self.by_case.get(e["case"][len("meta/"):])
                if not c:
                    continue
                o = e["out"]
                code = "inner" if o["pr"] else "mv" if o["mv"] else "vm" if o["vm"] else "mm" if o["mm"] else c["route"] if c["route"] in ("outer", "nest") else "?"
                if code != c["route"] or o["stride"] != c["stride"]:
                    drift.add(c["case"])
        self.drift = sorted(drift)
        if drift:
            ctx.notes.append("MODEL-DRIFT: EinsumDispatch disagrees with the library's classifiers on %d cases, e.g. %s" % (len(drift), self.drift[0]))
            log("MODEL-DRIFT (not a violation): %d cases, e.g. %s" % (len(drift), self.drift[0]))
        return traces

    def event_weight(self, ev):
        i = ev.get("in", {})
        if ev["e"] != "Einsum":
            return 5
        return 20 + nterms(i) + len(i.get("A", [])) + len(i.get("B", []))

    def nontrivial(self, ev):
        return ev["e"] == "Einsum"

    def extra_coverage(self, ctx):
        return {"l2_route_counts": getattr(self, "routes", {}),
                "model_drift_cases": getattr(self, "drift", [])}
