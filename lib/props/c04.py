# C04 -- reading through an index or a slice returns exactly the selected elements
from views_common import *


class C04(ViewsCheck):
    prop = "C04"
    mode = "read"
    exh_kind = "read"
    gen_cfg = "GenViews_read.cfg"
    types_quick = ["f64", "f32", "i32", "c64"]
    types_thorough = ["f64", "f32", "i32", "i64", "c64"]     # complex<float> strided views compile in no configuration: not offered
    rule = ("behaviours = `tlc -generate` walks of GenViews (Mode=read): slices of ranks 1-4 in every admissible encoding (dynamic seq, "
            "compile-time fseq / fix / all, immediate iseq, bare integers, negative and last-relative bounds) read into a tensor of the "
            "slice's static shape, alone and inside the expression m*slice+c, scalar indexing with negative indices, interleaved with "
            "writes so that reads see non-initial memory; the values read and the (unchanged) parent block are compared by TLC with "
            "TensorMachine!Read(Sel(...)); non-trivial = every read event; distinct = distinct (call, configuration, type)")
    assumptions = ["values are small integers, exact in every element type",
                   "a bare integer <= -2 inside a slice (a(all,-2)) is outside the generated domain: the library treats it as a one-element seq "
                   "whose bounds follow the `last`-relative convention, the property text does not define it (DESIGN Appendix A)"]
