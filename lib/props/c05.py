# C05 -- writing through a slice changes exactly the selected elements and nothing else
from views_common import *


class C05(ViewsCheck):
    prop = "C05"
    mode = "write"
    exh_kind = "write"
    gen_cfg = "GenViews_write.cfg"
    types_quick = ["f64", "f32", "i32", "c64"]
    types_thorough = ["f64", "f32", "i32", "i64", "c64"]     # complex<float> strided views compile in no configuration: not offered
    rule = ("behaviours = `tlc -generate` walks of the tensor machine GenViews (Mode=write): 5 calls each on a 6-buffer arena of ranks 1-4, "
            "destination ranges drawn per extent class in every admissible encoding (positive, last-relative, both negative, all, bare integer, "
            "fseq/fix), operators = += -= *= /=, right-hand sides scalar / tensor / slice of another buffer / m*slice+c / slice+tensor; "
            "the whole guarded block of the written buffer is compared after every call and all buffers at the end; "
            "non-trivial = every write event; distinct = distinct (call, configuration, type) inputs")
    assumptions = ["values are small integers (|v| < 2e6), exact in float/double/int32, so bit-for-bit equality of the logged blocks is sound",
                   "/= is generated only where every selected element is divisible by its divisor",
                   "bytes of a Tensor object between the end of its data and the next canary (alignment padding) are not observed"]

    def configs(self, ctx):
        if ctx.tier == "quick":
            return list(QUICK_CFGS) + ["avx2-14-O2+FASTOR_USE_VECTORISED_EXPR_ASSIGN"]
        return ["%s-14-O2" % i for i in ALL_ISAS] + ["avx2-17-O2"] + ["%s-14-O2+FASTOR_USE_VECTORISED_EXPR_ASSIGN" % i for i in ("sse2", "avx2", "avx512")]
