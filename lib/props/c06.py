# C06 -- results do not depend on the SIMD instruction set, C++ level or tuning macros
import hashlib, importlib
from pipeline import *

# (module, property, fraction of its quick plan used in the quick tier, used in quick tier?)
SUBS = [("c01", "C01", 0.05, True), ("c02", "C02", 0.08, True), ("c14", "C14", 0.15, True), ("c09", "C09", 0.06, True), ("c05", "C05", 0.05, True),
        ("c17", "C17", 0.05, False), ("c03", "C03", 0.08, False)]      # (the reductions corpus is many small TUs: it runs in the macro sweeps only)

MACS = ["none", "FASTOR_USE_HADD", "FASTOR_MATMUL_OUTER_BLOCK_SIZE=1", "FASTOR_MATMUL_OUTER_BLOCK_SIZE=3", "FASTOR_MATMUL_INNER_BLOCK_SIZE=1",
        "FASTOR_MATMUL_INNER_BLOCK_SIZE=3", "FASTOR_MATMUL_INNER_BLOCK_SIZE=5", "FASTOR_TRANS_OUTER_BLOCK_SIZE=2", "FASTOR_TRANS_INNER_BLOCK_SIZE=4",
        "FASTOR_DONT_PERFORM_OP_MIN", "FASTOR_KEEP_DP_FIXED", "FASTOR_USE_VECTORISED_EXPR_ASSIGN", "FASTOR_ZERO_INITIALISE",
        "FASTOR_DISABLE_SPECIALISED_CTR", "FASTOR_DISPATCH_DIV_TO_MUL_EXPR"]


# Macro sweeps.  A tuning macro only changes the code inside its own #if blocks; AFFECTS (checked against the sweep table by TLC in
# Config.tla: SweepOK) names the API areas those blocks belong to (from `grep -rl <macro> Fastor/`).  For every (macro, area) the area's
# plan -- filtered to the calls that can reach the macro's code, then sampled -- runs under a macro-free baseline and under the macro on
# the wide ISAs.  (pid -> module, macros, filter, quick fraction (0 = thorough only), thorough fraction)
HADD_FNS = ("norm", "sum", "inner", "inner1", "trace", "trace_b", "det", "det_b", "determinant", "product")
BLK = ["FASTOR_MATMUL_OUTER_BLOCK_SIZE=1", "FASTOR_MATMUL_OUTER_BLOCK_SIZE=3", "FASTOR_MATMUL_INNER_BLOCK_SIZE=1", "FASTOR_MATMUL_INNER_BLOCK_SIZE=3",
       "FASTOR_MATMUL_INNER_BLOCK_SIZE=5"]
SWEEPS = [
    ("C16", "c16", ["FASTOR_USE_HADD"], lambda c: c.get("T") in ("f32", "f64") and c.get("fn") in HADD_FNS, 1.0, 1.0),
    ("C08", "c08", ["FASTOR_USE_HADD", "FASTOR_ZERO_INITIALISE"],
     lambda c: c.get("op") in ("sum", "dot", "product", "norm", "ctor0", "ctor_b", "ctor_ld", "set1", "setn", "setseq", "copy"), 0.5, 1.0),
    ("C01", "c01", ["FASTOR_USE_HADD"] + BLK, None, 0.04, 0.3),
    ("C17", "c17", BLK, None, 0.03, 0.1),
    ("C14", "c14", ["FASTOR_TRANS_OUTER_BLOCK_SIZE=2", "FASTOR_TRANS_INNER_BLOCK_SIZE=4"], None, 0.12, 0.6),
    ("C03", "c03", ["FASTOR_USE_HADD", "FASTOR_DONT_PERFORM_OP_MIN", "FASTOR_KEEP_DP_FIXED"], None, 0.1, 0.5),
    ("C10", "c10", ["FASTOR_USE_HADD"], None, 0.04, 0.25),
    ("C05", "c05", ["FASTOR_USE_VECTORISED_EXPR_ASSIGN"], None, 0.08, 0.5),
    ("C04", "c04", ["FASTOR_USE_VECTORISED_EXPR_ASSIGN"], None, 0.08, 0.5),
    ("C19", "c19", ["FASTOR_USE_VECTORISED_EXPR_ASSIGN"], None, 0.08, 0.5),
    ("C20", "c20", ["FASTOR_ZERO_INITIALISE", "FASTOR_DISABLE_SPECIALISED_CTR"], None, 0.1, 0.5),
    ("C02", "c02", ["FASTOR_DISPATCH_DIV_TO_MUL_EXPR"], lambda c: ('"div"' in json.dumps(c) or c.get("aop") == "div") and div_exact_under_mul(c), 0.5, 1.0),
]
SWEEP_BASE = "avx2-14-O2"


def div_exact_under_mul(c):
    """FASTOR_DISPATCH_DIV_TO_MUL_EXPR turns expression/number into expression*(1/number): for a floating element type and a divisor that
    is not a power of two this differs from the division by a rounding error (which the property allows), so such cases are outside the
    exactness domain of the judge under that macro.  Integer types, tensor divisors and number/expression keep the division."""
    if c.get("T") not in ("f32", "f64"):
        return True
    if c.get("aop") == "div" and c.get("tree", {}).get("k") in ("s", "k"):
        return False

    def bad(e):
        if not isinstance(e, dict):
            return False
        if e.get("k") == "div" and isinstance(e.get("r"), dict) and e["r"].get("k") in ("s", "k"):
            return True
        return any(bad(v) for v in e.values())
    return not bad(c.get("tree", {})) and c.get("op") != "div"


def sweep_cfgs(macs, tier):
    out = [SWEEP_BASE]
    for i, m in enumerate(macs):
        if m == "FASTOR_USE_HADD":          # the macro selects code per ISA family (SSSE3 / AVX blocks of extintrin.h)
            isas = ["avx", "avx512"] if tier == "quick" else ["sse42", "avx", "avx2", "avx512"]
        else:
            isas = [("avx2", "avx512")[i % 2]] if tier == "quick" else ["avx2", "avx512"]
        out += ["%s-14-O2+%s" % (isa, m) for isa in isas]
    return out


def parse_cfg(name):
    parts = name.split("+")
    isa, std, opt = parts[0].split("-")
    return rec(isa, std, opt, "0", parts[1] if len(parts) > 1 else "none")


def rec(isa, std, opt, chk="0", mac="none"):
    return {"isa": isa, "std": std, "opt": opt, "chk": chk, "mac": mac}


def cfg_name(r):
    n = "%s-%s-%s" % (r["isa"], r["std"], r["opt"])
    if r["chk"] == "1":
        n += "+FASTOR_ENABLE_RUNTIME_CHECKS=1"
    if r["mac"] != "none":
        n += "+" + r["mac"]
    return n


def quick_array():
    return [rec("scalar", "14", "O2"), rec("scalar", "17", "O1"), rec("sse2", "14", "O0"), rec("sse2", "17", "O2", "1"),
            rec("sse42", "14", "O3", "0", "FASTOR_USE_HADD"), rec("sse42", "17", "O2"), rec("avx", "14", "O2"), rec("avx", "17", "O3"),
            rec("avx2", "14", "O2", "0", "FASTOR_USE_VECTORISED_EXPR_ASSIGN"), rec("avx2", "17", "O1", "1"),
            rec("avx512", "14", "O2", "0", "FASTOR_MATMUL_INNER_BLOCK_SIZE=5"), rec("avx512", "17", "O2")]


def thorough_array():
    arr = []
    opts = ["O0", "O1", "O2", "O3"]
    for i, isa in enumerate(ALL_ISAS):
        for j, o in enumerate(opts):
            arr.append(rec(isa, "14" if (i + j) % 2 == 0 else "17", o, "1" if (i * 4 + j) % 5 == 0 else "0"))
    for isa in ALL_ISAS:
        arr.append(rec(isa, "17", "O2"))
        arr.append(rec(isa, "14", "O2"))
    for s in ("14", "17"):
        for o in opts:
            arr.append(rec("avx2", s, o))
    for i, m in enumerate(MACS[1:]):          # every macro once in the array (alternating wide ISA); the sweeps run it on both
        arr.append(rec("avx2", "14", "O2", "0", m))
        arr.append(rec("avx512", "14", "O2", "0", m))
    seen, out = set(), []
    for r in arr:
        k = cfg_name(r)
        if k not in seen:
            seen.add(k)
            out.append(r)
    return out


class C06(Check):
    prop = "C06"
    rule = ("corpus = hash-sampled cross-section of the TLC-generated plans of the other checks (matrix product, element-wise expressions, "
            "permutations/transposes, lazy expressions, slice-write behaviours, triangular product, einsum, reductions as available); every case "
            "is compiled and run under every configuration of a covering array over ISA x C++ standard x optimisation level x runtime checks x one "
            "documented tuning macro (the array itself is checked by TLC in Config.tla: every factor value, all ISA x std pairs; thorough: all ISA x "
            "opt, std x opt pairs and every macro on AVX2 and AVX-512); each case's outputs under all configurations are compared by the originating "
            "trace specification with one L1 value (bit-identity for exact data); a translation unit that fails to compile in one configuration only "
            "is a rejection. A rejection is a C06 violation when it is configuration-dependent (not rejected in every configuration)")
    assumptions = ["compiler axis is g++ 12 only", "data are exact, so 'agree within the rounding bound' is checked as bit-identity",
                   "rejections that occur identically in every configuration are the originating property's business and are listed in the notes only"]

    def run(self, ctx):
        arr = quick_array() if ctx.tier == "quick" else thorough_array()
        arrp = ctx.path("config_array.json")
        with open(arrp, "w") as f:
            json.dump(arr, f)
        cfgs = [cfg_name(r) for r in arr]
        # job list: the covering array on a cross-section of every corpus, then the macro sweeps
        jobs = []
        for mod, pid, frac, inquick in SUBS:
            if ctx.tier == "quick" and not inquick:
                continue
            jobs.append((pid, mod, pid, frac if ctx.tier == "quick" else frac, cfgs, None, None))     # thorough: the same cross-section under many more configurations
        sweep_tab = []
        only = os.environ.get("VERIF_C06_ONLY")            # experimentation: run one job only (e.g. "sweep-C16")
        for pid, mod, macs, filt, fq, ft in SWEEPS:
            f = fq if ctx.tier == "quick" else ft
            if f <= 0:
                continue
            sc = sweep_cfgs(macs, ctx.tier)
            jobs.append(("sweep-" + pid, mod, pid, f, sc, filt, None))
            sweep_tab.append({"area": pid, "cfgs": [parse_cfg(c) for c in sc]})
        # acceptance probe: complex element types with vectorisation switched off (finding D36: strided view access of a complex tensor
        # does not compile under FASTOR_DONT_VECTORISE, it does under every SIMD configuration)
        jobs.append(("accept-cx-scalar", "c05", "C05", 0.15 if ctx.tier == "quick" else 0.4, ["sse2-14-O2", "scalar-14-O2"], None, ["c64"]))
        swp = ctx.path("config_sweep.json")
        with open(swp, "w") as f:
            json.dump(sweep_tab, f)
        env = {"CONFIG_ARRAY": arrp, "CONFIG_LEVEL": ctx.tier, "CONFIG_SWEEP": swp}
        model_check(ctx, "Config", "Config.cfg", workers=1, env=env)
        all_cfgs = list(cfgs)
        all_events, all_rejects, jst, nplan = [], [], 0, 0
        known_hits, viol, notes = {}, [], []
        for label, mod, pid, frac_t, jcfgs, filt, jtypes in jobs:
            if only and label != only:
                continue
            try:
                m = importlib.import_module(mod)
            except ModuleNotFoundError:
                continue
            sub = getattr(m, pid)()
            all_cfgs += [c for c in jcfgs if c not in all_cfgs]
            if hasattr(sub, "types_quick"):
                sub.types_quick = jtypes or ["f64", "i32"]
                sub.types_thorough = jtypes or ["f64", "i32", "f32"]
            sub.configs = lambda c, _cf=jcfgs: list(_cf)
            orig_plan = sub.plan

            def sampled(c, _orig=orig_plan, _f=frac_t, _pid=pid, _filt=filt):
                c2 = Ctx.__new__(Ctx)
                c2.__dict__.update(c.__dict__)
                c2.tier = "quick"
                pl = _orig(c2)
                c.mc_results = c2.mc_results
                if _filt:
                    pl = [x for x in pl if _filt(x)]
                keep = [x for x in pl if int(hashlib.md5((x["case"] + str(c.seed)).encode()).hexdigest(), 16) % 1000 < _f * 1000]
                return keep or pl[:5]
            sub.plan = sampled
            sub.model_checks = lambda c: None
            sub.allow_compile_fail = lambda: True
            sub.cx_under_scalar = True
            sctx = Ctx.__new__(Ctx)
            sctx.__dict__.update(ctx.__dict__)
            sctx.work = os.path.join(ctx.work, label)
            os.makedirs(sctx.work, exist_ok=True)
            log("C06: %s (%d configurations)" % (label, len(jcfgs)))
            if os.environ.get("VERIF_C06_DRY"):                  # sizing only: plan and codegen, no build
                pl = sub.plan(sctx)
                un = sub.units(sctx, pl, jcfgs[0])
                log("DRY %s: plan %d, units/cfg %d, compilations %d" % (label, len(pl), len(un), len(un) * len(jcfgs)))
                continue
            try:
                r = sub.run_core(sctx)
            except ToolFailure as e:
                if ctx.replay and "is not in the plan" in str(e):
                    continue                      # replay: the case belongs to another job
                raise
            ctx.mc_results = sctx.mc_results
            nplan += len(r["plan"])
            all_events += r["events"]
            jst += r["jstates"]
            # configuration-dependent rejections only
            by_case = {}
            for rj in r["rejects"]:
                by_case.setdefault(rj["case"], set()).add(rj["cfg"])
            ncfg_of = {}
            for ev in r["events"]:
                if "outs" in ev:
                    ncfg_of[ev["case"]] = len(ev["outs"])
            dep = [rj for rj in r["rejects"] if ctx.replay or len(by_case[rj["case"]]) < ncfg_of.get(rj["case"], len(jcfgs))]
            uni = len(r["rejects"]) - len(dep)
            if uni:
                notes.append("%s: %d rejections identical in every configuration (reported by ./check %s)" % (pid, uni, pid))
            kn, vi = classify("C06", dep)
            kn2, vi = classify(pid, vi)          # a listed finding of the originating property stays a known finding here
            for d in (kn, kn2):
                for k, v in d.items():
                    known_hits.setdefault(k, {"finding": v["finding"], "n": 0, "example": v["example"]})["n"] += v["n"]
            viol += vi
        for kid, k in sorted(known_hits.items()):
            print("KNOWN-FINDING: property=C06 %s %s (%d configuration-dependent rejected events, e.g. %s)" % (kid, k["finding"]["what"], k["n"], k["example"]), flush=True)
        seen = set()
        for rj in viol:
            p = write_replay(ctx, rj)
            if p not in seen:
                seen.add(p)
                print("VIOLATION property=C06 replay=%s" % p, flush=True)
        ctx.notes += notes
        self.jobs_run = [(j[0], len(j[4])) for j in jobs if not only or j[0] == only]
        self.evidence(ctx, [None] * nplan, all_cfgs, all_events, jst, known_hits, viol)
        return 1 if viol else 0
