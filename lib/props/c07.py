# C07 -- no operation touches memory outside its operands, for any shape or alignment
from pipeline import *
from c01 import CXX_T

PRELUDE = r'''
#include <Fastor/Fastor.h>
#include "vt.h"
#include <setjmp.h>
#include <new>
using namespace Fastor;
// ---- heap-call counter: malloc family interposed, counted only while a library call is running
static volatile long g_allocs = 0; static volatile int g_counting = 0;
extern "C" { void* __libc_malloc(size_t); void* __libc_calloc(size_t, size_t); void* __libc_realloc(void*, size_t); void __libc_free(void*); void* __libc_memalign(size_t, size_t); }
extern "C" void* malloc(size_t n) { if (g_counting) ++g_allocs; return __libc_malloc(n); }
extern "C" void* calloc(size_t a, size_t b) { if (g_counting) ++g_allocs; return __libc_calloc(a, b); }
extern "C" void* realloc(void* p, size_t n) { if (g_counting) ++g_allocs; return __libc_realloc(p, n); }
extern "C" void free(void* p) { __libc_free(p); }
extern "C" void* memalign(size_t a, size_t n) { if (g_counting) ++g_allocs; return __libc_memalign(a, n); }
extern "C" void* aligned_alloc(size_t a, size_t n) { if (g_counting) ++g_allocs; return __libc_memalign(a, n); }
extern "C" int posix_memalign(void** p, size_t a, size_t n) { if (g_counting) ++g_allocs; *p = __libc_memalign(a, n); return *p ? 0 : 12; }
// ---- faults become observations
static sigjmp_buf g_jmp; static volatile int g_armed = 0;
static void on_fault(int sig) { if (g_armed) { g_armed = 0; siglongjmp(g_jmp, sig); } vt::fault_handler(sig); }
static void arm_handlers() {
    static char alt[1 << 16]; stack_t ss; ss.ss_sp = alt; ss.ss_size = sizeof alt; ss.ss_flags = 0; sigaltstack(&ss, nullptr);
    struct sigaction sa; memset(&sa, 0, sizeof sa); sa.sa_handler = on_fault; sa.sa_flags = SA_ONSTACK | SA_NODEFER;
    sigaction(SIGSEGV, &sa, nullptr); sigaction(SIGBUS, &sa, nullptr);
}
// ---- placement: one object of `bytes` bytes per arena.  side 0: last byte abuts the guard page after it; side 1: first byte abuts
// the guard page before it; side 2: at misalignment `mis` (0..63) from a 64-byte boundary, canaries on both sides.
static const long long CAN = 0x5A5A5A5A5A5A5A5ALL;
struct Slot {
    vt::PageArena ar; char* p; size_t bytes; int side;
    Slot(size_t b, int side_, int mis) : ar(4 + (b + 4095) / 4096), bytes(b), side(side_) {
        memset(ar.at_start(), 0x5A, ar.payload());
        if (side == 0) p = ar.at_end(bytes); else if (side == 1) p = ar.at_start(); else p = ar.at_start() + 4096 + mis;
    }
    bool canary_ok() const {
        const unsigned char* lo = (const unsigned char*)ar.base + ar.pg; const unsigned char* hi = (const unsigned char*)ar.base + ar.len - ar.pg;
        for (const unsigned char* q = lo; q < (const unsigned char*)p; ++q) if (*q != 0x5A) return false;
        for (const unsigned char* q = (const unsigned char*)p + bytes; q < hi; ++q) if (*q != 0x5A) return false;
        return true;
    }
};
template<class T> __attribute__((noinline)) static void fill(T* p, size_t n, vt::Rng& r) { for (size_t i = 0; i < n; ++i) p[i] = (T)r.range(-4, 4); asm volatile("" : : "r"(p) : "memory"); }
template<class T> static void emit_mem(const char* id, const char* tt, const char* op, const char* dims, int side, int mis, const T* a, size_t na, const T* b, size_t nb, T s,
                                      int fault, long allocs, int canary, const T* vals, size_t nv) {
    vt::Ev ev("MemOp"); ev.str("case", std::string(id) + "/s" + std::to_string(side) + "m" + std::to_string(mis));
    ev.s += ",\"in\":{\"T\":\""; ev.s += tt; ev.s += "\""; ev.str("op", op); ev.s += dims; ev.num("side", side).num("mis", mis);
    ev.arr("a", a, na).arr("b", b, nb).val("s", s);
    ev.s += "},\"out\":{\"x\":0"; ev.num("fault", fault).num("allocs", allocs).num("canary", canary);
    ev.arr("vals", vals, fault ? 0 : nv); ev.s += "}"; ev.emit();
}
// OP ids for wrapped external buffers (TensorMap over a raw pointer at any alignment)
template<class T, size_t N, int OP> static void map_case(const char* id, const char* tt, const char* op) {
    static const int sides[] = {0, 1, 2};
    for (int si = 0; si < 3; ++si) for (int mis = 0; mis < (sides[si] == 2 ? 64 : 1); ++mis) {
        int side = sides[si];
        vt::g_cur_case = id;
        vt::Rng r(vt::hash_str(id) + side * 131 + mis);
        constexpr size_t NR = (OP == 8) ? (N + 1) / 2 : ((OP >= 3 && OP <= 7) ? 1 : N);
        Slot sa(N * sizeof(T), side, mis), sb(N * sizeof(T), side, mis), sr(NR * sizeof(T), side, mis);
        T* pa = (T*)sa.p; T* pb = (T*)sb.p; T* pr = (T*)sr.p;
        fill(pa, N, r); fill(pb, N, r); for (size_t i = 0; i < NR; ++i) pr[i] = (T)0;
        std::vector<T> a0(pa, pa + N), b0(pb, pb + N);
        T s = (T)r.range(2, 3);
        volatile int fault = 0; T scal = 0;
        g_allocs = 0;
        int sig = sigsetjmp(g_jmp, 1);
        if (sig == 0) {
            g_armed = 1; g_counting = 1;
            TensorMap<T,N> A(pa), B(pb);
            if (OP == 0) { Tensor<T,N> Rt(A); TensorMap<T,NR> R(pr); R = Rt; }     // map -> tensor -> map (TensorMap = TensorMap rebinds the pointer)
            else if (OP == 1) { TensorMap<T,NR> R(pr); R = s * A + B; }
            else if (OP == 2) { A *= s; }
            else if (OP == 3) { scal = sum(A); }
            else if (OP == 4) { scal = inner(A, B); }
            else if (OP == 5) { scal = inner(A, A); }
            else if (OP == 6) { scal = min(A); }
            else if (OP == 7) { scal = max(A); }
            else if (OP == 8) { Tensor<T,NR> R = A(fseq<0,N,2>()); for (size_t i = 0; i < NR; ++i) pr[i] = R.data()[i]; }
            else if (OP == 9) { A(fseq<0,N,2>()) = s; }
            g_counting = 0; g_armed = 0;
        } else { g_counting = 0; fault = sig; }
        std::vector<T> vals;
        if (OP == 2 || OP == 9) vals.assign(pa, pa + N); else if (OP >= 3 && OP <= 7) vals.assign(1, scal); else vals.assign(pr, pr + NR);
        int can = sa.canary_ok() && sb.canary_ok() && sr.canary_ok();
        char dims[64]; snprintf(dims, sizeof dims, ",\"N\":%d", (int)N);
        emit_mem(id, tt, op, dims, side, mis, a0.data(), N, b0.data(), N, s, (int)fault, (long)g_allocs, can, vals.data(), vals.size());
    }
}
// kernels on owning tensors: each Tensor object is placed so that the OBJECT abuts the guard page (side 0: after it, 1: before it)
template<class T, size_t M, size_t K, size_t N, int OP> static void own_case(const char* id, const char* tt, const char* op) {
    using TA = typename std::conditional<OP == 1, Tensor<T,M,N>, Tensor<T,M,K>>::type;
    using TB = typename std::conditional<OP == 2, Tensor<T,K>, Tensor<T,K,N>>::type;
    using TC = typename std::conditional<OP == 1, Tensor<T,N,M>, typename std::conditional<OP == 2, Tensor<T,M>, Tensor<T,M,N>>::type>::type;
    for (int side = 0; side < 2; ++side) {
        vt::g_cur_case = id;
        vt::Rng r(vt::hash_str(id) + side);
        Slot sa(sizeof(TA), side, 0), sb(sizeof(TB), side, 0), sc(sizeof(TC), side, 0);
        TA* A = new (sa.p) TA; TB* B = new (sb.p) TB; TC* C = new (sc.p) TC;
        fill(A->data(), (size_t)A->size(), r); fill(B->data(), (size_t)B->size(), r); for (size_t i = 0; i < (size_t)C->size(); ++i) C->data()[i] = (T)0;
        // bytes of the objects beyond their data (alignment padding) are set back to the canary pattern
        memset((char*)A->data() + sizeof(T) * A->size(), 0x5A, sizeof(TA) - sizeof(T) * A->size());
        memset((char*)B->data() + sizeof(T) * B->size(), 0x5A, sizeof(TB) - sizeof(T) * B->size());
        memset((char*)C->data() + sizeof(T) * C->size(), 0x5A, sizeof(TC) - sizeof(T) * C->size());
        volatile int fault = 0;
        g_allocs = 0;
        int sig = sigsetjmp(g_jmp, 1);
        if (sig == 0) {
            g_armed = 1; g_counting = 1;
            own_apply(std::integral_constant<int,OP>(), *A, *B, *C);
            g_counting = 0; g_armed = 0;
        } else { g_counting = 0; fault = sig; }
        int can = sa.canary_ok() && sb.canary_ok() && sc.canary_ok();
        char dims[96]; snprintf(dims, sizeof dims, ",\"M\":%d,\"K\":%d,\"N\":%d", (int)M, (int)K, (int)N);
        emit_mem(id, tt, op, dims, side, 0, A->data(), (size_t)A->size(), B->data(), OP == 1 ? 0 : (size_t)B->size(), (T)0, (int)fault, (long)g_allocs, can, C->data(), (size_t)C->size());
    }
}
// triangular product on whole Tensor objects against the guard pages; operands are zero outside the tagged triangle (the promise of tmatmul)
template<class T> static void zero_outside(T* p, size_t rows, size_t cols, int tag) {
    for (size_t i = 0; i < rows; ++i) for (size_t j = 0; j < cols; ++j) if ((tag == 1 && j > i) || (tag == 2 && j < i)) p[i * cols + j] = T(0);
    asm volatile("" : : "r"(p) : "memory");
}
template<class T, size_t M, size_t K, size_t N, class LT, class RT, int LTAG, int RTAG> static void own_tcase(const char* id, const char* tt) {
    using TA = Tensor<T,M,K>; using TB = Tensor<T,K,N>; using TC = Tensor<T,M,N>;
    for (int side = 0; side < 2; ++side) {
        vt::g_cur_case = id;
        vt::Rng r(vt::hash_str(id) + side);
        Slot sa(sizeof(TA), side, 0), sb(sizeof(TB), side, 0), sc(sizeof(TC), side, 0);
        TA* A = new (sa.p) TA; TB* B = new (sb.p) TB; TC* C = new (sc.p) TC;
        fill(A->data(), M * K, r); fill(B->data(), K * N, r); zero_outside(A->data(), M, K, LTAG); zero_outside(B->data(), K, N, RTAG);
        for (size_t i = 0; i < M * N; ++i) C->data()[i] = (T)0;
        memset((char*)A->data() + sizeof(T) * M * K, 0x5A, sizeof(TA) - sizeof(T) * M * K);
        memset((char*)B->data() + sizeof(T) * K * N, 0x5A, sizeof(TB) - sizeof(T) * K * N);
        memset((char*)C->data() + sizeof(T) * M * N, 0x5A, sizeof(TC) - sizeof(T) * M * N);
        volatile int fault = 0;
        g_allocs = 0;
        int sig = sigsetjmp(g_jmp, 1);
        if (sig == 0) { g_armed = 1; g_counting = 1; *C = tmatmul<LT,RT>(*A, *B); g_counting = 0; g_armed = 0; }
        else { g_counting = 0; fault = sig; }
        int can = sa.canary_ok() && sb.canary_ok() && sc.canary_ok();
        char dims[96]; snprintf(dims, sizeof dims, ",\"M\":%d,\"K\":%d,\"N\":%d,\"lt\":%d,\"rt\":%d", (int)M, (int)K, (int)N, LTAG, RTAG);
        emit_mem(id, tt, "tmatmul", dims, side, 0, A->data(), M * K, B->data(), K * N, (T)0, (int)fault, (long)g_allocs, can, C->data(), M * N);
    }
}
template<class TA, class TB, class TC> static void own_apply(std::integral_constant<int,0>, const TA& A, const TB& B, TC& C) { C = A % B; }
template<class TA, class TB, class TC> static void own_apply(std::integral_constant<int,1>, const TA& A, const TB&, TC& C) { C = transpose(A); }
template<class TA, class TB, class TC> static void own_apply(std::integral_constant<int,2>, const TA& A, const TB& B, TC& C) { C = matmul(A, B); }
'''
PRELUDE = PRELUDE.replace("// kernels on owning tensors:", '''template<class TA, class TB, class TC> static void own_apply(std::integral_constant<int,0>, const TA& A, const TB& B, TC& C);
template<class TA, class TB, class TC> static void own_apply(std::integral_constant<int,1>, const TA& A, const TB&, TC& C);
template<class TA, class TB, class TC> static void own_apply(std::integral_constant<int,2>, const TA& A, const TB& B, TC& C);
// kernels on owning tensors:''')

INDEX_PRELUDE = r'''
template<class TT> static void idx_emit(const char* id, const std::vector<int>& shape, const std::vector<int>& idx, int raised, int fault) {
    vt::Ev ev("IndexCheck"); std::string c = id; for (int i : idx) c += "/" + std::to_string(i); ev.str("case", c);
    ev.s += ",\"in\":{\"T\":\"f64\""; ev.ints("shape", std::vector<long long>(shape.begin(), shape.end())).ints("idx", std::vector<long long>(idx.begin(), idx.end()));
    ev.s += "},\"out\":{\"x\":0"; ev.num("raised", raised).num("fault", fault); ev.s += "}"; ev.emit();
}
'''

MAPOP = {"copy": 0, "axpy": 1, "scale_inplace": 2, "sum": 3, "inner": 4, "sqnorm": 5, "min": 6, "max": 7, "view_rev2": 8, "view_write": 9}
OWNOP = {"matmul": 0, "transpose": 1, "matvec": 2}


class C07(Check):
    prop = "C07"
    level = "exploration"
    trace_module = "TraceMemory"
    trace_cfg = "TraceMemory.cfg"
    rule = ("cases = states of GenMemory; every compiled case is executed with its operands and result placed (a) with the last byte flush "
            "against a PROT_NONE page, (b) with the first byte flush against one, and for wrapped external buffers (TensorMap) (c) at every byte "
            "misalignment 0..63 with canary bytes all around; a heap-call counter (interposed malloc family) and a SIGSEGV/SIGBUS handler turn "
            "allocation and faults into recorded observations; owning tensors are placed as whole objects (their alignment padding counts as "
            "theirs). Checked builds drive every index in [-n-2, n+1] per axis and expect an exception exactly for the out-of-range ones. "
            "distinct = distinct (operation, type, shape, placement); non-trivial = all (each records fault, allocs, canary, full result)")
    assumptions = ["an over-read that stays inside mapped memory which is neither a guard page nor a canary byte that changes is not observed "
                   "(reads of canary bytes are invisible; only writes and page faults are) -- DESIGN section 0",
                   "the kernel families exercised on owning tensors are matmul (lazy into a placed destination; every shape of the C01 plan, i.e. every dispatch "
                   "route of MatmulDesign on every ISA), the triangular product (half of the C17 plan: every tag pair and clip class), matrix-vector and "
                   "transpose (every 2-D shape of the C14 plan); "
                   "the footprint of views, einsum and linalg kernels is covered only through the values/frames of their own checks",
                   "heap calls are counted at the malloc-family level of glibc (operator new goes through malloc)"]

    def plan(self, ctx):
        cfg = "GenMemory_%s.cfg" % ctx.tier
        items, gen, dist, out = tlc_emit(ctx, "GenMemory", cfg, env={"VERIF_SEED": str(ctx.seed)})
        if "No error has been found" not in out:
            raise ToolFailure("GenMemory failed: " + out[-1500:])
        ctx.mc_results.append({"module": "GenMemory", "cfg": cfg, "generated": gen, "distinct": dist, "ok": True, "wall_s": 0, "action_coverage": {}})
        for c in items:
            if c["fam"] == "map":
                c["case"] = "mem/map/%s/%s/%d" % (c["op"], c["T"], c["N"])
            elif c["fam"] == "own":
                c["case"] = "mem/own/%s/%s/%dx%dx%d" % (c["op"], c["T"], c["M"], c["K"], c["N"])
            else:
                c["case"] = "mem/idx/%s" % "x".join(map(str, c["shape"]))
        # the matrix product is dispatched on (type, M, K, N, ISA) to many hand-written kernels: every shape the C01 generator derives from
        # the dispatch model (MatmulDesign: one per route / width stratum / special kernel) is also run flush against the guard pages
        mcfg = "GenMatmul_quick.cfg"     # the quick shape set in both tiers (thorough adds element types and ISAs)
        mitems, gen, dist, out = tlc_emit(ctx, "GenMatmul", mcfg, env={"VERIF_SEED": str(ctx.seed)})
        if "No error has been found" not in out:
            raise ToolFailure("GenMatmul failed: " + out[-1500:])
        ctx.mc_results.append({"module": "GenMatmul", "cfg": mcfg, "generated": gen, "distinct": dist, "ok": True, "wall_s": 0, "action_coverage": {}})
        have = {c["case"] for c in items}
        types = ("f64", "f32") if ctx.tier == "quick" else ("f64", "f32", "i32", "i64")
        self.route_cover = {}
        for m in mitems:
            if m["kind"] != "mm" or m["T"] not in types:
                continue
            cid = "mem/own/matmul/%s/%dx%dx%d" % (m["T"], m["M"], m["K"], m["N"])
            if cid in have:
                continue
            have.add(cid)
            items.append({"fam": "own", "op": "matmul", "T": m["T"], "M": m["M"], "K": m["K"], "N": m["N"], "case": cid})
            for isa, r in m["routes"].items():
                self.route_cover.setdefault(isa, {}).setdefault(r, 0)
                self.route_cover[isa][r] += 1
        # likewise the triangular product (every tag pair and clip class of the C17 plan, hash-halved) and the 2-D transposes of the C14 plan
        import hashlib
        tcfg = "GenTmatmul_quick.cfg"
        titems, gen, dist, out = tlc_emit(ctx, "GenTmatmul", tcfg, env={"VERIF_SEED": str(ctx.seed)}, timeout=1500)
        if "No error has been found" not in out:
            raise ToolFailure("GenTmatmul failed: " + out[-1500:])
        ctx.mc_results.append({"module": "GenTmatmul", "cfg": tcfg, "generated": gen, "distinct": dist, "ok": True, "wall_s": 0, "action_coverage": {}})
        for m in titems:
            if m.get("kind") != "mm" or m["T"] not in ("f64", "f32"):
                continue
            cid = "mem/own/tmatmul/%s/%s%s/%dx%dx%d" % (m["T"], m["lt"][0], m["rt"][0], m["M"], m["K"], m["N"])
            if cid in have or int(hashlib.md5((cid + str(ctx.seed)).encode()).hexdigest(), 16) % 2:
                continue
            have.add(cid)
            items.append({"fam": "own", "op": "tmatmul", "T": m["T"], "M": m["M"], "K": m["K"], "N": m["N"], "lt": m["lt"], "rt": m["rt"], "case": cid})
        pcfg = "GenPermute_quick.cfg"
        pitems, gen, dist, out = tlc_emit(ctx, "GenPermute", pcfg, env={"VERIF_SEED": str(ctx.seed)})
        if "No error has been found" not in out:
            raise ToolFailure("GenPermute failed: " + out[-1500:])
        ctx.mc_results.append({"module": "GenPermute", "cfg": pcfg, "generated": gen, "distinct": dist, "ok": True, "wall_s": 0, "action_coverage": {}})
        for m in pitems:
            if len(m["shape"]) != 2 or m["T"] not in ("f64", "f32"):
                continue
            cid = "mem/own/transpose/%s/%dx1x%d" % (m["T"], m["shape"][0], m["shape"][1])
            if cid in have:
                continue
            have.add(cid)
            items.append({"fam": "own", "op": "transpose", "T": m["T"], "M": m["shape"][0], "K": 1, "N": m["shape"][1], "case": cid})
        items.sort(key=lambda c: c["case"])
        return items

    def extra_coverage(self, ctx):
        return {"matmul_routes_at_guard_pages": getattr(self, "route_cover", {})}

    def stmt(self, c):
        T = CXX_T[c["T"]]
        if c["fam"] == "map":
            return '    map_case<%s,%d,%d>("%s","%s","%s");' % (T, c["N"], MAPOP[c["op"]], c["case"], c["T"], c["op"])
        if c["fam"] == "own" and c["op"] == "tmatmul":
            TAG = {"General": ("UpLoType::General", 0), "Lower": ("UpLoType::Lower", 1), "Upper": ("UpLoType::Upper", 2)}
            return '    own_tcase<%s,%d,%d,%d,%s,%s,%d,%d>("%s","%s");' % (T, c["M"], c["K"], c["N"], TAG[c["lt"]][0], TAG[c["rt"]][0], TAG[c["lt"]][1], TAG[c["rt"]][1], c["case"], c["T"])
        if c["fam"] == "own":
            return '    own_case<%s,%d,%d,%d,%d>("%s","%s","%s");' % (T, c["M"], c["K"], c["N"], OWNOP[c["op"]], c["case"], c["T"], c["op"])
        sh = c["shape"]
        loops, idxs = "", []
        for a, n in enumerate(sh):
            loops += "for (int i%d = %d; i%d <= %d; ++i%d) " % (a, -n - 2, a, n + 1, a)
            idxs.append("i%d" % a)
        return ('    { Tensor<double,%s> A; A.iota(1); %s { int raised = 0; volatile double v = 0; try { v = A(%s); } catch (const std::exception&) { raised = 1; } (void)v; '
                'idx_emit<double>("%s", {%s}, {%s}, raised, 0); } }') % (",".join(map(str, sh)), loops, ",".join(idxs), c["case"], ",".join(map(str, sh)), ",".join(idxs))

    def units(self, ctx, plan, cfgname):
        units, per = [], 40
        main = plan_main = [c for c in plan if c["fam"] != "idx"]
        for ci in range(0, len(main), per):
            body = "\n".join(self.stmt(c) for c in main[ci:ci + per])
            src = PRELUDE + "int main(int argc, char** argv) {\n    vt::open(argc, argv, \"%s\");\n    vt::install_handlers();\n    arm_handlers();\n%s\n    vt::close_ok();\n    return 0;\n}\n" % (cfgname, body)
            units.append(("mem_%03d" % (ci // per), src, []))
        idx = [c for c in plan if c["fam"] == "idx"]
        if idx:
            body = "\n".join(self.stmt(c) for c in idx)
            src = PRELUDE + INDEX_PRELUDE + "int main(int argc, char** argv) {\n    vt::open(argc, argv, \"%s\");\n    vt::install_handlers();\n    arm_handlers();\n%s\n    vt::close_ok();\n    return 0;\n}\n" % (cfgname, body)
            units.append(("mem_idx", src, ["-DFASTOR_ENABLE_RUNTIME_CHECKS=1"]))
        return units
