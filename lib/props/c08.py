# C08 -- every SIMD vector type behaves as independent scalar lanes
# Plan: TLC enumerates (element type, ABI, operation, form, value mode) in spec/GenSimd.tla; this file turns every case into one C++
# block that calls the real SIMDVector API on recorder-generated operands (c08::K in the prelude expands a case into its draws /
# element offsets / masks) and records one event per call; spec/TraceSimd.tla judges every event with the L1 operators of spec/Simd.tla.
from pipeline import *
from c01 import CXX_T

PRELUDE = r'''
#include <Fastor/Fastor.h>
#include "vt.h"
#include <limits>
#include <setjmp.h>
using namespace Fastor;

namespace c08 {
// ------------------------------------------------------------------------------------------------
// element type helpers
template<class T> struct real_of { using type = T; };
template<class R> struct real_of<std::complex<R>> { using type = R; };
template<class R> inline bool is_nan_(R v, std::true_type) { return !(v == v); }
template<class R> inline bool is_nan_(R, std::false_type) { return false; }

// "W" representation of one real component: [class, 16-bit limbs, least significant first]; class 1 = NaN (limbs zeroed: NaNs are one class)
template<class R> inline void put_w(std::string& o, R v) {
    const int nl = (int)sizeof(R) / 2;
    bool nan = is_nan_(v, std::is_floating_point<R>());
    uint64_t w = nan ? 0 : vt::bits_of(v);
    o += nan ? "[1" : "[0";
    for (int i = 0; i < nl; ++i) { o += ","; o += std::to_string((unsigned)((w >> (16 * i)) & 0xFFFFu)); }
    o += "]";
}
// scaled integer representation (small exact data): v * scale must be an integer of magnitude < 1e9, else BADV
template<class R> inline void put_s(std::string& o, R v, int scale, std::true_type) {
    long double x = (long double)v * (long double)scale;
    o += std::to_string(vt::as_ll(x, std::true_type()));
}
template<class R> inline void put_s(std::string& o, R v, int scale, std::false_type) {
    (void)scale; o += std::to_string(vt::as_ll(v, std::false_type()));
}
template<class R> inline void put_r(std::string& o, R v, bool w, int scale) {
    if (w) put_w(o, v); else put_s(o, v, scale, std::is_floating_point<R>());
}
template<class R> inline void put_x(std::string& o, const R& v, bool w, int scale) { put_r(o, v, w, scale); }
template<class R> inline void put_x(std::string& o, const std::complex<R>& v, bool w, int scale) {
    o += "["; put_r(o, v.real(), w, scale); o += ","; put_r(o, v.imag(), w, scale); o += "]";
}
inline void put_x(std::string& o, const bool& v, bool, int) { o += v ? "1" : "0"; }
template<class T> inline void put_arr(std::string& o, const char* k, const T* p, size_t n, bool w, int scale) {
    o += ",\""; o += k; o += "\":[";
    for (size_t i = 0; i < n; ++i) { if (i) o += ","; put_x(o, p[i], w, scale); }
    o += "]";
}

// wrap-around scalar reference arithmetic (the uninterpreted-function table is filled by these, on the element type,
// in plain scalar code; integers go through unsigned arithmetic so that overflow is defined)
template<class T> struct U_ { using type = typename std::make_unsigned<T>::type; };
template<class T, bool I = std::is_integral<T>::value> struct W_;
template<class T> struct W_<T, true> {
    using U = typename std::make_unsigned<T>::type;
    static T add(T a, T b) { return (T)((U)a + (U)b); }
    static T sub(T a, T b) { return (T)((U)a - (U)b); }
    static T mul(T a, T b) { return (T)((U)a * (U)b); }
    static T div(T a, T b) { return a / b; }
    static T neg(T a) { return (T)((U)0 - (U)a); }
    static T abs(T a) { return a < 0 ? (T)((U)0 - (U)a) : a; }
};
template<class T> struct W_<T, false> {
    static T add(T a, T b) { return a + b; }
    static T sub(T a, T b) { return a - b; }
    static T mul(T a, T b) { return a * b; }
    static T div(T a, T b) { return a / b; }
    static T neg(T a) { return -a; }
    static T abs(T a) { return std::abs(a); }
};
template<class T> inline T wadd(T a, T b) { return W_<T>::add(a, b); }
template<class T> inline T wsub(T a, T b) { return W_<T>::sub(a, b); }
template<class T> inline T wmul(T a, T b) { return W_<T>::mul(a, b); }
template<class T> inline T wdiv(T a, T b) { return W_<T>::div(a, b); }
template<class T> inline T wneg(T a) { return W_<T>::neg(a); }
template<class T> inline T wabs(T a) { return W_<T>::abs(a); }
template<class T> inline T wmin(T a, T b) { return std::min(a, b); }
template<class T> inline T wmax(T a, T b) { return std::max(a, b); }
template<class T> inline T wsqrt(T a) { return std::sqrt(a); }

// boundary values per real type
template<class R> struct Bnd;
template<> struct Bnd<int> {
    static int n() { return 16; }
    static int at(int i) { static const uint32_t t[16] = {0x80000000u, 0x80000001u, 0xFFFFFFFFu, 0u, 1u, 0x7FFFFFFFu, 0x7FFFFFFEu, 0x55555555u, 0xAAAAAAAAu,
                                                           2u, 0xFFFFFFFEu, 0xFFFFu, 0x10000u, 0xFFFF0000u, 0x8000u, 0xFFFF8000u}; int v; memcpy(&v, &t[i], 4); return v; }
};
template<> struct Bnd<std::int64_t> {
    static int n() { return 18; }
    static std::int64_t at(int i) { static const uint64_t t[18] = {0x8000000000000000ull, 0x8000000000000001ull, 0xFFFFFFFFFFFFFFFFull, 0ull, 1ull, 0x7FFFFFFFFFFFFFFFull,
        0x7FFFFFFFFFFFFFFEull, 0x5555555555555555ull, 0xAAAAAAAAAAAAAAAAull, 2ull, 0xFFFFFFFFFFFFFFFEull, 0xFFFFFFFFull, 0x100000000ull, 0xFFFFFFFF00000000ull,
        0x80000000ull, 0x7FFFFFFFull, 0xFFFFFFFF80000000ull, 0xFFFFFFFF7FFFFFFFull}; std::int64_t v; memcpy(&v, &t[i], 8); return v; }
};
template<> struct Bnd<float> {
    static int n() { return 22; }
    static float at(int i) { typedef std::numeric_limits<float> L; static const float t[22] = {0.f, -0.f, 1.f, -1.f, L::min(), -L::min(), L::denorm_min(), -L::denorm_min(),
        L::max(), -L::max(), L::infinity(), -L::infinity(), L::quiet_NaN(), 0.5f, 1.5f, 16777216.f, 16777218.f, -2.f, 3.f, 1e-3f, L::epsilon(), 4.f}; return t[i]; }
};
template<> struct Bnd<double> {
    static int n() { return 22; }
    static double at(int i) { typedef std::numeric_limits<double> L; static const double t[22] = {0., -0., 1., -1., L::min(), -L::min(), L::denorm_min(), -L::denorm_min(),
        L::max(), -L::max(), L::infinity(), -L::infinity(), L::quiet_NaN(), 0.5, 1.5, 9007199254740992., 9007199254740994., -2., 3., 1e-3, L::epsilon(), 4.}; return t[i]; }
};
template<class R> inline R rnd_bits(vt::Rng& r) { uint64_t w = r.next(); R v; memcpy(&v, &w, sizeof(R)); return v; }

static uint64_t g_seed = 1;       // VERIF_SEED: all operand data derive from (seed, case id)
enum Mode { SMALL = 0, BITS = 1 };
// guard-page cases: a masked access that touches a disabled lane faults; the fault is caught and RECORDED (out.fault = 1)
static sigjmp_buf g_jb; static volatile int g_faulted = 0; static struct sigaction g_old_segv, g_old_bus;
inline void gp_handler(int) { g_faulted = 1; siglongjmp(g_jb, 1); }
inline void gp_arm() { g_faulted = 0; struct sigaction sa; memset(&sa, 0, sizeof sa); sa.sa_handler = gp_handler; sa.sa_flags = SA_ONSTACK | SA_NODEFER;
                       sigaction(SIGSEGV, &sa, &g_old_segv); sigaction(SIGBUS, &sa, &g_old_bus); }
inline void gp_disarm() { sigaction(SIGSEGV, &g_old_segv, nullptr); sigaction(SIGBUS, &g_old_bus, nullptr); }
enum Gen { G_ANY = 0, G_NZB = 1, G_EXDIV = 2, G_EXDIV_SV = 3, G_SQUARE = 4, G_PROD = 5, G_POS = 6, G_POSNEG = 7, G_SEQ = 8, G_UNIT = 9, G_EXDIV_RV = 10, G_EXTREME = 11 };

template<class R> inline R small_r(vt::Rng& r, int range, int sc, bool nonzero = false) {
    int n; do { n = r.range(-range, range); } while (nonzero && n == 0);
    return std::is_integral<R>::value ? (R)n : (R)((long double)n / (long double)sc);
}
template<class R> inline R pow2_r(vt::Rng& r) { static const int t[8] = {1, -1, 2, -2, 4, -4, 8, -8}; return (R)t[r.range(0, 7)]; }
template<class R> inline R bits_r(vt::Rng& r, bool divsafe) {
    R v = (r.next() & 1) ? Bnd<R>::at((int)(r.next() % (uint64_t)Bnd<R>::n())) : rnd_bits<R>(r);
    if (divsafe && std::is_integral<R>::value) { static const int t[8] = {1, 2, 3, 7, -2, -3, 1000, 65537}; if ((r.next() & 3) || v == (R)0 || v == (R)-1) v = (R)t[r.range(0, 7)]; }
    return v;
}
// a float with a uniformly random mantissa and a moderate exponent (for rcp / rsqrt)
template<class R> inline R pos_r(vt::Rng& r, bool neg_ok) {
    long double m = 1.0L + (long double)(r.next() % (1ull << 23)) / (long double)(1ull << 23);
    int e = r.range(-20, 20);
    R v = (R)std::ldexp(m, e);
    if (neg_ok && (r.next() & 1)) v = -v;
    return v;
}

template<class T, bool CX = vt::is_cx<T>::value> struct GenT;
template<class T> struct GenT<T, false> {
    static T one(vt::Rng& r, int mode, int gen, int range, int sc, int which /*0 a,1 b,2 c,3 s*/, int lane) {
        if (mode == BITS) { if (gen == G_POS) return pos_r<T>(r, false); if (gen == G_POSNEG) return pos_r<T>(r, true); return bits_r<T>(r, gen == G_NZB && (which == 1 || which == 3)); }
        switch (gen) {
            case G_NZB: return small_r<T>(r, (which == 1 || which == 3) ? 12 : range, sc, which == 1 || which == 3);
            case G_EXDIV: return (which == 1 || which == 3) ? pow2_r<T>(r) : (T)(8 * r.range(-range, range));
            case G_EXDIV_SV: return which == 1 ? pow2_r<T>(r) : (T)(8 * r.range(-range, range));
            case G_SQUARE: { int q = r.range(0, range); return (T)(q * q); }
            case G_UNIT: return pow2_r<T>(r);
            case G_PROD: { static const int t[4] = {1, -1, 2, -2}; static const int t3[6] = {1, -1, 2, -2, 3, -3}; return lane < 4 ? (T)t3[r.range(0, 5)] : (T)t[r.range(0, 3)]; }
            default: return small_r<T>(r, range, sc);
        }
    }
};
template<class R> struct GenT<std::complex<R>, true> {
    using T = std::complex<R>;
    static T unitish(vt::Rng& r) { static const int t[12][2] = {{1,0},{-1,0},{0,1},{0,-1},{2,0},{-2,0},{0,2},{0,-2},{1,1},{1,-1},{-1,1},{-1,-1}}; int k = r.range(0, 11); return T((R)t[k][0], (R)t[k][1]); }
    static T one(vt::Rng& r, int mode, int gen, int range, int sc, int which, int lane) {
        if (mode == BITS) return T(bits_r<R>(r, false), bits_r<R>(r, false));
        switch (gen) {
            case G_EXDIV: return (which == 1 || which == 3) ? unitish(r) : T((R)(8 * r.range(-range, range)), (R)(8 * r.range(-range, range)));
            case G_EXDIV_SV: return which == 1 ? unitish(r) : T((R)(8 * r.range(-range, range)), (R)(8 * r.range(-range, range)));
            case G_UNIT: return unitish(r);
            case G_EXDIV_RV: return which == 0 ? unitish(r) : T((R)(8 * r.range(-range, range)), (R)(8 * r.range(-range, range)));
            case G_PROD: { static const int t[4][2] = {{1,0},{0,1},{-1,0},{0,-1}}; static const int t3[6][2] = {{1,1},{1,-1},{2,0},{0,2},{1,0},{0,-1}};
                           if (lane < 4) { int k = r.range(0, 5); return T((R)t3[k][0], (R)t3[k][1]); } int k = r.range(0, 3); return T((R)t[k][0], (R)t[k][1]); }
            default: return T(small_r<R>(r, range, sc), small_r<R>(r, range, sc));
        }
    }
};

// ------------------------------------------------------------------------------------------------
// One case = one (operation, form, element type, ABI, value mode); next() steps through its draws / offsets / masks,
// out_*() record one event each.  Nothing here compares anything.
template<class T, class ABI> struct K {
    using V = SIMDVector<T, ABI>;
    using R = typename real_of<T>::type;
    static const size_t N = V::Size;
    static const int G = 4;
    static const size_t AL = 64 / sizeof(T) ? 64 / sizeof(T) : 1;      // elements in front of the destination body (keeps the body 64-byte aligned)
    const char *id, *Ts, *abis, *op, *form;
    int mode, sc, osc, gen, range, ndraw, iter /*0 none, 1 offsets, 2 masks, 3 remainder masks at a guard page*/, aligned;
    T* GP = nullptr; int rem = 0;    // iter 3: GP[0..rem) are the last bytes before a PROT_NONE page, lanes >= rem lie inside it
    static vt::PageArena& arena() { static vt::PageArena a(4); return a; }
    const unsigned* masks = nullptr; int nmasks = 0;
    int it = -1, d = 0, off = 0; unsigned mask = 0;
    alignas(64) T A[N]; alignas(64) T B[N]; alignas(64) T C[N]; T s; R sr;
    alignas(64) T M[2 * N];
    alignas(64) T blk[AL + 2 * N + G]; T pre[2 * N];
    T* D;                      // destination body (2N elements) inside blk
    V a, b, c;
    std::string cid;
    bool has_b = false, has_c = false, has_s = false, has_sr = false, has_M = false, has_D = false, has_mask = false, has_off = false;

    K(const char* id_, const char* Ts_, const char* abis_, const char* op_, const char* form_, int mode_, int sc_, int osc_, int gen_, int range_, int ndraw_, int iter_, int aligned_)
        : id(id_), Ts(Ts_), abis(abis_), op(op_), form(form_), mode(mode_), sc(sc_), osc(osc_), gen(gen_), range(range_), ndraw(ndraw_), iter(iter_), aligned(aligned_) { D = blk + AL; }
    void set_masks(const unsigned* m, int n) { masks = m; nmasks = n; }
    void uses(const char* w) { for (; *w; ++w) { switch (*w) { case 'b': has_b = true; break; case 'c': has_c = true; break; case 's': has_s = true; break; case 'r': has_sr = true; break;
                                                               case 'M': has_M = true; break; case 'D': has_D = true; break; case 'm': has_mask = true; break; case 'o': has_off = true; break; } } }

    __attribute__((noinline)) bool next() {
        ++it;
        int noff = iter == 1 ? (int)N : 1, nm = iter == 2 ? nmasks : (iter == 3 ? (int)N + 1 : 1);
        if (it >= ndraw * noff * nm) return false;
        d = it / (noff * nm);
        int oi = (it / nm) % noff, mi = it % nm;
        mask = iter == 2 ? masks[mi] : 0u;
        if (iter == 3) { rem = mi; mask = rem >= 32 ? 0xFFFFFFFFu : ((1u << rem) - 1u); }
        off = iter == 1 ? oi : (iter == 2 ? (int)((mi * 5 + d) % (int)N) : 0);
        if (aligned) off = 0;
        cid = std::string(id) + "/" + std::to_string(it);
        vt::g_cur_case = cid.c_str();
        vt::Rng r(vt::hash_str(cid.c_str()) ^ (g_seed * 0x9E3779B97F4A7C15ull));
        for (size_t i = 0; i < N; ++i) A[i] = GenT<T>::one(r, mode, gen, range, sc, 0, (int)i);
        // horizontal minimum / maximum: the unique extreme sits in lane d mod N (op "minimum" / "maximum")
        if (gen == G_EXTREME) A[(size_t)d % N] = (T)(R)(op[1] == 'i' ? -(range + 7) : (range + 7));
        for (size_t i = 0; i < N; ++i) B[i] = GenT<T>::one(r, mode, gen, range, sc, 1, (int)i);
        for (size_t i = 0; i < N; ++i) C[i] = GenT<T>::one(r, mode, gen, range, sc, 2, (int)i);
        s = GenT<T>::one(r, mode, gen, range, sc, 3, 0);
        sr = (gen == G_EXDIV || gen == G_EXDIV_SV) ? pow2_r<R>(r) : gen == G_EXDIV_RV ? (R)(8 * r.range(-range, range)) : small_r<R>(r, range > 30 ? 30 : range, sc, gen == G_NZB);
        for (size_t i = 0; i < 2 * N; ++i) M[i] = GenT<T>::one(r, mode, G_ANY, range, sc, 0, 0);
        for (size_t i = 0; i < AL + 2 * N + G; ++i) blk[i] = vt::Guarded<T>::sentinel();
        for (size_t i = 0; i < 2 * N; ++i) { pre[i] = GenT<T>::one(r, SMALL, G_ANY, 500, 1, 0, 0); D[i] = pre[i]; }
        if (iter == 3) { GP = (T*)arena().at_end((size_t)rem * sizeof(T)); for (int i = 0; i < rem; ++i) GP[i] = has_M ? M[i] : pre[i]; off = 0; }
        asm volatile("" : : "r"(A), "r"(B), "r"(C), "r"(M), "r"(blk), "r"(&s), "r"(&sr), "r"(GP) : "memory");
        a = V(A, false); b = V(B, false); c = V(C, false);
        return true;
    }

    void head(vt::Ev& ev) {
        ev.str("case", cid);
        ev.s += ",\"in\":{\"T\":\""; ev.s += Ts; ev.s += "\"";
        ev.str("abi", abis).num("N", (long long)N).str("op", op).str("form", form).str("mode", mode == BITS ? "bits" : "small").num("sc", sc).num("osc", osc);
        bool w = mode == BITS;
        put_arr(ev.s, "a", A, N, w, sc);
        if (has_b) put_arr(ev.s, "b", B, N, w, sc);
        if (has_c) put_arr(ev.s, "c", C, N, w, sc);
        if (has_s) { ev.s += ",\"s\":"; put_x(ev.s, s, w, sc); }
        if (has_sr) { ev.s += ",\"sr\":"; put_x(ev.s, sr, w, sc); }
        if (has_M) put_arr(ev.s, "M", M, 2 * N, w, sc);
        if (has_D) put_arr(ev.s, "pre", pre, 2 * N, false, 1);
        if (has_mask) ev.num("mask", (long long)mask);
        if (has_off || has_mask) ev.num("off", off);
        if (iter == 3) ev.num("rem", rem);
    }
    static bool out_w(int mode) { return mode == BITS || std::is_integral<R>::value; }

    // vertical result (any SIMDVector type); ref: scalar function (x, y, z, s) -> lane, evaluated only in bits mode
    template<class VR> void emit_v(const VR& r, const typename VR::scalar_value_type* rf) {
        using TR = typename VR::scalar_value_type;
        using RR = typename real_of<TR>::type;
        alignas(64) TR o[VR::Size]; r.store(o, false);
        vt::Ev ev("Simd"); head(ev);
        if (rf) put_arr(ev.s, "ref", rf, N, true, 1);
        ev.s += "},\"out\":{\"n\":"; ev.s += std::to_string((long long)VR::Size);
        if (iter == 3) ev.num("fault", g_faulted);
        put_arr(ev.s, "v", o, VR::Size, mode == BITS || std::is_integral<RR>::value, osc);
        ev.s += "}"; ev.emit();
    }
    template<class VR, class F> __attribute__((noinline)) void out_v(const VR& r, F ref) {
        using TR = typename VR::scalar_value_type;
        TR rf[N];
        if (mode == BITS) { for (size_t i = 0; i < N; ++i) rf[i] = ref(A[i], B[i], C[i], s); asm volatile("" : : "r"(rf) : "memory"); }
        emit_v(r, mode == BITS ? rf : nullptr);
    }
    template<class VR> __attribute__((noinline)) void out_v(const VR& r) { emit_v(r, nullptr); }
    // comparison result (bool lanes)
    template<class VB, class F> __attribute__((noinline)) void out_b(const VB& r, F ref) {
        alignas(64) bool o[VB::Size]; r.store(o, false);
        vt::Ev ev("Simd"); head(ev);
        if (mode == BITS) { bool rf[N]; for (size_t i = 0; i < N; ++i) rf[i] = ref(A[i], B[i], C[i], s); asm volatile("" : : "r"(rf) : "memory"); put_arr(ev.s, "ref", rf, N, false, 1); }
        ev.s += "},\"out\":{\"n\":"; ev.s += std::to_string((long long)VB::Size);
        put_arr(ev.s, "v", o, VB::Size, false, 1);
        ev.s += "}"; ev.emit();
    }
    // horizontal result; ref: function (A, B, n) -> scalar, evaluated only in bits mode
    template<class F> __attribute__((noinline)) void out_h(const T& h, F ref) {
        vt::Ev ev("Simd"); head(ev);
        if (mode == BITS) { T rf = ref((const T*)A, (const T*)B, (int)N); ev.s += ",\"ref\":"; put_x(ev.s, rf, true, 1); }
        ev.s += "},\"out\":{\"h\":"; put_x(ev.s, h, out_w(mode), osc);
        ev.s += "}"; ev.emit();
    }
    void out_h(const T& h) { out_h(h, [](const T* x, const T*, int) { return x[0]; }); }
    // memory after a store: G guards ++ body(2N) ++ G guards
    __attribute__((noinline)) void out_blk() {
        asm volatile("" : : "r"(blk) : "memory");
        vt::Ev ev("Simd"); head(ev);
        ev.s += "},\"out\":{\"n\":"; ev.s += std::to_string((long long)N);
        put_arr(ev.s, "blk", D - G, 2 * N + 2 * G, false, 1);
        ev.s += "}"; ev.emit();
    }
    // memory in front of the guard page after a remainder-masked store
    __attribute__((noinline)) void out_gp() {
        asm volatile("" : : "r"(GP) : "memory");
        vt::Ev ev("Simd"); head(ev);
        ev.s += "},\"out\":{\"n\":"; ev.s += std::to_string((long long)N);
        ev.num("fault", g_faulted);
        put_arr(ev.s, "w", GP, (size_t)rem, false, 1);
        ev.s += "}"; ev.emit();
    }
    // lanes through operator[] and operator()
    __attribute__((noinline)) void out_idx(const V& r) {
        T o[N], p[N]; for (size_t i = 0; i < N; ++i) { o[i] = r[i]; p[i] = r(i); }
        vt::Ev ev("Simd"); head(ev);
        ev.s += "},\"out\":{\"n\":"; ev.s += std::to_string((long long)N);
        put_arr(ev.s, "v", o, N, out_w(mode), osc); put_arr(ev.s, "v2", p, N, out_w(mode), osc);
        ev.s += "}"; ev.emit();
    }
    __attribute__((noinline)) void out_idx1(const V& r) {
        T o[N]; for (size_t i = 0; i < N; ++i) o[i] = r[i];
        vt::Ev ev("Simd"); head(ev);
        ev.s += "},\"out\":{\"n\":"; ev.s += std::to_string((long long)N);
        put_arr(ev.s, "v", o, N, out_w(mode), osc); put_arr(ev.s, "v2", o, N, out_w(mode), osc);
        ev.s += "}"; ev.emit();
    }
    // approximate operations: relative error of every lane against the exact value, in units of 2^-24, computed in long double
    template<class VR> __attribute__((noinline)) void out_err(const VR& r, int which /*0 rcp, 1 rsqrt*/) {
        alignas(64) T o[N]; r.store(o, false);
        vt::Ev ev("Simd"); head(ev);
        ev.s += "},\"out\":{\"n\":"; ev.s += std::to_string((long long)N); ev.s += ",\"err\":[";
        for (size_t i = 0; i < N; ++i) {
            long double x = (long double)std::real(A[i]), y = (long double)std::real(o[i]);
            long double e = which == 0 ? std::fabs(y * x - 1.0L) : std::fabs(y * std::sqrt(x) - 1.0L);
            long double u = std::ceil(e * 16777216.0L);
            long long q = (u == u && u < 999999999.0L) ? (long long)u : 999999999LL;
            if (i) ev.s += ","; ev.s += std::to_string(q);
        }
        ev.s += "]}"; ev.emit();
    }
};
template<class T, class ABI> const size_t K<T, ABI>::N;
// Native full-range sweep (thorough tier, DESIGN C08): every 32-bit pattern goes through the vector operation and through the plain
// scalar operation; only vectors with a differing lane (NaN = NaN) are recorded -- as ordinary events, judged like every other event.
// The summary event is coverage ("no candidates" is not a verdict).
template<class T, class ABI, class FV, class FS>
static void sweep(const char* id, const char* Ts, const char* abis, const char* op, FV fv, FS fs, int cap) {
    using V = SIMDVector<T, ABI>;
    const size_t N = V::Size;
    K<T, ABI> k(id, Ts, abis, op, "-", BITS, 1, 1, 0, 0, 1, 0, 0);
    long long cand = 0; int emitted = 0;
    alignas(64) T o[N];
    for (uint64_t base = 0; base < (1ull << 32); base += N) {
        for (size_t i = 0; i < N; ++i) { uint32_t w = (uint32_t)(base + i); memcpy(&k.A[i], &w, 4); }
        V a(k.A, false); V r = fv(a); r.store(o, false);
        bool diff = false;
        for (size_t i = 0; i < N; ++i) { T e = fs(k.A[i]); if (memcmp(&e, &o[i], 4) != 0 && !(is_nan_(e, std::is_floating_point<T>()) && is_nan_(o[i], std::is_floating_point<T>()))) diff = true; }
        if (diff) { ++cand; if (emitted < cap) { k.cid = std::string(id) + "/" + std::to_string(emitted++); k.out_v(r, [&](T x, T, T, T) { return fs(x); }); } }
    }
    vt::Ev ev("Sweep"); ev.str("case", id);
    ev.s += ",\"in\":{\"T\":\""; ev.s += Ts; ev.s += "\""; ev.str("abi", abis).num("N", (long long)N).str("op", op);
    ev.s += "},\"out\":{\"patterns64k\":65536,\"candidates\":" + std::to_string(cand > 999999999LL ? 999999999LL : cand) + "}";
    ev.emit();
}
// L2 binding (Mask.tla): the declared width of the mask parameter of mask_store, read off the member's type
template<class V, class M> constexpr int mask_bits_of(void (V::*)(typename V::scalar_value_type*, M, bool) const) { return 8 * (int)sizeof(M); }
template<class T, class ABI> static void meta_maskbits(const char* Ts, const char* abis, const char* abin) {
    using V = SIMDVector<T, ABI>;
    vt::Ev ev("Meta"); ev.str("case", std::string("meta/maskbits/") + Ts + "/" + abin);
    ev.s += ",\"in\":{\"T\":\""; ev.s += Ts; ev.s += "\""; ev.str("abi", abis).num("N", (long long)V::Size);
    ev.s += "},\"out\":{\"bits\":" + std::to_string(mask_bits_of<V>(&V::mask_store)) + "}";
    ev.emit();
}
} // namespace c08
using c08::wadd; using c08::wsub; using c08::wmul; using c08::wdiv; using c08::wneg; using c08::wabs; using c08::wmin; using c08::wmax; using c08::wsqrt;
'''

SYM = {"add": "+", "sub": "-", "mul": "*", "div": "/"}
CMPSYM = {"eq": "==", "ne": "!=", "lt": "<", "gt": ">", "le": "<=", "ge": ">="}
WREF = {"add": "wadd", "sub": "wsub", "mul": "wmul", "div": "wdiv"}


def ref2(fn, p, q):
    return "[](T x, T y, T z, T s) { (void)x; (void)y; (void)z; (void)s; return %s(%s, %s); }" % (fn, p, q)


def ref1(expr):
    return "[](T x, T y, T z, T s) { (void)x; (void)y; (void)z; (void)s; return %s; }" % expr


def refb(expr):
    return "[](T x, T y, T z, T s) -> bool { (void)x; (void)y; (void)z; (void)s; return %s; }" % expr


def refh(body):
    return "[](const T* x, const T* y, int n) { (void)y; %s }" % body


def entry(op, form, N, U=None):
    """-> (uses, statement)"""
    if op in SYM:
        sy, w = SYM[op], WREF[op]
        if form == "vv":
            return "b", "V r = k.a %s k.b; k.out_v(r, %s);" % (sy, ref2(w, "x", "y"))
        if form == "vs":
            return "s", "V r = k.a %s k.s; k.out_v(r, %s);" % (sy, ref2(w, "x", "s"))
        if form == "sv":
            return "bs", "V r = k.s %s k.b; k.out_v(r, %s);" % (sy, ref2(w, "s", "y"))
        if form == "ipv":
            return "b", "V r(k.a); r %s= k.b; k.out_v(r, %s);" % (sy, ref2(w, "x", "y"))
        if form == "ips":
            return "s", "V r(k.a); r %s= k.s; k.out_v(r, %s);" % (sy, ref2(w, "x", "s"))
        if form == "vr":
            return "r", "V r = k.a %s k.sr; k.out_v(r);" % sy
        if form == "rv":
            return "r", "V r = k.sr %s k.a; k.out_v(r);" % sy
        if form == "ipr":
            return "r", "V r(k.a); r %s= k.sr; k.out_v(r);" % sy
    if op == "neg":
        return "", "V r = -k.a; k.out_v(r, %s);" % ref1("wneg(x)")
    if op == "pos":
        return "", "V r = +k.a; k.out_v(r, %s);" % ref1("x")
    if op == "abs":
        return "", "V r = abs(k.a); k.out_v(r, %s);" % ref1("wabs(x)")
    if op == "sqrt":
        return "", "V r = sqrt(k.a); k.out_v(r, %s);" % ref1("wsqrt(x)")
    if op == "rcp":
        return "", "V r = rcp(k.a); k.out_err(r, 0);"
    if op == "rsqrt":
        return "", "V r = rsqrt(k.a); k.out_err(r, 1);"
    if op == "crcp":
        return "", "V r = rcp(k.a); k.out_v(r);"
    if op == "conj":
        return "", "V r = conj(k.a); k.out_v(r);"
    if op == "real":
        return "", "auto r = k.a.real(); k.out_v(r);"
    if op == "imag":
        return "", "auto r = k.a.imag(); k.out_v(r);"
    if op == "norm":
        return "", "auto r = k.a.norm(); k.out_v(r);"
    if op in ("fmadd", "fmsub", "fnmadd"):
        wref = {"fmadd": "wadd(wmul(x, y), z)", "fmsub": "wsub(wmul(x, y), z)", "fnmadd": "wsub(z, wmul(x, y))"}[op]
        return "bc", "V r = %s(k.a, k.b, k.c); k.out_v(r, %s);" % (op, ref1(wref))
    if op in ("min", "max"):
        w = "w" + op
        if form == "vv":
            return "b", "V r = %s(k.a, k.b); k.out_v(r, %s);" % (op, ref2(w, "x", "y"))
        if form == "vs":
            return "s", "V r = %s(k.a, k.s); k.out_v(r, %s);" % (op, ref2(w, "x", "s"))
        if form == "sv":
            return "bs", "V r = %s(k.s, k.b); k.out_v(r, %s);" % (op, ref2(w, "s", "y"))
    if op in CMPSYM:
        sy = CMPSYM[op]
        if form == "vv":
            return "b", "auto r = (k.a %s k.b); k.out_b(r, %s);" % (sy, refb("x %s y" % sy))
        if form == "vs":
            return "s", "auto r = (k.a %s k.s); k.out_b(r, %s);" % (sy, refb("x %s s" % sy))
        if form == "sv":
            return "bs", "auto r = (k.s %s k.b); k.out_b(r, %s);" % (sy, refb("s %s y" % sy))
    if op == "reverse":
        return "", "V r = k.a.reverse(); k.out_v(r);"
    if op == "cast":
        return "", "auto r = k.a.template cast<%s>(); k.out_v(r, [](T x, T, T, T) { return (%s)x; });" % (U, U)
    if op == "sum":
        return "", "T h = k.a.sum(); k.out_h(h, %s);" % refh("T q = x[0]; for (int i = 1; i < n; ++i) q = wadd(q, x[i]); return q;")
    if op == "product":
        return "", "T h = k.a.product(); k.out_h(h, %s);" % refh("T q = x[0]; for (int i = 1; i < n; ++i) q = wmul(q, x[i]); return q;")
    if op == "dot":
        return "b", "T h = k.a.dot(k.b); k.out_h(h, %s);" % refh("T q = wmul(x[0], y[0]); for (int i = 1; i < n; ++i) q = wadd(q, wmul(x[i], y[i])); return q;")
    if op == "minimum":
        return "", "T h = k.a.minimum(); k.out_h(h, %s);" % refh("T q = x[0]; for (int i = 1; i < n; ++i) q = wmin(q, x[i]); return q;")
    if op == "maximum":
        return "", "T h = k.a.maximum(); k.out_h(h, %s);" % refh("T q = x[0]; for (int i = 1; i < n; ++i) q = wmax(q, x[i]); return q;")
    # ---- construction / registers
    if op == "ctor0":
        return "", "V r; k.out_v(r);"
    if op == "ctor_b":
        return "s", "V r(k.s); k.out_v(r);"
    if op == "asg_b":
        return "s", "V r(k.a); r = k.s; k.out_v(r);"
    if op == "set1":
        return "s", "V r(k.a); r.set(k.s); k.out_v(r);"
    if op == "setn":
        return "", "V r(k.b); r.set(%s); k.out_v(r);" % ", ".join("k.A[%d]" % i for i in range(N))
    if op == "setseq":
        return "s", "V r(k.a); r.set_sequential(k.s); k.out_v(r);"
    if op == "bcast_ptr":
        return "s", "V r(k.a); r.broadcast(&k.s); k.out_v(r);"
    if op == "copy":
        return "", "V r(k.a); k.out_v(r);"
    if op == "asg_v":
        return "", "V r(k.b); r = k.a; k.out_v(r);"
    if op == "index":
        return "", {"-": "k.out_idx(k.a);", "b": "k.out_idx1(k.a);"}[form]
    # ---- memory
    if op == "ctor_ld":
        return "Mo", {"u": "V r(k.M + k.off, false); k.out_v(r);", "a": "V r(k.M, true); k.out_v(r);", "d": "V r(k.M); k.out_v(r);"}[form]
    if op == "load":
        return "Mo", {"u": "V r(k.a); r.load(k.M + k.off, false); k.out_v(r);", "a": "V r(k.a); r.load(k.M, true); k.out_v(r);",
                      "d": "V r(k.a); r.load(k.M); k.out_v(r);"}[form]
    if op == "aload":
        return "Mo", "V r(k.a); r.aligned_load(k.M); k.out_v(r);"
    if op == "store":
        return "Do", {"u": "k.a.store(k.D + k.off, false); k.out_blk();", "a": "k.a.store(k.D, true); k.out_blk();", "d": "k.a.store(k.D); k.out_blk();"}[form]
    if op == "astore":
        return "Do", "k.a.aligned_store(k.D); k.out_blk();"
    if op == "mload":
        return "Mmc", {"zu": "V r; r.mask_load(k.M + k.off, k.mask, false); k.out_v(r);", "pu": "V r(k.c); r.mask_load(k.M + k.off, k.mask, false); k.out_v(r);",
                       "pa": "V r(k.c); r.mask_load(k.M, k.mask, true); k.out_v(r);", "pd": "V r(k.c); r.mask_load(k.M + k.off, k.mask); k.out_v(r);",
                       "gp": "V r(k.c); c08::gp_arm(); if (sigsetjmp(c08::g_jb, 1) == 0) { r.mask_load(k.GP, k.mask, false); } c08::gp_disarm(); k.out_v(r);"}[form]
    if op == "mstore":
        return "Dm", {"u": "k.a.mask_store(k.D + k.off, k.mask, false); k.out_blk();", "a": "k.a.mask_store(k.D, k.mask, true); k.out_blk();",
                      "d": "k.a.mask_store(k.D + k.off, k.mask); k.out_blk();",
                      "gp": "c08::gp_arm(); if (sigsetjmp(c08::g_jb, 1) == 0) { k.a.mask_store(k.GP, k.mask, false); } c08::gp_disarm(); k.out_gp();"}[form]
    raise KeyError((op, form))


ISA_ABIS = {"scalar": {"scalar", "fixed"}, "sse2": {"scalar", "fixed", "sse"}, "sse42": {"scalar", "fixed", "sse"},
            "avx": {"scalar", "fixed", "sse", "avx"}, "avx2": {"scalar", "fixed", "sse", "avx"},
            "avx512": {"scalar", "fixed", "sse", "avx", "avx512"}}


def abi_name(c):
    return "fixed%d" % c["n"] if c["abi"] == "fixed" else c["abi"]


def abi_cxx(c):
    return "simd_abi::fixed_size<%d>" % c["n"] if c["abi"] == "fixed" else "simd_abi::" + c["abi"]


def case_id(c):
    return "simd/%s/%s/%s/%s/%s%d" % (c["T"], abi_name(c), c["op"], c["form"], c["mode"], c["sc"])


SWEEP_HOME = {"sse": ("sse2-14-O2", "sse42-14-O2"), "avx": ("avx2-14-O2",), "avx512": ("avx512-14-O2",), "fixed": ("sse2-14-O2", "avx2-14-O3")}
SWEEP = {"neg": ("-a", "wneg(x)"), "abs": ("abs(a)", "wabs(x)"), "sqrt": ("sqrt(a)", "wsqrt(x)")}


def block(c, idx):
    if c["form"] == "sweep":
        ve, se = SWEEP[c["op"]]
        return ('static void case_%d() { typedef %s T; typedef %s ABI; typedef SIMDVector<T,ABI> V; '
                'c08::sweep<T,ABI>("%s","%s","%s","%s", [](const V& a) { return V(%s); }, [](T x) { return %s; }, 40); }') % (
            idx, CXX_T[c["T"]], abi_cxx(c), c["case"], c["T"], c["abi"], c["op"], ve, se)
    uses, st = entry(c["op"], c["form"], c["N"], U=CXX_T.get(c["form"]))
    masks = c["masks"] or [0]
    return ('static void case_%d() { typedef %s T; typedef %s ABI; typedef SIMDVector<T,ABI> V; typedef c08::K<T,ABI> KK; typedef KK::R R; '
            'static const unsigned mk[] = {%s}; KK k("%s","%s","%s","%s","%s",%d,%d,%d,%d,%d,%d,%d,%d); k.uses("%s"); k.set_masks(mk,%d); '
            'while (k.next()) { %s } }') % (
        idx, CXX_T[c["T"]], abi_cxx(c), ",".join(str(m) for m in masks), c["case"], c["T"], c["abi"], c["op"], c["form"],
        1 if c["mode"] == "bits" else 0, c["sc"], c["osc"], c["gen"], c["range"], c["ndraw"], c["iter"], c["aligned"], uses, len(masks), st)


def n_events(c):
    return c["ndraw"] * (c["N"] if c["iter"] == 1 else (len(c["masks"]) if c["iter"] == 2 else (c["N"] + 1 if c["iter"] == 3 else 1)))


class C08(Check):
    prop = "C08"
    trace_module = "TraceSimd"
    trace_cfg = "TraceSimd.cfg"
    rule = ("cases = states of GenSimd: every (element type f32 f64 i32 i64 c32 c64) x (ABI scalar sse avx avx512 fixed_size<n>) x (operation, operand form) "
            "the library offers x value mode (small exact data at scale 1 and 1/4, boundary values + random bit patterns); each case is expanded by the "
            "recorder into its draws, every element offset 0..Size-1 (loads/stores) or its masks (all 2^Size masks up to 8 lanes, remainder masks + "
            "hash-sampled masks for 16 lanes); a case runs in every configuration whose ISA provides the ABI; distinct = distinct recorded inputs; "
            "every event is non-trivial (all lanes / the whole guarded block are compared)")
    assumptions = ["small-mode operands are integers or quarters of magnitude <= 1000 (<= 30 for products), exact in every element type, so exact equality is sound "
                   "for any evaluation order / FMA contraction",
                   "int32/int64 results are compared as 16-bit limb lists against exact two's-complement arithmetic evaluated by TLC (module Word)",
                   "float/double boundary values and random bit patterns (+ - * / sqrt compare min max) are judged against the table of the plain scalar C++ "
                   "operation recorded with the event (uninterpreted function), NaNs as one class; min/max may return either operand when one is NaN or both are zeros",
                   "rcp/rsqrt: relative error (long double, recorder) <= 2^-11; no bound is documented by the library",
                   "mask_load may keep or zero the disabled register lanes (both behaviours exist in the library); set(x0..xn-1) puts the LAST argument in lane 0",
                   "operands reach the vector through the unaligned load constructor and results leave through store(); both are themselves checked cases"]

    def configs(self, ctx):
        if ctx.tier == "quick":
            return list(QUICK_CFGS)
        # every ISA level (SSE4.1 / AVX-without-AVX2 / scalar select different helper code), C++17 and -O3 (auto-vectorised generic loops) on the wide ones
        return ["%s-14-O2" % i for i in ALL_ISAS] + ["avx2-17-O2", "avx512-17-O2", "avx2-14-O3"]

    def plan(self, ctx):
        cfg = "GenSimd_%s.cfg" % ctx.tier
        t = time.time()
        items, gen, dist, out = tlc_emit(ctx, "GenSimd", cfg, env={"VERIF_SEED": str(ctx.seed)})
        if "No error has been found" not in out:
            raise ToolFailure("GenSimd: lane-algebra obligation failed or generator error: " + out[-1500:])
        ctx.mc_results.append({"module": "GenSimd", "cfg": cfg, "generated": gen, "distinct": dist, "ok": True, "wall_s": round(time.time() - t, 1),
                               "action_coverage": {}})
        for c in items:
            c["case"] = case_id(c)
        items.sort(key=lambda c: c["case"])
        ids = {c["case"] for c in items}
        if len(ids) != len(items):
            raise ToolFailure("GenSimd: case ids are not unique")
        self.n_expected = sum(n_events(c) for c in items)
        self.mbits = {(c["T"], abi_name(c)): c["mbits"] for c in items}
        return items

    def post_events(self, ctx, traces):
        # MODEL-DRIFT report (never a verdict): pure key comparison of the declared mask width recorded from the code with the L2 model's table
        drift = set()
        self.sweeps = {}
        for cfgname, evs in traces.items():
            for ev in evs:
                if ev.get("e") == "Sweep":      # coverage of the native sweeps: patterns visited / candidate vectors handed to the judge
                    s = self.sweeps.setdefault(ev["case"], {"patterns": 0, "candidates": 0, "configurations": 0})
                    s["patterns"] += ev["out"]["patterns64k"] * 65536
                    s["candidates"] += ev["out"]["candidates"]
                    s["configurations"] += 1
                if ev.get("e") == "Meta":
                    key = tuple(ev["case"].split("/")[2:4])
                    if self.mbits.get(key) != ev["out"]["bits"]:
                        drift.add("%s/%s code %d model %s" % (key[0], key[1], ev["out"]["bits"], self.mbits.get(key)))
        if drift:
            ctx.notes.append("MODEL-DRIFT: Mask.tla DeclBits disagrees with the declared mask parameter width: " + "; ".join(sorted(drift)))
            log("MODEL-DRIFT (not a violation): " + "; ".join(sorted(drift)))
        return traces

    def model_checks(self, ctx):
        model_check(ctx, "MC_Mask", "MC_Mask.cfg", workers=1)

    def nontrivial(self, ev):
        return ev["e"] == "Simd"

    def extra_coverage(self, ctx):
        return {"events_expected_per_full_configuration": getattr(self, "n_expected", 0), "native_sweeps": getattr(self, "sweeps", {})}

    def units(self, ctx, plan, cfgname):
        isa = cfgname.split("-")[0]
        groups = {}
        for c in plan:
            if c["abi"] in ISA_ABIS[isa]:
                groups.setdefault(c["T"], []).append(c)
        # one element type per TU (K<T,ABI> is shared by all cases of a pair); ~28 ms per case on top of ~2 s for the headers
        units, per = [], 140
        main = "\nint main(int argc, char** argv) {\n    vt::open(argc, argv, \"%s\");\n    vt::install_handlers();\n    c08::g_seed = %dull;\n%%s\n    vt::close_ok();\n    return 0;\n}\n" % (cfgname, ctx.seed)
        for T, cs in sorted(groups.items()):
            for c in [c for c in cs if c["form"] == "sweep"]:        # one unit per sweep (tens of seconds each): they run in parallel
                if cfgname not in SWEEP_HOME[c["abi"]]:               # a sweep exercises one specialisation: run it where that specialisation is native
                    continue
                units.append(("sw_%s_%s_%s" % (T, abi_name(c), c["op"]), PRELUDE + block(c, 0) + main % "    case_0();", []))
            cs = [c for c in cs if c["form"] != "sweep"]
            cs.sort(key=lambda c: (c["form"] == "gp", abi_name(c), c["case"]))       # guard-page cases last
            seen = set()
            for ci in range(0, len(cs), per):
                ch = cs[ci:ci + per]
                body = []
                for c in ch:                                                         # L2 binding record, once per (T, ABI) that has masked stores
                    if c["op"] == "mstore" and abi_name(c) not in seen:
                        seen.add(abi_name(c))
                        body.append('    c08::meta_maskbits<%s,%s>("%s","%s","%s");' % (CXX_T[T], abi_cxx(c), T, c["abi"], abi_name(c)))
                body += ["    case_%d();" % i for i in range(len(ch))]
                src = PRELUDE + "\n".join(block(c, i) for i, c in enumerate(ch)) + main % "\n".join(body)
                units.append(("sv_%s_%02d" % (T, ci // per), src, []))
        return units

    def event_weight(self, ev):
        i = ev.get("in", {})
        n = i.get("N", 1)
        w = 2 + n * (4 if i.get("T") in ("i32", "i64") else 1) * (3 if i.get("mode") == "bits" else 1)
        if i.get("op") in ("mload", "mstore", "store", "astore"):
            w += 3 * n
        return w * max(1, len(ev.get("outs", [1])))

