# C09 -- lazy linear-algebra operators give the same result as their eager counterparts
from pipeline import *
from c01 import CXX_T

PRELUDE = r'''
#include <Fastor/Fastor.h>
#include "vt.h"
using namespace Fastor;
template<class T, size_t n> struct Env {
    Tensor<T,n,n> A, B, C, U, D;
    __attribute__((noinline)) Env(const char* id) {
        vt::Rng r(vt::hash_str(id));
        for (size_t i = 0; i < n * n; ++i) { A.data()[i] = (T)r.range(-3, 3); B.data()[i] = (T)r.range(-3, 3); C.data()[i] = (T)r.range(-2, 2); D.data()[i] = (T)r.range(-3, 3); }
        // U = unit lower * unit upper with a +-1 diagonal: unimodular, exact integer inverse
        Tensor<T,n,n> L, R; 
        for (size_t i = 0; i < n; ++i) for (size_t j = 0; j < n; ++j) {
            L(i,j) = (T)(i == j ? 1 : (i > j ? r.range(-2, 2) : 0));
            R(i,j) = (T)(i == j ? (r.range(0, 1) ? 1 : -1) : (i < j ? r.range(-2, 2) : 0));
        }
        for (size_t i = 0; i < n; ++i) for (size_t j = 0; j < n; ++j) { T s = 0; for (size_t k = 0; k < n; ++k) s += L(i,k) * R(k,j); U(i,j) = s; }
        asm volatile("" : : "r"(A.data()), "r"(B.data()), "r"(C.data()), "r"(U.data()), "r"(D.data()) : "memory");
    }
};
template<class T, size_t n> static void log_lazy(const char* id, const char* tt, const char* head, const Env<T,n>& o, const Tensor<T,n,n>& lazy, const Tensor<T,n,n>& eager) {
    vt::Ev ev("Lazy"); ev.str("case", id);
    ev.s += ",\"in\":{\"T\":\""; ev.s += tt; ev.s += "\","; ev.s += head;
    ev.s += ",\"env\":{\"x\":0";
    ev.arr("A", o.A.data(), n * n).arr("B", o.B.data(), n * n).arr("C", o.C.data(), n * n).arr("U", o.U.data(), n * n).arr("D", o.D.data(), n * n);
    ev.s += "}},\"out\":{\"x\":0";
    ev.arr("lazy", lazy.data(), n * n).arr("eager", eager.data(), n * n);
    ev.s += "}";
    ev.emit();
}
template<class TensorT> __attribute__((noinline)) static void fill_r(TensorT& t, vt::Rng& r) {
    for (size_t i = 0; i < (size_t)t.size(); ++i) t.data()[i] = (typename TensorT::scalar_type)r.range(-2, 2);
    asm volatile("" : : "r"(t.data()) : "memory");
}
'''

XOP = {"set": "=", "add": "+=", "sub": "-=", "mul": "*="}


def lazy_cxx(e, dname):
    k = e["k"]
    if k == "s":
        return "decltype(o.D)::scalar_type(%d)" % e["v"]
    if k == "t":
        return dname if e["n"] == "D" else "o." + e["n"]
    if k in ("add", "sub", "mul", "mm"):
        return "(%s%s%s)" % (lazy_cxx(e["l"], dname), {"add": "+", "sub": "-", "mul": "*", "mm": "%"}[k], lazy_cxx(e["r"], dname))
    if k in ("trans", "inv", "adj", "cof"):
        return "%s(%s)" % (k, lazy_cxx(e["x"], dname))
    if k == "sdet":
        return "(det(%s)*%s)" % (lazy_cxx(e["x"], dname), lazy_cxx(e["y"], dname))
    if k == "strace":
        return "(trace(%s)*%s)" % (lazy_cxx(e["x"], dname), lazy_cxx(e["y"], dname))
    raise ValueError(k)


def eager_cxx(e, tt):
    """every node evaluated immediately into a tensor, on the ORIGINAL operands (D -> o.D)"""
    k = e["k"]
    if k == "s":
        return "decltype(o.D)::scalar_type(%d)" % e["v"]
    if k == "t":
        return "o." + e["n"]
    if k in ("add", "sub", "mul"):
        return "%s(%s%s%s)" % (tt, eager_cxx(e["l"], tt), {"add": "+", "sub": "-", "mul": "*"}[k], eager_cxx(e["r"], tt))
    if k == "mm":
        return "matmul(%s,%s)" % (eager_cxx(e["l"], tt), eager_cxx(e["r"], tt))
    fn = {"trans": "transpose", "inv": "inverse", "adj": "adjoint", "cof": "cofactor"}.get(k)
    if fn:
        return "%s(%s(%s))" % (fn, tt, eager_cxx(e["x"], tt))
    if k == "sdet":
        return "%s(determinant(%s(%s))*%s)" % (tt, tt, eager_cxx(e["x"], tt), eager_cxx(e["y"], tt))
    if k == "strace":
        return "%s(trace(%s(%s))*%s)" % (tt, tt, eager_cxx(e["x"], tt), eager_cxx(e["y"], tt))
    raise ValueError(k)


def tstr(e):
    k = e["k"]
    if k == "s":
        return "s%d" % e["v"]
    if k == "t":
        return e["n"]
    if "l" in e:
        return "%s(%s,%s)" % (k, tstr(e["l"]), tstr(e["r"]))
    if "y" in e:
        return "%s(%s,%s)" % (k, tstr(e["x"]), tstr(e["y"]))
    return "%s(%s)" % (k, tstr(e["x"]))


class C09(Check):
    prop = "C09"
    trace_module = "TraceLazy"
    trace_cfg = "TraceLazy.cfg"
    rule = ("cases = states of GenLazy: expression trees up to depth 2 mixing element-wise + - * with the lazy nodes %, trans, inv, adj, cof, "
            "det(.)*., trace(.)*. (and a few deeper product / transpose nests), every tree with and without the destination D as an element-wise "
            "operand, four assignment operators, Tensor and TensorMap destinations, n in {2,3}, float and double; plus chains of 2..5 lazy products "
            "of rectangular matrices with extents from {1,2,3,5}. Each case records the destination after the lazy statement and after the same "
            "statement built from the eager functions on the original operands; TLC compares both with LazyExpr!Expected. "
            "distinct = distinct (tree, operator, destination kind, n, type); non-trivial = all")
    assumptions = ["operands are small integer matrices and inverses are taken of unimodular matrices only, so both sides are exact integers "
                   "(n <= 3: the direct formulas divide by det = +-1)",
                   "/= is not generated (quotients of these values are not exact)",
                   "norm and lu-based solve are exercised by C16 / C12; here the lazy nodes are %, trans, inv, adj, cof, det, trace"]

    def model_checks(self, ctx):
        model_check(ctx, "MC_StagedAssign", "MC_StagedAssign.cfg", workers=1)
        model_check(ctx, "MC_StagedAssign", "MC_StagedAssign_full.cfg", workers=1, expect_violation="LazyEqEager")

    def plan(self, ctx):
        cfg = "GenLazy_%s.cfg" % ctx.tier
        items, gen, dist, out = tlc_emit(ctx, "GenLazy", cfg, env={"VERIF_SEED": str(ctx.seed)}, timeout=1200)
        if "No error has been found" not in out:
            raise ToolFailure("GenLazy failed: " + out[-1500:])
        ctx.mc_results.append({"module": "GenLazy", "cfg": cfg, "generated": gen, "distinct": dist, "ok": True, "wall_s": 0, "action_coverage": {}})
        for c in items:
            if c.get("chain"):
                c["case"] = "chain/%s/%s" % (c["T"], "x".join(map(str, c["dims"])))
            else:
                c["case"] = "lz/%s/%d/%s/%s/%s" % (c["T"], c["n"], c["dest"], c["x"], tstr(c["tree"]))
        items.sort(key=lambda c: c["case"])
        return items

    def stmt(self, c):
        T = CXX_T[c["T"]]
        if c.get("chain"):
            d = c["dims"]
            k = len(d) - 1
            decl = " ".join("Tensor<%s,%d,%d> M%d; fill_r(M%d,r);" % (T, d[i], d[i + 1], i, i) for i in range(k))
            lazy = " % ".join("M%d" % i for i in range(k))
            eager = "M0"
            for i in range(1, k):
                eager = "matmul(%s,M%d)" % (eager, i)
            logms = ",".join("M%d" % i for i in range(k))
            arrs = "".join('ms += (ms.size() > 1 ? "," : ""); { vt::Ev t_("x"); t_.s.clear(); t_.arr("v", M%d.data(), (size_t)M%d.size()); ms += t_.s.substr(t_.s.find("[")); } ' % (i, i) for i in range(k))
            return ('    { vt::Rng r(vt::hash_str("%s")); %s Tensor<%s,%d,%d> L = %s; Tensor<%s,%d,%d> E = %s; std::string ms = "["; %s ms += "]"; '
                    'vt::Ev ev("Chain"); ev.str("case","%s"); ev.s += ",\\"in\\":{\\"T\\":\\"%s\\",\\"dims\\":[%s],\\"ms\\":" + ms + "},\\"out\\":{\\"x\\":0"; '
                    'ev.arr("lazy", L.data(), (size_t)L.size()).arr("eager", E.data(), (size_t)E.size()); ev.s += "}"; ev.emit(); }') % (
                c["case"], decl, T, d[0], d[-1], lazy, T, d[0], d[-1], eager, arrs, c["case"], c["T"], ",".join(map(str, d)))
        n = c["n"]
        tt = "Tensor<%s,%d,%d>" % (T, n, n)
        head = json.dumps(json.dumps({"n": n, "x": c["x"], "dest": c["dest"], "tree": c["tree"]}, separators=(",", ":"))[1:-1])
        if c["dest"] == "tensor":
            lz = "%s Dl = o.D; Dl %s %s;" % (tt, XOP[c["x"]], lazy_cxx(c["tree"], "Dl"))
        else:
            lz = "%s Dl = o.D; { TensorMap<%s,%d,%d> Mp(Dl.data()); Mp %s %s; }" % (tt, T, n, n, XOP[c["x"]], lazy_cxx(c["tree"], "Dl"))
        eg = "%s De = o.D; { %s tmp_ = %s; De %s tmp_; }" % (tt, tt, eager_cxx(c["tree"], tt), XOP[c["x"]])
        return '    { Env<%s,%d> o("%s"); %s %s log_lazy("%s","%s",%s,o,Dl,De); }' % (T, n, c["case"], lz, eg, c["case"], c["T"], head)

    def units(self, ctx, plan, cfgname):
        units, per = [], 50
        plan = sorted(plan, key=lambda c: (c.get("chain", 0), c["T"], c.get("n", 0), c["case"]))
        for ci in range(0, len(plan), per):
            body = "\n".join(self.stmt(c) for c in plan[ci:ci + per])
            src = PRELUDE + "int main(int argc, char** argv) {\n    vt::open(argc, argv, \"%s\");\n    vt::install_handlers();\n%s\n    vt::close_ok();\n    return 0;\n}\n" % (cfgname, body)
            units.append(("lz_%03d" % (ci // per), src, []))
        return units
