# C10 -- inverse(A) times A is the identity for every size and every computation type
from linalg_common import *


class C10(LinalgCheck):
    prop = "C10"
    kind = "Inverse"
    rule = ("cases = (matrix state of GenLinalg[Kind=Inverse]) x (call on it): every InvCompType value (SimpleInv, SimpleInvPiv, BlockLU, BlockLUPiv, "
            "SimpleLU, SimpleLUPiv), tinverse<UniLower> / tinverse<Upper>, the batched inverse over trailing axes (Tensor<T,3,n,n>, Tensor<T,2,3,n,n>, n <= 4), "
            "tensor and expression arguments, lazy inv(A) / inv(A+Z); float and double; orders 1..9,16,17,32,33 (thorough: 1..12,16,17,32,33,64,65); families: "
            "diagonally dominant, row permutations of those by disjoint transpositions and 3-cycles (pivoted strategies only, each checked admissible under "
            "Linalg!StaticPivot by TLC), unimodular L0*U0, Hadamard-block times 2^k scaling, unit-lower / upper triangular; distinct = distinct (matrix, call); "
            "every one is non-trivial: both residuals ||A X - I|| and ||X A - I|| are measured and judged, exact results are re-verified by TLC")
    assumptions = LinalgCheck.assumptions_common + [
        "C10 is judged as max(||A X - I||_inf, ||X A - I||_inf) <= 16 n eps cond_inf(A), per matrix for the batched form",
    ]
