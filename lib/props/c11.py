# C11 -- LU factors are triangular and reproduce the (row-permuted) matrix
from linalg_common import *


class C11(LinalgCheck):
    prop = "C11"
    kind = "LU"
    rule = ("cases = (matrix state of GenLinalg[Kind=LU]) x (call): lu<BlockLU>, lu<SimpleLU>, lu<BlockLUPiv> and lu<SimpleLUPiv> with the permutation "
            "returned as Tensor<size_t,n> and as Tensor<T,n,n>, tensor and expression arguments, float and double, orders 1..9,16,17,32,33 (thorough adds 10..12,64,65); "
            "families as in C10 (pivoted strategies also on row permutations by disjoint transpositions and 3-cycles, each checked admissible by TLC); per event TLC decides "
            "UnitLower(L) and Upper(U) on entry classes, bijectivity of P in its encoding, apply_pivot / reconstruct on the integer input, and judges "
            "||L U - P A|| and ||reconstruct(L,U,P) - A|| against n eps || |L||U| ||; distinct = distinct (matrix, call); all non-trivial")
    assumptions = LinalgCheck.assumptions_common + [
        "the normalisation || |L||U| || and the growth measure come from a reference no-pivot factorisation of the pivoted input (long double), not from the library's factors, "
        "so that garbage factors cannot move a case out of the judged domain",
        "output tensors are pre-filled with 7777 before the call (the API takes uninitialised output tensors): every entry must be written",
    ]
