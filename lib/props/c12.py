# C12 -- solve(A,b) satisfies A*x = b for every size, strategy and right-hand-side shape
from linalg_common import *


class C12(LinalgCheck):
    prop = "C12"
    kind = "Solve"
    rule = ("cases = (matrix state of GenLinalg[Kind=Solve]) x (call): every implemented SolveCompType value (SimpleInv, SimpleInvPiv, BlockLU, BlockLUPiv, SimpleLU, "
            "SimpleLUPiv; QR and Chol have no overload: not offered), internal::forward_subs / backward_subs on triangular matrices, vector right-hand side and "
            "matrix right-hand sides with 1..5 columns, the four tensor/expression overloads of solve, float and double, orders 1..9,16,17,32,33 (thorough adds 10..12,64,65); "
            "families as in C10; right-hand sides are small integers drawn from the case id; distinct = distinct (matrix, call); all non-trivial: the residual of every column is measured")
    assumptions = LinalgCheck.assumptions_common + [
        "C12 is judged as max_j ||A x_j - b_j||_inf <= 16 n eps cond_inf(A) ||b_j||_inf",
    ]
