# C13 -- QR factors are orthonormal and upper triangular and reproduce the matrix
from linalg_common import *


class C13(LinalgCheck):
    prop = "C13"
    kind = "QR"
    rule = ("cases = (matrix state of GenLinalg[Kind=QR]) x (call): qr<MGSR>, qr<MGSRPiv> with vector and matrix permutation (HHR is a static_assert: not offered), tensor and "
            "expression arguments, determinant<DetCompType::QR>, float and double, orders 1..9,16,17,32,33 (thorough adds 10..12,64,65); families: diagonally dominant and their row "
            "permutations, unimodular, Hadamard-block times 2^k column scaling (cond known exactly, up to 2^5 * sqrt-free blocks), orders-1-and-4 Hadamard blocks on which "
            "Gram-Schmidt is exact, and ill-conditioned H diag(2^k) H on a Sylvester block of order 2..32 (nearly parallel columns, cond_2 = 2^10 / 2^(E-6) / 2^E with "
            "E = 20..24, cond_inf <= 7e7; the larger two for double only); per event TLC decides Upper(R), bijectivity of P, apply_pivot on the integer input, Q R = P A and Q'Q = I exactly when the factors are dyadic, "
            "and judges ||Q'Q - I|| / (n eps cond), ||Q R - pivoted A|| / (n eps ||A||), |det_QR - prod diag R| / (n eps |prod|); all non-trivial")
    assumptions = [a for a in LinalgCheck.assumptions_common if "cond_inf(A) > 1e4" not in a] + [
        "domain of the orthogonality bound (the property's 'moderate limit'): measured cond_inf(A) <= 1e8 in double (eps cond <= 2.2e-8) and <= 1e4 in float; cases above are "
        "skipped and counted (Linalg!QRInDomain). The bound stays C n eps cond with C = 16 (largest ratio seen on the unchanged tree: 0.3); a Gram-Schmidt variant whose loss "
        "grows like eps cond^2 exceeds it on the ill-conditioned family (seeded change C13a)",
        "the library pre-pivots ROWS (Q R = P A); the property text says column-pivoted: the judge accepts Q R = P A or Q R = A Pi for the permutation that was returned",
        "determinant<DetCompType::QR> is judged against the product of R's diagonal only (it is |det A| up to rounding: Gram-Schmidt makes diag R positive)",
    ]
