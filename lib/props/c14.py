# C14 -- permute, permutation and transpose move every element to its permuted position
from pipeline import *
from c01 import CXX_T

PRELUDE = r'''
#include <Fastor/Fastor.h>
#include "vt.h"
using namespace Fastor;
template<class TensorT> __attribute__((noinline)) static void fill_pos(TensorT& A) {
    using T = typename TensorT::scalar_type;
    for (size_t q = 0; q < (size_t)A.size(); ++q) A.data()[q] = vt::from_int2<T>((int)q + 1, (int)(q % 7) - 3, vt::is_cx<T>());
    asm volatile("" : : "r"(A.data()) : "memory");
}
template<class TensorT> __attribute__((noinline)) static void fill_zero(TensorT& A) {
    using T = typename TensorT::scalar_type;
    for (size_t q = 0; q < (size_t)A.size(); ++q) A.data()[q] = T(0);
    asm volatile("" : : "r"(A.data()) : "memory");
}
template<class TA, class TR, class TB> static void log_perm(const char* id, const char* in_head, const TA& A, const TR& R, const TB& Bk) {
    vt::Ev ev("Permute"); ev.str("case", id);
    ev.s += ",\"in\":{"; ev.s += in_head;
    ev.arr("A", A.data(), (size_t)A.size());
    ev.s += "},\"out\":{\"shape\":[";
    for (size_t i = 0; i < (size_t)TR::dimension_t::value; ++i) { if (i) ev.s += ","; ev.s += std::to_string((long long)R.dimension(i)); }
    ev.s += "]";
    ev.arr("vals", R.data(), (size_t)R.size()).arr("back", Bk.data(), (size_t)Bk.size());
    ev.s += "}";
    ev.emit();
}
'''


def case_id(c):
    return "perm/%s/%s/%s/%s/%s" % (c["fn"], c["T"], c["arg"], "".join(str(p) for p in c["perm"]), "x".join(str(s) for s in c["shape"]))


class C14(Check):
    prop = "C14"
    trace_module = "TracePermute"
    trace_cfg = "TracePermute.cfg"
    rule = ("cases = states of GenPermute: every axis permutation of ranks 2..4 (quick; rank 5 in thorough) on shapes with pairwise "
            "distinct extents (multiples and non-multiples of the vector widths), for permute<> and the legacy permutation<>, tensor and "
            "unevaluated-expression arguments, four element types; transpose / trans / ctrans for every (M,N) in a box plus {16,17,31,32,33}; "
            "position-revealing data (A = flat index) so a misplaced element is visible deterministically; each case also applies the inverse "
            "permutation and must return A bit for bit; distinct = distinct (fn, perm, shape, type, arg)")
    assumptions = ["data are the flat indices 1..n (complex: with a small imaginary part), exact in every type",
                   "permutation<> is accepted with p or p^-1, the same choice for extents and elements (property text)",
                   "CONTRACT_OPT variants are exercised in the thorough tier only"]

    def configs(self, ctx):
        if ctx.tier == "quick":
            return list(QUICK_CFGS) + ["avx2-17-O2"]
        return ["%s-14-O2" % i for i in ALL_ISAS] + ["avx2-17-O2", "avx512-17-O2"] + ["avx2-14-O2+CONTRACT_OPT=%d" % k for k in (-1, 1, 2)]

    def plan(self, ctx):
        cfg = "GenPermute_%s.cfg" % ctx.tier
        items, gen, dist, out = tlc_emit(ctx, "GenPermute", cfg, env={"VERIF_SEED": str(ctx.seed)})
        if "No error has been found" not in out:
            raise ToolFailure("GenPermute failed: " + out[-1500:])
        ctx.mc_results.append({"module": "GenPermute", "cfg": cfg, "generated": gen, "distinct": dist, "ok": True, "wall_s": 0, "action_coverage": {}})
        for c in items:
            c["case"] = case_id(c)
        items.sort(key=lambda c: c["case"])
        return items

    def stmt(self, c):
        T = CXX_T[c["T"]]
        sh = c["shape"]
        p0 = [p - 1 for p in c["perm"]]
        inv0 = [p0.index(i) for i in range(len(p0))]
        osh = [sh[p] for p in p0]
        tA = "Tensor<%s,%s>" % (T, ",".join(map(str, sh)))
        # unevaluated expression argument: A + Z with Z = 0  (complex scalar * tensor evaluates to zero in this library -- a C02 defect, kept out of this check)
        arg = "A" if c["arg"] == "tensor" else "(A+Z)"
        fn = c["fn"]
        head = '\\"T\\":\\"%s\\",\\"fn\\":\\"%s\\",\\"arg\\":\\"%s\\",\\"perm\\":[%s],\\"shape\\":[%s]' % (
            c["T"], fn, c["arg"], ",".join(map(str, c["perm"])), ",".join(map(str, sh)))
        if fn in ("permute", "permutation"):
            idx = "Index<%s>" % ",".join(map(str, p0))
            iidx = "Index<%s>" % ",".join(map(str, inv0))
            body = "auto R = %s<%s>(%s); auto Bk = %s<%s>(R);" % (fn, idx, arg, "permute", iidx)
            if fn == "permutation":
                # the inverse of whatever convention permutation<> uses is permutation<> with the inverse index list
                body = "auto R = permutation<%s>(%s); auto Bk = permutation<%s>(R);" % (idx, arg, iidx)
        else:
            tR = "Tensor<%s,%d,%d>" % (T, sh[1], sh[0])
            body = "%s R = %s(%s); %s Bk = %s(R);" % (tR, fn, arg, tA, fn)
        return '    { %s A; fill_pos(A); %s Z; fill_zero(Z); %s log_perm("%s","%s",A,R,Bk); }' % (tA, tA, body, c["case"], head)

    def units(self, ctx, plan, cfgname):
        std17 = "-17-" in cfgname
        units, per = [], 60
        plan = sorted(plan, key=lambda c: (len(c["shape"]), c["case"]))
        for ci in range(0, len(plan), per):
            body = "\n".join(self.stmt(c) for c in plan[ci:ci + per])
            src = PRELUDE + "int main(int argc, char** argv) {\n    vt::open(argc, argv, \"%s\");\n    vt::install_handlers();\n%s\n    vt::close_ok();\n    return 0;\n}\n" % (cfgname, body)
            units.append(("pm_%03d" % (ci // per), src, []))
        return units

    def event_weight(self, ev):
        return 1 + len(ev.get("in", {}).get("A", []))
