# C15 -- multi-tensor einsum is independent of the contraction order the cost model picks
from pipeline import *
from c01 import CXX_T

PRELUDE = r'''
#include <Fastor/Fastor.h>
#include "vt.h"
using namespace Fastor;
template<class TensorT> __attribute__((noinline)) static void fill_r(TensorT& t, vt::Rng& r) {
    for (size_t i = 0; i < (size_t)t.size(); ++i) t.data()[i] = (typename TensorT::scalar_type)r.range(-3, 3);
    asm volatile("" : : "r"(t.data()) : "memory");
}
template<class R> static std::string shape_of(const R& r) {
    std::string o = "["; for (size_t i = 0; i < (size_t)R::dimension_t::value; ++i) { if (i) o += ","; o += std::to_string((long long)r.dimension(i)); } return o + "]";
}
template<class T> static std::string shape_of_scalar(const T&) { return "[]"; }
'''


def idx(ls):
    return "Index<%s>" % ",".join(str(x) for x in ls)


def tensor_t(T, sh):
    return "Tensor<%s,%s>" % (T, ",".join(map(str, sh)))


class C15(Check):
    prop = "C15"
    trace_module = "TraceNetwork"
    trace_cfg = "TraceNetwork.cfg"
    rule = ("cases = states of GenNetwork: every canonical index pattern of 3 operands of rank <= 2 (thorough: <= 3) on 5 labels with no label more "
            "than twice and at least one contraction, full contractions to a rank-0 result included (hash-sampled), sampled 4-operand patterns (rank-3-centred ones and three-legged stars included) and six 5-operand topologies, each with uniform "
            "extents (2 or 3: a wrongly ordered result keeps its static type) and with two distinct-extent assignments; double and int32; op-min on, "
            "and off / depth-first (FASTOR_DONT_PERFORM_OP_MIN, FASTOR_KEEP_DP_FIXED) as configurations; random small-integer data; the recorded "
            "extents and every element are compared by TLC with Einsum!Einstein; which_variant is recorded for the L2 order model. "
            "distinct = distinct (pattern, extents, type); all non-trivial")
    assumptions = ["small integer data: exact", "3-operand which_variant is read from the library's own cost model (triplet_flop_cost); "
                   "4-operand variants are not modelled at L2",
                   "the cost model (NetworkOrder!CostVariant, checked exhaustively by MC_NetworkCost) is bound to the code through the logged which_variant of "
                   "every 3-operand case: a disagreement is MODEL-DRIFT (reported in the notes), never a violation"]

    def post_events(self, ctx, traces):
        os.environ["NET_ORDERS"] = os.path.join(ROOT, "spec", "net_orders.json")      # read by TraceNetwork (Orders)
        return traces

    def extra_coverage(self, ctx):
        # tools/mk_net_orders.py: arrangements observed for the >= 4-operand networks of this run (recorded on the unchanged tree only)
        if os.environ.get("VERIF_RECORD_ORDERS"):
            # every network of >= 4 operands of this run is entered: an empty list means "laid out in the declared order on the unchanged tree"
            tab = {c["case"]: [] for c in getattr(self, "_plan", []) if len(c["labels"]) >= 4}
            for case, seqs in getattr(ctx, "order_lines", []):
                arrs = [[int(x) for x in re.findall(r"-?\d+", a)] for a in re.findall(r"<<([\d,\s]*)>>", seqs)]
                cur = tab.setdefault(case, [])
                for a in arrs:
                    if a and a not in cur:
                        cur.append(a)
            with open(os.environ["VERIF_RECORD_ORDERS"], "w") as f:
                json.dump(tab, f, indent=0, sort_keys=True)
        return {}

    def model_checks(self, ctx):
        model_check(ctx, "MC_NetworkOrder", "MC_NetworkOrder.cfg", workers=1)
        model_check(ctx, "MC_NetworkOrder", "MC_NetworkOrder_full.cfg", workers=1, expect_violation="OrderIndependent")
        # the transcription of the cost model (which_variant), bound to the code through the logged variant of every 3-operand case
        model_check(ctx, "MC_NetworkCost", "MC_NetworkCost.cfg" if ctx.tier == "quick" else "MC_NetworkCost_thorough.cfg", workers=4)
        apalache_check(ctx, "ArgMinUnbounded", "Inv")          # the selection rule itself, for arbitrary natural costs (SMT)

    def configs(self, ctx):
        base = list(QUICK_CFGS) + ["avx2-17-O2", "avx2-14-O2+FASTOR_DONT_PERFORM_OP_MIN", "avx2-14-O2+FASTOR_KEEP_DP_FIXED"]
        if ctx.tier == "quick":
            return base
        return ["%s-14-O2" % i for i in ALL_ISAS] + ["avx2-17-O2", "avx512-17-O2"] + base[4:]

    def allow_compile_fail(self):
        return True

    def plan(self, ctx):
        cfg = "GenNetwork_%s.cfg" % ctx.tier
        items, gen, dist, out = tlc_emit(ctx, "GenNetwork", cfg, env={"VERIF_SEED": str(ctx.seed)}, timeout=1500)
        if "No error has been found" not in out:
            raise ToolFailure("GenNetwork failed: " + out[-1500:])
        ctx.mc_results.append({"module": "GenNetwork", "cfg": cfg, "generated": gen, "distinct": dist, "ok": True, "wall_s": 0, "action_coverage": {}})
        for c in items:
            c["case"] = "net/%s/%s/%s" % (c["T"], c["mode"], ",".join("".join("ijklmnopq"[x - 1] for x in ls) for ls in c["labels"]))
        items.sort(key=lambda c: c["case"])
        self._plan = items
        return items

    def stmt(self, c):
        T = CXX_T[c["T"]]
        k = len(c["labels"])
        decl = " ".join("%s t%d; fill_r(t%d,r);" % (tensor_t(T, c["shapes"][i]), i, i) for i in range(k))
        call = "einsum<%s>(%s)" % (",".join(idx([x - 1 for x in ls]) for ls in c["labels"]), ",".join("t%d" % i for i in range(k)))
        if k == 3:
            var = "(int)triplet_flop_cost<%s,%s>::which_variant" % (
                ",".join(idx([x - 1 for x in ls]) for ls in c["labels"]), ",".join(tensor_t(T, sh) for sh in c["shapes"]))
        else:
            var = "-1"
        vals = "".join('vs += (vs.size() > 1 ? "," : ""); { vt::Ev t_("x"); t_.s.clear(); t_.arr("v", t%d.data(), (size_t)t%d.size()); vs += t_.s.substr(t_.s.find("[")); } ' % (i, i) for i in range(k))
        head = '\\"T\\":\\"%s\\",\\"labels\\":%s,\\"shapes\\":%s' % (c["T"], json.dumps(c["labels"], separators=(",", ":")), json.dumps(c["shapes"], separators=(",", ":")))
        return ('    { vt::g_cur_case = "%s"; vt::Rng r(vt::hash_str("%s")); %s auto R = %s; std::string vs = "["; %s vs += "]"; '
                'vt::Ev ev("NetEinsum"); ev.str("case","%s"); ev.s += ",\\"in\\":{%s,\\"vals\\":" + vs + "},\\"out\\":{\\"shape\\":" + shape_of(R); '
                'ev.arr("vals", R.data(), (size_t)R.size()).num("variant", VARIANT(%s)); ev.s += "}"; ev.emit(); }') % (
            c["case"], c["case"], decl, call, vals, c["case"], head, var)

    def units(self, ctx, plan, cfgname):
        # under FASTOR_DONT_PERFORM_OP_MIN the cost-model metafunctions do not exist: the variant is logged as -1
        pre = PRELUDE + ("#ifdef FASTOR_DONT_PERFORM_OP_MIN\n#define VARIANT(...) -1\n#else\n#define VARIANT(...) __VA_ARGS__\n#endif\n")
        units = []
        uni = [c for c in plan if c["mode"] in ("u2", "u3")]
        oth = [c for c in plan if c["mode"] not in ("u2", "u3")]
        for tag, group, per in (("u", uni, 12), ("d", oth, 4)):
            for ci in range(0, len(group), per):
                body = "\n".join(self.stmt(c) for c in group[ci:ci + per])
                src = pre + "int main(int argc, char** argv) {\n    vt::open(argc, argv, \"%s\");\n    vt::install_handlers();\n%s\n    vt::close_ok();\n    return 0;\n}\n" % (cfgname, body)
                units.append(("net_%s%03d" % (tag, ci // per), src, []))
        return units
