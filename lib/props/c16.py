# C16 -- reductions, predicates and scalar-valued functions agree with their definitions
import concurrent.futures as cf
from pipeline import *
from c01 import CXX_T

PRELUDE = r'''
#include <Fastor/Fastor.h>
#include "vt.h"
using namespace Fastor;
// operands are loaded through an opaque function so that the optimiser cannot fold the library call
template<class TensorT> __attribute__((noinline)) static void load(TensorT& X, const int* d) {
    using T = typename TensorT::scalar_type;
    for (size_t q = 0; q < (size_t)X.size(); ++q) X.data()[q] = (T)d[q];
    asm volatile("" : : "r"(X.data()) : "memory");
}
// q = round(v * 2^ls): scaling by a power of two is exact; the judge compares integers only
template<class T> static long long scaled(T v, int ls) {
    double w = std::ldexp((double)v, ls);
    if (!(w == w) || std::fabs(w) >= 1e9) return vt::BADV;
    return std::llround(w);
}
struct Rec {
    vt::Ev ev;
    Rec(const char* id, const char* head) : ev("Reduce") { vt::g_cur_case = id; ev.str("case", id); ev.s += ",\"in\":{"; ev.s += head; }
    template<class T> Rec& in(const char* k, const T* p, size_t n) { ev.arr(k, p, n); return *this; }
    Rec& none(const char* k) { ev.key(k); ev.s += "[]"; return *this; }
    template<class T> void out1(const T& r) { ev.s += "},\"out\":{\"r\":["; vt::put_val(ev.s, r); ev.s += "]}"; ev.emit(); }
    template<class T> void outv(const T* p, size_t n) { ev.s += "},\"out\":{\"x\":0"; ev.arr("r", p, n); ev.s += "}"; ev.emit(); }
    template<class T> void out_norm(const T& r) {
        ev.s += "},\"out\":{\"r\":["; vt::put_val(ev.s, r); ev.s += "],\"q\":" + std::to_string(scaled(r, 10)) + "}"; ev.emit(); }
    template<class T> void out_q(const T& r, int ls) { ev.s += "},\"out\":{\"q\":" + std::to_string(scaled(r, ls)) + "}"; ev.emit(); }
};
'''

CXX = dict(CXX_T)
CXX["b"] = "bool"
CMP = {"gt": ">", "lt": "<", "ge": ">=", "le": "<=", "eq": "==", "ne": "!="}
FAMS = ["fold", "pred", "iseq", "inner", "trace", "issym", "isorth", "det"]
# translation-unit groups: a TU holds one group and one element type, so that a form that does not compile in one
# configuration costs exactly those cases and is reported with a narrow CompileFail signature (unit name = group_T_nn).
# min/max and product have their own units: min/max of doubles under AVX-512 (D5) and product of int32 under AVX2 (D18)
# did not compile before they were repaired
GROUP = {"sum": "lin", "product": "product", "min": "minmax", "max": "minmax", "norm": "lin", "inner": "lin",
         "inner1": "lin", "trace": "lin", "trace_b": "lin", "all_of": "bool", "any_of": "bool", "none_of": "bool",
         "isequal": "bool", "issymmetric": "bool", "isorthogonal": "bool", "det_b": "det_simple"}
PAD_L, PAD_R = [777, -777], [777]          # cells of the view's parent outside the viewed window


def case_id(c):
    parts = [c["fn"], c["T"], c["arg"], "x".join(map(str, c["shape"])), c["sign"]]
    if c["fam"] == "det":
        parts += [c["strat"], "d%d" % c["pos"]]
    elif c["pos"]:
        parts.append("p%d" % c["pos"])
    if c["fam"] == "pred":
        parts.append(c["op"])
    return "red/" + "/".join(parts)


def group_of(c):
    if c["fn"] in ("determinant", "det"):
        return "det_" + c["strat"]
    return GROUP[c["fn"]]


def det_exact(c):
    return c["fn"] == "det_b" or (c["strat"] == "simple" and c["shape"][-1] <= 4)


class C16(Check):
    prop = "C16"
    trace_module = "TraceReduce"
    trace_cfg = "TraceReduce.cfg"
    rule = ("cases = states of GenReduce (TLC enumerates them with their integer data and checks the exactness preconditions and the fold "
            "theorems on each): sum / product / min / max / norm for every rank-1 size 1..35 and four rank-2/3 shapes x {f64,f32,i32,i64} with "
            "sign patterns all-positive, all-negative, mixed, single extreme element at the first / last / vector-boundary positions (every "
            "position in the thorough tier) and tensor, lazy a+b, seq/fseq view and member-function arguments; inner, trace, batch trace, "
            "one-argument inner; all_of / any_of / none_of over comparisons (six operators, scalar, expression and tensor right-hand sides) "
            "and bool tensors with all-true, all-false, one-true, one-false, mixed inputs; isequal / issymmetric / isorthogonal on exact "
            "inputs and their one-element near misses; determinant for every DetCompType (Simple, LU, QR), tensor and lazy arguments, the "
            "det() alias and the batch form, sizes 1..6 (8 thorough).  distinct = distinct (fn, T, argument kind, shape, pattern, position, data)")
    assumptions = ["operand data are small integers, exactly representable in every element type; every partial result of every evaluation "
                   "order stays below 2^24 (GenReduce invariant ExactPre), so exact equality is demanded of sum/product/min/max/inner/trace, "
                   "the closed-form determinants (n <= 4) and the predicates",
                   "norm is judged by the integer bracket (q-1)^2 <= 2^20 * sum x^2 <= (q+1)^2 on q = round(1024*norm) (sum x^2 <= 2047, the bracket "
                   "pins sum x^2 exactly) and exactly when sum x^2 is a perfect square",
                   "determinants through LU / QR (and Simple for n > 4, which dispatches to LU) are judged within 16*n*eps*kappa*|det| of the exact "
                   "Bareiss value on strictly diagonally dominant integer matrices (optionally with the last two rows exchanged), float and double only",
                   "norm of integer tensors, LU/QR determinants of integer tensors and determinant(Tensor<T,1,1>) (no kernel, does not compile) are outside the domain",
                   "a translation unit that fails to compile in one configuration is judged as a rejection of its cases (CompileFail event)"]

    def configs(self, ctx):
        if ctx.tier == "quick":
            return list(QUICK_CFGS)
        return ["%s-14-O2" % i for i in ALL_ISAS] + ["avx2-17-O2", "avx512-17-O2"]

    def allow_compile_fail(self):
        return True

    # ---- L2 design model (vector accumulators + scalar tail + horizontal step; norm ladder): exhaustive bounded TLC check that it
    # refines the L1 folds with neutral seeds and absorbs any other seed.  Runs in the background while the plan is generated and built.
    def model_checks(self, ctx):
        import threading
        self._mc_err = None

        def run():
            try:
                model_check(ctx, "MC_ReduceDesign", "MC_ReduceDesign.cfg" if ctx.tier == "quick" else "MC_ReduceDesign_thorough.cfg", workers=2)
            except Exception as e:          # re-raised in the main thread
                self._mc_err = e
        self._mc_thread = threading.Thread(target=run)
        self._mc_thread.start()

    def post_events(self, ctx, traces):
        if getattr(self, "_mc_thread", None) is None:       # model checks switched off by the caller (C06 re-uses the corpus)
            return traces
        self._mc_thread.join()
        if self._mc_err:
            raise self._mc_err
        return traces

    # ---- plan: the families of GenReduce run as parallel TLC processes --------------------------------------------
    def plan(self, ctx):
        cfg = "GenReduce_%s.cfg" % ctx.tier

        def one(fam):
            t = time.time()
            rc, out = run_tlc("GenReduce.tla", cfg, ctx.path("meta", "gen_" + fam), workers=1, heap="3g", timeout=1200,
                              env={"VERIF_SEED": str(ctx.seed), "VERIF_FAM": fam})
            if "No error has been found" not in out:
                with open(ctx.path("gen_fail_%s.log" % fam), "w") as f:
                    f.write(out)
                raise ToolFailure("GenReduce[%s] failed: %s" % (fam, "\n".join(l for l in out.splitlines() if not l.startswith('<<"PLAN"'))[-1500:]))
            items = []
            for line in out.splitlines():
                m = re.match(r'<<"PLAN", "(.*)">>\s*$', line)
                if m:
                    items.append(json.loads(m.group(1).replace('\\"', '"').replace('\\\\', '\\')))
            gen, dist = parse_states(out)
            return fam, items, gen, dist, round(time.time() - t, 1)

        plan = []
        with cf.ThreadPoolExecutor(max_workers=len(FAMS)) as ex:
            for fam, items, gen, dist, wall in ex.map(one, FAMS):
                ctx.mc_results.append({"module": "GenReduce[%s]" % fam, "cfg": cfg, "generated": gen, "distinct": dist, "ok": True,
                                       "wall_s": wall, "action_coverage": {}})
                plan += items
        seen = {}
        for c in plan:
            c["case"] = case_id(c)
            if c["case"] in seen:          # two headers of the hashed strata may coincide; the data are a function of the header
                continue
            seen[c["case"]] = c
        plan = sorted(seen.values(), key=lambda c: c["case"])
        fams = {}
        for c in plan:
            fams[c["fam"]] = fams.get(c["fam"], 0) + 1
        ctx.notes.append("plan by family: " + ", ".join("%s=%d" % kv for kv in sorted(fams.items())))
        if ctx.replay and ctx.replay["case"].startswith("unit/"):
            # a CompileFail event names a translation unit, not a case: replay = rebuild that TU (pseudo-case "unit" passes the driver's filter)
            want = ctx.replay["case"][len("unit/"):]
            for name, cs in self.partition(plan):
                if name == want:
                    return [{"case": "unit", "fam": "unit", "unit": name, "members": cs}]
            raise ToolFailure("replay unit %s is not in the plan" % want)
        return plan

    # ---- code generation ------------------------------------------------------------------------------------------
    def stmt(self, c):
        T = CXX[c["T"]]
        sh = c["shape"]
        n = 1
        for d in sh:
            n *= d
        TT = "Tensor<%s,%s>" % (T, ",".join(map(str, sh)))
        arg, fn = c["arg"], c["fn"]
        L = []
        logs = []
        isview = arg in ("view", "fview")
        for name in "ABCD":
            d = c[name]
            if not d:
                logs.append('.none("%s")' % name)
                continue
            if isview and name == "A":
                L.append("static const int dA[] = {%s}; Tensor<%s,%d> PA; load(PA, dA);" % (",".join(map(str, PAD_L + d + PAD_R)), T, n + len(PAD_L) + len(PAD_R)))
                logs.append('.in("A", PA.data() + %d, %d)' % (len(PAD_L), n))
            else:
                L.append("static const int d%s[] = {%s}; %s %s; load(%s, d%s);" % (name, ",".join(map(str, d)), TT, name, name, name))
                logs.append('.in("%s", %s.data(), %d)' % (name, name, n))
        if arg in ("tensor", "member", "bool", "cmp_s", "cmp_tt", "tt", "te"):
            e1 = "A"
        elif arg in ("expr", "cmp_es", "et", "ee"):
            e1 = "(A+B)"
        elif arg == "view":
            e1 = "PA(seq(%d,%d))" % (len(PAD_L), len(PAD_L) + n)
        elif arg == "fview":
            e1 = "PA(fseq<%d,%d>())" % (len(PAD_L), len(PAD_L) + n)
        else:
            raise ToolFailure("unknown arg kind " + arg)
        e2 = "(C+D)" if arg in ("te", "ee") else "C"
        out = "rc.out1(r);"
        if c["fam"] == "pred":
            if arg == "bool":
                b = "A"
            elif arg == "cmp_tt":
                b = "(A %s C)" % CMP[c["op"]]
            else:
                b = "(%s %s (%s)%d)" % (e1, CMP[c["op"]], T, c["thr"])
            call = "bool r = %s(%s);" % (fn, b)
        elif fn in ("sum", "product") and arg == "member":
            call = "auto r = A.%s();" % fn
        elif fn in ("sum", "product", "min", "max", "trace", "issymmetric", "isorthogonal"):
            call = "auto r = %s(%s);" % (fn, e1)
        elif fn == "norm":
            call = "auto r = norm(%s);" % e1
            out = "rc.out_norm(r);"
        elif fn == "inner1":
            call = "auto r = inner(%s);" % e1
        elif fn in ("inner", "isequal"):
            call = "auto r = %s(%s,%s);" % (fn, e1, e2)
        elif fn in ("trace_b", "det_b"):
            call = "auto r = %s(A);" % ("trace" if fn == "trace_b" else "determinant")
            out = "rc.outv(r.data(), (size_t)r.size());"
        elif fn in ("determinant", "det"):
            strat = {"simple": "", "lu": "<DetCompType::LU>", "qr": "<DetCompType::QR>"}[c["strat"]]
            call = "auto r = %s%s(%s);" % (fn, strat, e1)
            if not det_exact(c):
                out = "rc.out_q(r, %d);" % c["ls"]
        else:
            raise ToolFailure("unknown fn " + fn)
        head = {k: c[k] for k in ("fn", "T", "arg", "shape", "sign", "pos", "op", "strat", "ls", "thr")}
        hs = json.dumps(head, separators=(",", ":"))[1:-1].replace('"', '\\"')
        return '    { %s\n      Rec rc("%s", "%s"); %s\n      rc%s; %s }' % (" ".join(L), c["case"], hs, call, "".join(logs), out)

    def partition(self, plan):
        """-> [(unit name, [cases])]: one group and one element type per TU, equal chunks of at most `cap` cases."""
        groups = {}
        for c in plan:
            groups.setdefault((group_of(c), "f64" if c["T"] == "b" else c["T"]), []).append(c)      # bool tensors ride with the f64 predicates
        parts = []
        for (g, T), cs in sorted(groups.items()):
            cap = 24 if g.startswith("det_") else 80           # factorisation-based determinants are the expensive instantiations
            cs = sorted(cs, key=lambda c: c["case"])
            per = -(-len(cs) // -(-len(cs) // cap))              # equal chunks of at most `cap` cases
            for ci in range(0, len(cs), per):
                parts.append(("%s_%s_%02d" % (g, T, ci // per), cs[ci:ci + per]))
        return parts

    def units(self, ctx, plan, cfgname):
        if len(plan) == 1 and plan[0].get("fam") == "unit":     # replay of a CompileFail event: rebuild exactly that TU
            parts = [(plan[0]["unit"], plan[0]["members"])]
        else:
            parts = self.partition(plan)
        units = []
        for name, cs in parts:
            body = "\n".join(self.stmt(c) for c in cs)
            src = PRELUDE + "int main(int argc, char** argv) {\n    vt::open(argc, argv, \"%s\");\n    vt::install_handlers();\n%s\n    vt::close_ok();\n    return 0;\n}\n" % (cfgname, body)
            units.append((name, src, []))
        return units

    def event_weight(self, ev):
        return 1 + len(ev.get("in", {}).get("A", []))

    def extra_coverage(self, ctx):
        return {"note": "exact integer judgement (lists in out.r) and scaled-integer brackets (out.q); see assumptions"}
