# C17 -- triangular matrix product equals the general product of triangular operands
from pipeline import *
from c01 import CXX_T

PRELUDE = r'''
#include <Fastor/Fastor.h>
#include "vt.h"
using namespace Fastor;
#if defined(FASTOR_AVX2_IMPL) || defined(FASTOR_HAS_AVX512_MASKS)
#define VT_SIMDMASK 1
#else
#define VT_SIMDMASK 0
#endif
template<class U> struct tag_id;
template<> struct tag_id<UpLoType::General> { static const int v = 0; static const char* s() { return "General"; } };
template<> struct tag_id<UpLoType::Lower>   { static const int v = 1; static const char* s() { return "Lower"; } };
template<> struct tag_id<UpLoType::Upper>   { static const int v = 2; static const char* s() { return "Upper"; } };

// operand = small random integers on the tagged triangle (cut by the main diagonal, also for trapezoidal shapes), zero outside.
// draw 0: [-9,9]; draw 1: [1,5] (all positive and non-zero on the triangle: every lost term of a sum changes the result)
template<class T> __attribute__((noinline)) static void fill_tri(T* p, size_t rows, size_t cols, int tag, int draw, vt::Rng& r) {
    for (size_t i = 0; i < rows; ++i) for (size_t j = 0; j < cols; ++j) {
        int a = draw == 0 ? r.range(-9, 9) : r.range(1, 5);
        int b = vt::is_cx<T>::value ? (draw == 0 ? r.range(-9, 9) : r.range(1, 5)) : 0;
        bool in = tag == 0 || (tag == 1 && j <= i) || (tag == 2 && j >= i);
        p[i * cols + j] = in ? vt::from_int2<T>(a, b, vt::is_cx<T>()) : T(0);
    }
    asm volatile("" : : "r"(p) : "memory");
}
template<class T> __attribute__((noinline)) static void fill_const(T* p, size_t n, T v) {
    for (size_t i = 0; i < n; ++i) p[i] = v;
    asm volatile("" : : "r"(p) : "memory");
}

// FORM: 0 api  C = tmatmul<L,R>(A,B);  1 expr_l (A+0,B);  2 expr_r (A,B+0);  3 expr_lr (A+0,B+0);  4 backend _tmatmul(a,b,out)
template<class L, class R, class TC, class TA, class TB> static void apply_form(std::integral_constant<int,0>, TC& D, const TA& A, const TB& B, const TA&, const TB&) { D = tmatmul<L,R>(A, B); }
template<class L, class R, class TC, class TA, class TB> static void apply_form(std::integral_constant<int,1>, TC& D, const TA& A, const TB& B, const TA& ZA, const TB&) { D = tmatmul<L,R>(A + ZA, B); }
template<class L, class R, class TC, class TA, class TB> static void apply_form(std::integral_constant<int,2>, TC& D, const TA& A, const TB& B, const TA&, const TB& ZB) { D = tmatmul<L,R>(A, B + ZB); }
template<class L, class R, class TC, class TA, class TB> static void apply_form(std::integral_constant<int,3>, TC& D, const TA& A, const TB& B, const TA& ZA, const TB& ZB) { D = tmatmul<L,R>(A + ZA, B + ZB); }

// API forms: the returned tensor is assigned to a sentinel-filled tensor bracketed by guard cells
template<class T, size_t M, size_t K, size_t N, class L, class R, class TC, int FORM, class TA, class TB>
static void run_form(std::integral_constant<int,FORM> f, const TA& A, const TB& B, std::vector<T>& blk) {
    TA ZA; TB ZB;
    fill_const(ZA.data(), (size_t)ZA.size(), T(0)); fill_const(ZB.data(), (size_t)ZB.size(), T(0));
    struct { T g0[16]; TC D; T g1[16]; } bx;
    for (int i = 0; i < 16; ++i) { bx.g0[i] = vt::Guarded<T>::sentinel(); bx.g1[i] = vt::Guarded<T>::sentinel(); }
    fill_const(bx.D.data(), M * N, vt::Guarded<T>::sentinel());
    apply_form<L,R>(f, bx.D, A, B, ZA, ZB);
    for (int i = 12; i < 16; ++i) blk.push_back(bx.g0[i]);
    for (size_t i = 0; i < M * N; ++i) blk.push_back(bx.D.data()[i]);
    for (int i = 0; i < 4; ++i) blk.push_back(bx.g1[i]);
}
// backend form: the kernel entry the API forwards to writes straight into a sentinel-filled buffer whose guard cells
// touch the M*N result on both sides (a cell that is not written keeps the sentinel; an overrun hits a guard)
template<class T, size_t M, size_t K, size_t N, class L, class R, class TC, class TA, class TB>
static void run_form(std::integral_constant<int,4>, const TA& A, const TB& B, std::vector<T>& blk) {
    alignas(64) T buf[16 + M * N + 16];
    fill_const(buf, 16 + M * N + 16, vt::Guarded<T>::sentinel());
    _tmatmul<T,M,K,N,L,R>(A.data(), B.data(), buf + 16);
    asm volatile("" : : "r"(buf) : "memory");
    for (size_t i = 12; i < 16 + M * N + 4; ++i) blk.push_back(buf[i]);
}

// KIND: 0 matrix-matrix, 1 matrix-vector (B rank 1, N == 1), 2 vector-matrix (A rank 1, M == 1)
template<class T, size_t M, size_t K, size_t N, class L, class R, int KIND, int FORM>
static void tm_case(const char* id, const char* form, const char* kind) {
    using TA = typename std::conditional<KIND == 2, Tensor<T,K>, Tensor<T,M,K>>::type;
    using TB = typename std::conditional<KIND == 1, Tensor<T,K>, Tensor<T,K,N>>::type;
    using TC = typename std::conditional<KIND == 1, Tensor<T,M>, typename std::conditional<KIND == 2, Tensor<T,N>, Tensor<T,M,N>>::type>::type;
    for (int draw = 0; draw < 2; ++draw) {
        std::string cid = std::string(id) + "/d" + std::to_string(draw);
        vt::g_cur_case = cid.c_str();
        vt::Rng r(vt::hash_str(cid.c_str()));
        TA A; TB B;
        fill_tri(A.data(), M, K, tag_id<L>::v, draw, r);
        fill_tri(B.data(), K, N, tag_id<R>::v, draw, r);
        std::vector<T> blk;
        // the recorded inputs are the operands as they were BEFORE the call; "opsame" reports whether the call left them unchanged
        const std::vector<T> a0(A.data(), A.data() + M * K), b0(B.data(), B.data() + K * N);
        run_form<T,M,K,N,L,R,TC>(std::integral_constant<int,FORM>(), A, B, blk);
        const int opsame = std::equal(a0.begin(), a0.end(), A.data()) && std::equal(b0.begin(), b0.end(), B.data());
        vt::Ev ev("Tmatmul");
        ev.str("case", cid);
        ev.s += ",\"in\":{\"T\":\""; ev.s += vt::tag<T>::s(); ev.s += "\"";
        ev.str("form", form).str("kind", kind).str("lt", tag_id<L>::s()).str("rt", tag_id<R>::s()).num("M", M).num("K", K).num("N", N);
        ev.arr("A", a0.data(), M * K).arr("B", b0.data(), K * N);
        ev.s += "},\"out\":{\"x\":0";
        ev.num("opsame", opsame);
        ev.arr("blk", blk.data(), blk.size());
        ev.s += "}";
        ev.emit();
    }
}

// L2 binding: constexpr values of internal::find_kfirst / find_klast over the whole (i,j) grid for one (uo,ui) pair
template<size_t K, size_t UO, size_t UI, class L, class R>
static void clip_tab(std::string& s, size_t M, size_t N) {
    if (!s.empty()) s += ",";
    s += "{\"uo\":" + std::to_string(UO) + ",\"ui\":" + std::to_string(UI) + ",\"kf\":[";
    for (size_t i = 0; i < M; ++i) for (size_t j = 0; j < N; ++j) { if (i + j) s += ","; s += std::to_string((long long)internal::find_kfirst<size_t,K,UO,UI,L,R>(i, j)); }
    s += "],\"kl\":[";
    for (size_t i = 0; i < M; ++i) for (size_t j = 0; j < N; ++j) { if (i + j) s += ","; s += std::to_string((long long)internal::find_klast<size_t,K,UO,UI,L,R>(i, j)); }
    s += "]}";
}
template<class T, size_t N> struct best_size { static long long v() { return (long long)choose_best_simd_t<SIMDVector<T,DEFAULT_ABI>,N>::Size; } };
template<class T, size_t N> struct best_size<std::complex<T>,N> { static long long v() { return 0; } };
template<class T, size_t N, class L, class R>
static void meta_clip(const char* id, size_t M, size_t K, const std::string& tabs) {
    vt::Ev ev("Meta");
    ev.str("case", id);
    ev.s += ",\"in\":{\"k\":\"clip\",\"T\":\""; ev.s += vt::tag<T>::s(); ev.s += "\"";
    ev.str("lt", tag_id<L>::s()).str("rt", tag_id<R>::s()).num("M", M).num("K", K).num("N", N);
    ev.s += "},\"out\":{\"V\":" + std::to_string(best_size<T,N>::v()) + ",\"simdmask\":" + std::to_string(VT_SIMDMASK) + ",\"clips\":[" + tabs + "]}";
    ev.emit();
}
'''

FORM_ID = {"api": 0, "expr_l": 1, "expr_r": 2, "expr_lr": 3, "backend": 4}
KIND_ID = {"mm": 0, "mv": 1, "vm": 2}
CXX_TAG = {"General": "UpLoType::General", "Lower": "UpLoType::Lower", "Upper": "UpLoType::Upper"}


def case_id(c):
    return "tm/%s/%s/%s/%s%s/%dx%dx%d" % (c["kind"], c["T"], c["form"], c["lt"][0], c["rt"][0], c["M"], c["K"], c["N"])


def meta_key(c):
    return (c["T"], c["lt"], c["rt"], c["M"], c["K"], c["N"])


def in_triangle(tag, r, col):
    return tag == "General" or (tag == "Lower" and col <= r) or (tag == "Upper" and col >= r)


class C17(Check):
    prop = "C17"
    trace_module = "TraceTmatmul"
    trace_cfg = "TraceTmatmul.cfg"
    rule = ("cases = states of GenTmatmul: (M,K,N) box (trapezoidal shapes included) x all 9 tag pairs, hash-sampled, with element type "
            "(f64 f32 i32 i64, 1 in 11 complex<double>), call form (by-value API, backend entry into a sentinel-filled guarded destination, "
            "expression-argument overloads) and kind (matrix-matrix, matrix-vector, vector-matrix) rotating with the hash; plus strata chosen "
            "with the L2 model: edges {16,17,24,25}, wide-vector remainders, shapes that reach the CLIPPED blocks of the masked kernel under "
            "AVX2/AVX-512, and three-vector column blocks; TLC asserts that the plan reaches every clipped block class of both kernels for "
            "sse2/avx2/avx512.  Each case runs on 2 data draws (random [-9,9]; all-positive [1,5] on the triangle, so a lost term cannot cancel). "
            "distinct = distinct (case, data) inputs; every one is non-trivial (the whole guarded M x N block is compared)")
    assumptions = ["operand data are small integers (exact in every element type; sums stay below 2^24), so exact equality with the TLC-computed product is sound for any summation order / FMA / ISA",
                   "operands are zero outside the tagged triangle (the property's precondition); the judge re-checks it on the logged operands and prints DOMAIN instead of rejecting",
                   "tmatmul returns by value: for the API forms 'every element written' is observed on the assigned copy; the backend entry _tmatmul (what the API forwards to) is also run on a sentinel-filled destination with adjacent guard cells",
                   "L2 model TmatmulClip is bound by Meta events (constexpr find_kfirst/find_klast tables, chosen vector width); the block structure itself (which block is clipped with which unroll pair) is a transcription, not observed: mismatches there would only show as DRIFT or as missing coverage, never as a false alarm",
                   "default block sizes only (FASTOR_MATMUL_OUTER/INNER_BLOCK_SIZE not set)"]

    def configs(self, ctx):
        if ctx.tier == "quick":
            return list(QUICK_CFGS)
        # every ISA under C++14, and the three natively distinct vector widths again under C++17 (if-constexpr dispatch in _tmatmul)
        return ["%s-14-O2" % i for i in ALL_ISAS] + ["%s-17-O2" % i for i in ("sse2", "avx2", "avx512")]

    def model_checks(self, ctx):
        model_check(ctx, "MC_TmatmulClip", "MC_TmatmulClip_%s.cfg" % ctx.tier, timeout=2400)
        # unbounded companion (Apalache / SMT, ~4 s): for every block origin, block extents, K and tag pair the clipped k range contains
        # every structurally non-zero term of every cell of the block (the model-level form of seeded change C17a is refuted by it)
        apalache_check(ctx, "ClipUnbounded", "Inv")

    def plan(self, ctx):
        cfg = "GenTmatmul_%s.cfg" % ctx.tier
        items, gen, dist, out = tlc_emit(ctx, "GenTmatmul", cfg, env={"VERIF_SEED": str(ctx.seed)}, timeout=1800)
        if "No error has been found" not in out:
            raise ToolFailure("GenTmatmul: spec-level obligation failed or generator error: " + out[-1500:])
        ctx.mc_results.append({"module": "GenTmatmul", "cfg": cfg, "generated": gen, "distinct": dist, "ok": True, "wall_s": 0,
                               "action_coverage": {}})
        seen = {}
        for c in items:
            c["case"] = case_id(c)
            if c["case"] in seen:
                raise ToolFailure("duplicate case id " + c["case"])
            seen[c["case"]] = 1
        items.sort(key=lambda c: c["case"])
        self.classes, self.routes, self.strata, self.tagpairs = {}, {}, {}, {}
        for c in items:
            self.strata[c["stratum"]] = self.strata.get(c["stratum"], 0) + 1
            tp = c["lt"][0] + c["rt"][0]
            self.tagpairs[tp] = self.tagpairs.get(tp, 0) + 1
            for isa, cl in c["classes"].items():
                d = self.classes.setdefault(isa, {})
                for k in cl:
                    d[k] = d.get(k, 0) + 1
            for isa, r in c["routes"].items():
                d = self.routes.setdefault(isa, {})
                d[r] = d.get(r, 0) + 1
        return items

    def stmt(self, c, isa, with_meta):
        T = CXX_T[c["T"]]
        L, R = CXX_TAG[c["lt"]], CXX_TAG[c["rt"]]
        s = '    tm_case<%s,%d,%d,%d,%s,%s,%d,%d>("%s","%s","%s");' % (
            T, c["M"], c["K"], c["N"], L, R, KIND_ID[c["kind"]], FORM_ID[c["form"]], c["case"], c["form"], c["kind"])
        if with_meta:
            tabs = "".join(" clip_tab<%d,%d,%d,%s,%s>(t,%d,%d);" % (c["K"], uo, ui, L, R, c["M"], c["N"]) for (uo, ui) in c["clips"][isa])
            s += '\n    { std::string t;%s meta_clip<%s,%d,%s,%s>("meta/clip/%s/%s%s/%dx%dx%d",%d,%d,t); }' % (
                tabs, T, c["N"], L, R, c["T"], c["lt"][0], c["rt"][0], c["M"], c["K"], c["N"], c["M"], c["K"])
        return s

    def units(self, ctx, plan, cfgname):
        isa = cfgname.split("-")[0]
        plan = sorted(plan, key=lambda c: (c["M"] * c["N"] * c["K"], c["case"]))
        per, units, seen = 60, [], set()
        # interleave sizes so that every TU gets a similar mix (compile time grows with the unrolled shapes)
        nch = max(1, (len(plan) + per - 1) // per)
        for ci in range(nch):
            body = []
            for c in plan[ci::nch]:
                k = meta_key(c)
                body.append(self.stmt(c, isa, k not in seen))
                seen.add(k)
            src = PRELUDE + "int main(int argc, char** argv) {\n    vt::open(argc, argv, \"%s\");\n    vt::install_handlers();\n" % cfgname
            src += "\n".join(body) + "\n    vt::close_ok();\n    return 0;\n}\n"
            units.append(("tm_%03d" % ci, src, []))
        return units

    def post_events(self, ctx, traces):
        # harness sanity (NOT a verdict): the operands the harness built must keep the promise of their tags, otherwise the judge
        # would print DOMAIN for every event and the check would be vacuous -- that is a broken harness, i.e. a tool failure
        for cfgname, evs in traces.items():
            for e in evs:
                if e.get("e") != "Tmatmul":
                    continue
                x = e["in"]
                for (name, rows, cols, tag) in (("A", x["M"], x["K"], x["lt"]), ("B", x["K"], x["N"], x["rt"])):
                    v = x[name]
                    if len(v) != rows * cols:
                        raise ToolFailure("harness bug: operand %s of %s has %d elements" % (name, e["case"], len(v)))
                    for p, a in enumerate(v):
                        if not in_triangle(tag, p // cols, p % cols) and a not in (0, [0, 0]):
                            raise ToolFailure("harness bug: operand %s of %s is not %s" % (name, e["case"], tag))
        return traces

    def event_weight(self, ev):
        i = ev.get("in", {})
        return 1 + i.get("M", 1) * i.get("K", 1) * i.get("N", 1) if ev["e"] == "Tmatmul" else 1 + i.get("M", 1) * i.get("N", 1)

    def nontrivial(self, ev):
        return ev["e"] == "Tmatmul"

    def sample(self, ev):
        s = json.dumps(ev, separators=(",", ":"))
        return json.loads(s) if len(s) < 3000 else {"e": ev.get("e"), "case": ev.get("case"), "truncated": s[:1200]}

    def extra_coverage(self, ctx):
        return {"l2_block_classes_per_isa": getattr(self, "classes", {}), "l2_kernel_per_isa": getattr(self, "routes", {}),
                "strata": getattr(self, "strata", {}), "tag_pairs": getattr(self, "tagpairs", {})}
