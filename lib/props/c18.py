# C18 -- overlapping slice assignment with noalias() acts on a snapshot of the source
from views_common import *


class C18(ViewsCheck):
    prop = "C18"
    mode = "alias"
    gen_cfg = "GenViews_alias.cfg"
    types_quick = ["f64", "f32", "i32", "c64"]
    types_thorough = ["f64", "f32", "i32", "i64", "c64"]     # complex<float> strided views compile in no configuration: not offered
    rule = ("behaviours = `tlc -generate` walks of GenViews (Mode=alias): destination and source slices drawn from the SAME buffer "
            "(shifted, interleaved strides, partial and perfect overlap, ranks 1-4, dynamic and compile-time destinations), with noalias() "
            "for arbitrary overlap and without it only for identical or disjoint selections (the property's domain, checked by the generator "
            "on the current memory); TLC judges every step with the snapshot semantics TensorMachine!AssignSel (right-hand side evaluated on "
            "the pre-state); non-trivial = write events whose source overlaps the destination")
    assumptions = ["values are small integers, exact in every element type",
                   "view-object reuse is exercised as pairs of consecutive assignments through one view object (SliceWrite2)"]

    def configs(self, ctx):
        if ctx.tier == "quick":
            return list(QUICK_CFGS) + ["avx2-14-O2+FASTOR_USE_VECTORISED_EXPR_ASSIGN"]
        return ["%s-14-O2" % i for i in ALL_ISAS] + ["avx2-17-O2"] + ["%s-14-O2+FASTOR_USE_VECTORISED_EXPR_ASSIGN" % i for i in ("sse2", "avx2", "avx512")]

    def nontrivial(self, ev):
        if ev["e"] == "SliceWrite2":
            return True
        if ev["e"] != "SliceWrite":
            return False
        rhs = ev["in"].get("rhs", {})
        return rhs.get("buf") == ev["in"].get("buf")
