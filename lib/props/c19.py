# C19 -- index-tensor and boolean-mask views select and update exactly the indexed items
from views_common import *


class C19(ViewsCheck):
    prop = "C19"
    mode = "index"
    gen_cfg = "GenViews_index.cfg"
    exh_kind = "index"
    types_thorough = ["f64", "f32", "i32", "i64"]
    rule = ("behaviours = `tlc -generate` walks of GenViews (Mode=index): index-tensor views in every overload form (one flat-offset index "
            "tensor on parents of rank 1-4; per-axis index tensors; index tensor x integer / x fseq on rank 2), index element types int, "
            "int64, size_t, reads with repeated / unsorted indices, writes with duplicate-free indices (all five operators except /=, scalar / "
            "tensor / index-view right-hand sides, noalias() when the source is an index view of the same buffer), and boolean masks of "
            "random density over every buffer; the whole guarded parent block is validated after each call; "
            "non-trivial = IndexRead / IndexWrite / MaskWrite events")
    assumptions = ["values are small integers, exact in every element type",
                   "writes use duplicate-free index tensors (the property's precondition)",
                   "thorough tier: every index vector of length <= 3 over rank-1 parents of extent <= 5 (295, enumerated and checked by TLC in GenIndexVecs), read, and written when duplicate-free; otherwise seeded random lengths 1..24"]

    def nontrivial(self, ev):
        return ev["e"] in ("IndexRead", "IndexWrite", "MaskWrite")
