# C20 -- wrapped/reshaped tensors are true aliases; layout conversions are exact inverses
from views_common import *


class C20(ViewsCheck):
    prop = "C20"
    mode = "maps"
    gen_cfg = "GenViews_maps.cfg"
    types_thorough = ["f64", "f32", "i32", "i64"]
    rule = ("behaviours = `tlc -generate` walks of GenViews (Mode=maps): calls applied alternately through the owning tensor and through "
            "TensorMap / reshape<> (all same-size shapes of rank 1-4) / flatten / squeeze handles of the same buffer -- slice writes (dynamic and "
            "compile-time), whole-handle compound assignment, scalar element writes and reads, slice reads, a flatten() map of another buffer as "
            "right-hand side; the owner's whole guarded block is validated after every call (alias coherence: a handle is (buffer, shape)). "
            "Interleaved pure events: tocolumnmajor / torowmajor on position-revealing tensors of rank 1-5 (both functions, both compositions) and "
            "constructors from raw pointer / std::array / std::vector (row- and column-major flag) and nested initializer lists; "
            "non-trivial = every event except Reset / Snapshot")
    assumptions = ["values are small integers, exact in every element type",
                   "layout functions are accepted in either naming (tocolumnmajor = P and torowmajor = P^-1, or the reverse), the same choice for both",
                   "external buffers at every misalignment are exercised by C07's placement mode, not here"]
