# linalg_common.py -- shared machinery of C10 (inverse), C11 (LU), C12 (solve), C13 (QR).
# One L1 module (spec/Linalg.tla), one generator (spec/GenLinalg.tla, one TLC state per matrix case, with the
# admissibility invariant), one judge (spec/TraceLinalg.tla) and one harness family (PRELUDE below).
#
# DESIGN 0 / C10-C13: TLA+ has no reals.  The rounding bound is JUDGED by the specification on scaled integers that a
# Fastor-independent long-double routine (namespace lref, placed BEFORE the Fastor include) measures; everything that
# is discrete (shapes, exact zeros, unit diagonal, bijections, pivot application on integer data, exact identities on
# outputs that happen to be small dyadics) is decided by TLC's own arithmetic.
from pipeline import *

CXX_T = {"f32": "float", "f64": "double"}

PRELUDE = r'''
#include "vt.h"
#include <cfloat>
#include <cmath>
#include <vector>
#include <string>
#include <limits>
// ==================================================================================================
// Part 1 -- reference arithmetic.  No Fastor header has been included yet: nothing in this namespace can
// depend on the library under test.  long double (64-bit mantissa), plain loops.
namespace lref {
typedef long double R;
typedef std::vector<R> V;
static const long long SAT = 999999999LL;            // saturation value of every logged ratio (< 1e9: TLC ints are 32 bit)

inline bool fin(R x) { return x - x == 0; }
// ceil(1000 * num / den), saturating; NaN / Inf / non-positive denominator saturate
inline long long milli(R num, R den) {
    if (!fin(num) || !fin(den)) return SAT;
    if (num == 0) return 0;
    if (!(den > 0)) return SAT;
    R q = 1000.0L * num / den;
    if (!(q < (R)SAT)) return SAT;
    long long v = (long long)ceill(q);
    return v < 0 ? SAT : v;
}
inline R norm_inf(const V& a, size_t n, size_t m) {       // max absolute row sum; NaN propagates
    R best = 0;
    for (size_t i = 0; i < n; ++i) { R s = 0; for (size_t j = 0; j < m; ++j) s += fabsl(a[i * m + j]); if (!fin(s)) return s; if (s > best) best = s; }
    return best;
}
inline R max_abs(const V& a) { R b = 0; for (size_t i = 0; i < a.size(); ++i) { R x = fabsl(a[i]); if (!fin(x)) return x; if (x > b) b = x; } return b; }
inline V mul(const V& a, size_t n, size_t k, const V& b, size_t m) {
    V c(n * m, 0);
    for (size_t i = 0; i < n; ++i) for (size_t j = 0; j < m; ++j) { R s = 0; for (size_t q = 0; q < k; ++q) s += a[i * k + q] * b[q * m + j]; c[i * m + j] = s; }
    return c;
}
inline V sub(const V& a, const V& b) { V c(a.size()); for (size_t i = 0; i < a.size(); ++i) c[i] = a[i] - b[i]; return c; }
inline V sub_eye(V c, size_t n) { for (size_t i = 0; i < n; ++i) c[i * n + i] -= 1; return c; }
inline V absv(V a) { for (size_t i = 0; i < a.size(); ++i) a[i] = fabsl(a[i]); return a; }
inline V transpose(const V& a, size_t n, size_t m) { V t(n * m); for (size_t i = 0; i < n; ++i) for (size_t j = 0; j < m; ++j) t[j * n + i] = a[i * m + j]; return t; }
inline V rows(const V& a, size_t n, size_t m, const std::vector<size_t>& p) {      // (P A)[i] = A[p(i)]
    V c(n * m); for (size_t i = 0; i < n; ++i) for (size_t j = 0; j < m; ++j) c[i * m + j] = a[p[i] * m + j]; return c;
}
inline V cols(const V& a, size_t n, size_t m, const std::vector<size_t>& p) {      // (A Pi)(:,j) = A(:,p(j))
    V c(n * m); for (size_t i = 0; i < n; ++i) for (size_t j = 0; j < m; ++j) c[i * m + j] = a[i * m + p[j]]; return c;
}
// Gauss-Jordan inverse with partial pivoting (reference inverse: only used for cond(A))
inline bool inverse(const V& a0, size_t n, V& x) {
    V a(a0); x.assign(n * n, 0); for (size_t i = 0; i < n; ++i) x[i * n + i] = 1;
    for (size_t c = 0; c < n; ++c) {
        size_t piv = c; for (size_t i = c; i < n; ++i) if (fabsl(a[i * n + c]) > fabsl(a[piv * n + c])) piv = i;
        if (!(fabsl(a[piv * n + c]) > 0)) return false;
        if (piv != c) for (size_t j = 0; j < n; ++j) { std::swap(a[piv * n + j], a[c * n + j]); std::swap(x[piv * n + j], x[c * n + j]); }
        R d = a[c * n + c];
        for (size_t j = 0; j < n; ++j) { a[c * n + j] /= d; x[c * n + j] /= d; }
        for (size_t i = 0; i < n; ++i) if (i != c) { R f = a[i * n + c]; if (f != 0) for (size_t j = 0; j < n; ++j) { a[i * n + j] -= f * a[c * n + j]; x[i * n + j] -= f * x[c * n + j]; } }
    }
    return true;
}
// Doolittle LU without pivoting (reference factors: only used for the growth measure || |L||U| || / ||A||)
inline bool lu_nopivot(const V& a, size_t n, V& l, V& u) {
    l.assign(n * n, 0); u.assign(n * n, 0);
    for (size_t i = 0; i < n; ++i) {
        for (size_t j = i; j < n; ++j) { R s = a[i * n + j]; for (size_t q = 0; q < i; ++q) s -= l[i * n + q] * u[q * n + j]; u[i * n + j] = s; }
        if (!(fabsl(u[i * n + i]) > 0) || !fin(u[i * n + i])) return false;
        l[i * n + i] = 1;
        for (size_t j = i + 1; j < n; ++j) { R s = a[j * n + i]; for (size_t q = 0; q < i; ++q) s -= l[j * n + q] * u[q * n + i]; l[j * n + i] = s / u[i * n + i]; }
    }
    return true;
}
// cond_inf(A) = ||A|| ||A^-1||  (SAT-like huge value when singular)
inline R cond_inf(const V& a, size_t n) { V x; if (!lref::inverse(a, n, x)) return 1e30L; return norm_inf(a, n, n) * norm_inf(x, n, n); }
// growth of the no-pivot factorisation of a:  || |L||U| ||_inf / ||a||_inf ; also returns || |L||U| ||
inline R growth(const V& a, size_t n, R& lunorm) {
    V l, u; if (!lu_nopivot(a, n, l, u)) { lunorm = 1e30L; return 1e30L; }
    lunorm = norm_inf(mul(absv(l), n, n, absv(u), n), n, n);
    R na = norm_inf(a, n, n); return na > 0 ? lunorm / na : 1e30L;
}
// transcription of the library's static pre-pivot (column-max scan on the original matrix, strict >, first maximum); used ONLY to
// recognise the named deviation D16 of solve<SimpleInvPiv> with a matrix right-hand side (TLC re-computes it with Linalg!StaticPivot)
inline std::vector<size_t> static_pivot(const V& a, size_t n) {
    std::vector<size_t> p(n); for (size_t i = 0; i < n; ++i) p[i] = i;
    for (size_t j = 0; j < n; ++j) { size_t mx = j; for (size_t i = j; i < n; ++i) if (fabsl(a[i * n + j]) > fabsl(a[mx * n + j])) mx = i; if (mx != j) std::swap(p[j], p[mx]); }
    return p;
}
template<class T> inline V lift(const T* p, size_t len) { V v(len); for (size_t i = 0; i < len; ++i) v[i] = (R)p[i]; return v; }
inline V lift_scaled(const int* p, size_t len, int sA) { V v(len); R d = ldexpl(1.0L, sA); for (size_t i = 0; i < len; ++i) v[i] = (R)p[i] / d; return v; }

// ---- classification / exact logging of floating outputs (no judgement: only a faithful integer image)
// entry class: 0 exactly zero, 1 exactly one, 2 any other finite value, 3 NaN or Inf
template<class T> inline int cls(T v) { if (!(v - v == 0)) return 3; if (v == 0) return 0; if (v == 1) return 1; return 2; }
template<class T> inline std::vector<long long> classes(const T* p, size_t len) { std::vector<long long> c(len); for (size_t i = 0; i < len; ++i) c[i] = cls(p[i]); return c; }
// If every value is a dyadic k / 2^s with s <= 12 and |k| < 2^24, return the integers k and the (smallest) s.
template<class T> inline bool dyadic_img(const T* p, size_t len, int& s, std::vector<long long>& out) {
    for (s = 0; s <= 12; ++s) {
        bool ok = true; R sc = ldexpl(1.0L, s);
        for (size_t i = 0; i < len && ok; ++i) { R v = (R)p[i] * sc; if (!fin(v) || v != floorl(v) || fabsl(v) >= 16777216.0L) ok = false; }
        if (ok) { out.resize(len); for (size_t i = 0; i < len; ++i) out[i] = (long long)((R)p[i] * sc); return true; }
    }
    out.clear(); s = 0; return false;
}
inline R rowsum_max(const std::vector<long long>& a, size_t n, size_t m) { R b = 0; for (size_t i = 0; i < n; ++i) { R s = 0; for (size_t j = 0; j < m; ++j) s += fabsl((R)a[i * m + j]); if (s > b) b = s; } return b; }
inline R colsum_max(const std::vector<long long>& a, size_t n, size_t m) { R b = 0; for (size_t j = 0; j < m; ++j) { R s = 0; for (size_t i = 0; i < n; ++i) s += fabsl((R)a[i * m + j]); if (s > b) b = s; } return b; }
inline R maxabs_ll(const std::vector<long long>& a) { R b = 0; for (size_t i = 0; i < a.size(); ++i) if (fabsl((R)a[i]) > b) b = fabsl((R)a[i]); return b; }
inline std::vector<long long> ints(const int* p, size_t len) { return std::vector<long long>(p, p + len); }
// the exact product X*Y (n x k x m) stays inside 32-bit TLC integers, partial sums included
inline bool product_fits(const std::vector<long long>& x, size_t n, size_t k, const std::vector<long long>& y, size_t m) {
    return rowsum_max(x, n, k) * maxabs_ll(y) < 1073741824.0L;
}
static const size_t EXACT_MAX_N = 33;      // exact re-verification by TLC is limited to n <= 33 (judge time)
} // namespace lref

// ==================================================================================================
// Part 2 -- binding to the library under test
#include <Fastor/Fastor.h>
using namespace Fastor;

struct MatD { const char* name; int n; int nb; int sA; const int* a; };     // matrix case: nb matrices n x n, true value a / 2^sA

template<class T> __attribute__((noinline)) static void fill_from(T* dst, const int* src, size_t len, int sA) {
    T d = (T)std::ldexp(1.0, sA);
    for (size_t i = 0; i < len; ++i) dst[i] = (T)src[i] / d;
    asm volatile("" : : "r"(dst) : "memory");
}
template<class T> __attribute__((noinline)) static void fill_const(T* dst, size_t len, T v) {
    for (size_t i = 0; i < len; ++i) dst[i] = v;
    asm volatile("" : : "r"(dst) : "memory");
}
template<class T> __attribute__((noinline)) static void fill_rhs(T* dst, int* img, size_t n, size_t k, const char* id) {
    vt::Rng r(vt::hash_str(id));
    for (size_t i = 0; i < n * k; ++i) { img[i] = r.range(-3, 3); }
    for (size_t j = 0; j < k; ++j) { bool z = true; for (size_t i = 0; i < n; ++i) if (img[i * k + j] != 0) z = false; if (z) img[j] = 1; }   // no zero column
    for (size_t i = 0; i < n * k; ++i) dst[i] = (T)img[i];
    asm volatile("" : : "r"(dst) : "memory");
}
static const double GARBAGE = 7777.0;      // outputs are pre-filled with this: the API takes uninitialised output tensors

static inline void begin_event(vt::Ev& ev, const char* id, const char* head, const MatD& md) {
    ev.str("case", id);
    ev.s += ",\"in\":{"; ev.s += head;
    ev.str("mat", md.name).num("n", md.n).num("nb", md.nb).num("sA", md.sA);
    ev.arr("A", md.a, (size_t)md.nb * md.n * md.n);
}
template<class T> static inline lref::R eps_of() { return (lref::R)std::numeric_limits<T>::epsilon(); }

// ---- permutation outputs: raw image + the permutation the harness decoded for its residuals (TLC re-decodes and compares)
template<size_t N> static std::vector<size_t> decode_perm(const Tensor<size_t,N>& P, std::vector<long long>& raw, bool& ok) {
    std::vector<size_t> p(N); raw.resize(N); ok = true;
    for (size_t i = 0; i < N; ++i) { size_t v = P.data()[i]; raw[i] = v < 1000000 ? (long long)v : vt::BADV; if (v >= N) { ok = false; v = 0; } p[i] = v; }
    return p;
}
template<class T, size_t N> static std::vector<size_t> decode_perm(const Tensor<T,N,N>& P, std::vector<long long>& raw, bool& ok) {
    std::vector<size_t> p(N, 0); raw.resize(N * N); ok = true;
    for (size_t i = 0; i < N * N; ++i) raw[i] = vt::as_ll(P.data()[i], std::true_type());
    for (size_t i = 0; i < N; ++i) { size_t cnt = 0; for (size_t j = 0; j < N; ++j) if (P.data()[i * N + j] == T(1)) { if (!cnt) p[i] = j; ++cnt; } if (cnt != 1) ok = false; }
    return p;
}
static inline std::vector<long long> as_ll_vec(const std::vector<size_t>& p) { return std::vector<long long>(p.begin(), p.end()); }

// ==================================================================================================
// Inverse (C10).  STRAT 0..5 = InvCompType value; 6 = tinverse<UniLower>; 7 = tinverse<Upper>.
// FORM 0 inverse<S>(A)   1 inverse<S>(A+Z)   2 X = inv(A)   3 X = inv(A+Z)
template<class T, size_t N, int S> static Tensor<T,N,N> run_inv(const Tensor<T,N,N>& A, const Tensor<T,N,N>&, std::integral_constant<int,0>) { return inverse<(InvCompType)S>(A); }
template<class T, size_t N, int S> static Tensor<T,N,N> run_inv(const Tensor<T,N,N>& A, const Tensor<T,N,N>& Z, std::integral_constant<int,1>) { return inverse<(InvCompType)S>(A + Z); }
template<class T, size_t N, int S> static Tensor<T,N,N> run_inv(const Tensor<T,N,N>& A, const Tensor<T,N,N>&, std::integral_constant<int,2>) { Tensor<T,N,N> X; fill_const(X.data(), N * N, (T)GARBAGE); X = inv(A); return X; }
template<class T, size_t N, int S> static Tensor<T,N,N> run_inv(const Tensor<T,N,N>& A, const Tensor<T,N,N>& Z, std::integral_constant<int,3>) { Tensor<T,N,N> X; fill_const(X.data(), N * N, (T)GARBAGE); X = inv(A + Z); return X; }
template<class UL, class T, size_t N> static Tensor<T,N,N> run_tinv(const Tensor<T,N,N>& A, const Tensor<T,N,N>&, std::integral_constant<int,0>) { return tinverse<InvCompType::SimpleInv, UL>(A); }
template<class UL, class T, size_t N> static Tensor<T,N,N> run_tinv(const Tensor<T,N,N>& A, const Tensor<T,N,N>& Z, std::integral_constant<int,1>) { return tinverse<InvCompType::SimpleInv, UL>(A + Z); }
template<class T, size_t N, int S, int F> struct InvRun { static Tensor<T,N,N> go(const Tensor<T,N,N>& A, const Tensor<T,N,N>& Z) { return run_inv<T,N,S>(A, Z, std::integral_constant<int,F>()); } };
template<class T, size_t N, int F> struct InvRun<T,N,6,F> { static Tensor<T,N,N> go(const Tensor<T,N,N>& A, const Tensor<T,N,N>& Z) { return run_tinv<UpLoType::UniLower>(A, Z, std::integral_constant<int,F>()); } };
template<class T, size_t N, int F> struct InvRun<T,N,7,F> { static Tensor<T,N,N> go(const Tensor<T,N,N>& A, const Tensor<T,N,N>& Z) { return run_tinv<UpLoType::Upper>(A, Z, std::integral_constant<int,F>()); } };

// residual ratios of one n x n inverse;  r1 = ||A X - I||, r2 = ||X A - I||, both / (n eps cond(A))
template<class T> static void inv_measure(const int* a, int sA, const T* x, size_t n, long long& r1, long long& r2, long long& condm) {
    using namespace lref;
    V A = lift_scaled(a, n * n, sA), X = lift(x, n * n);
    R c = cond_inf(A, n), den = (R)n * eps_of<T>() * c;
    r1 = milli(norm_inf(sub_eye(mul(A, n, n, X, n), n), n, n), den);
    r2 = milli(norm_inf(sub_eye(mul(X, n, n, A, n), n), n, n), den);
    condm = milli(c, 1.0L);
}
template<class T> static void inv_emit(const char* id, const char* head, const MatD& md, const T* x, size_t d0, size_t d1) {
    using namespace lref;
    size_t n = (size_t)md.n, nb = (size_t)md.nb;
    std::vector<long long> r1(nb), r2(nb), cm(nb), shape;
    shape.push_back((long long)d0); shape.push_back((long long)d1);
    for (size_t b = 0; b < nb; ++b) inv_measure<T>(md.a + b * n * n, md.sA, x + b * n * n, n, r1[b], r2[b], cm[b]);
    // exact image (single matrices only): X = Xs / 2^xs
    int xs = 0; std::vector<long long> Xs; bool exact = false;
    if (nb == 1 && n <= EXACT_MAX_N && dyadic_img(x, n * n, xs, Xs)) {
        std::vector<long long> Ai = ints(md.a, n * n);
        exact = product_fits(Ai, n, n, Xs, n) && product_fits(Xs, n, n, Ai, n) && xs + md.sA < 30;
    }
    if (!exact) { Xs.clear(); xs = 0; }
    vt::Ev ev("Inverse"); begin_event(ev, id, head, md);
    ev.s += "},\"out\":{\"x\":0";
    ev.ints("shape", shape).num("exact", exact ? 1 : 0).num("xs", xs).ints("Xs", Xs).ints("r1", r1).ints("r2", r2).ints("cond_milli", cm);
    ev.s += "}"; ev.emit();
}
template<class T, size_t N, int S, int F> static void inv_case(const char* id, const char* head, const MatD& md) {
    vt::g_cur_case = id;
    Tensor<T,N,N> A, Z; fill_from(A.data(), md.a, N * N, md.sA); fill_const(Z.data(), N * N, (T)0);
    Tensor<T,N,N> X = InvRun<T,N,S,F>::go(A, Z);
    inv_emit<T>(id, head, md, X.data(), X.dimension(0), X.dimension(1));
}
// batched inverse over the trailing two axes:  Tensor<T,B0,N,N> (B1 == 0) or Tensor<T,B0,B1,N,N>
template<class T, size_t N, size_t B0, size_t B1> struct Batch { typedef Tensor<T,B0,B1,N,N> type; static const size_t nb = B0 * B1; };
template<class T, size_t N, size_t B0> struct Batch<T,N,B0,0> { typedef Tensor<T,B0,N,N> type; static const size_t nb = B0; };
template<class T, size_t N, size_t B0, size_t B1> static void invb_case(const char* id, const char* head, const MatD& md) {
    vt::g_cur_case = id;
    typedef typename Batch<T,N,B0,B1>::type TT;
    TT A; fill_from(A.data(), md.a, (size_t)A.size(), md.sA);
    TT X = inverse(A);
    inv_emit<T>(id, head, md, X.data(), X.dimension(TT::dimension_t::value - 2), X.dimension(TT::dimension_t::value - 1));
}

// ==================================================================================================
// LU (C11).  S = LUCompType value (0 BlockLU, 1 BlockLUPiv, 2 SimpleLU, 3 SimpleLUPiv); PK 0 none, 1 vector, 2 matrix; F 0 tensor, 1 expression
template<class T, size_t N, int PK> struct PivT { typedef int type; };
template<class T, size_t N> struct PivT<T,N,1> { typedef Tensor<size_t,N> type; };
template<class T, size_t N> struct PivT<T,N,2> { typedef Tensor<T,N,N> type; };
template<int S, class T, size_t N> static void run_lu(const Tensor<T,N,N>& A, const Tensor<T,N,N>&, Tensor<T,N,N>& L, Tensor<T,N,N>& U, int&, std::integral_constant<int,0>) { lu<(LUCompType)S>(A, L, U); }
template<int S, class T, size_t N> static void run_lu(const Tensor<T,N,N>& A, const Tensor<T,N,N>& Z, Tensor<T,N,N>& L, Tensor<T,N,N>& U, int&, std::integral_constant<int,1>) { lu<(LUCompType)S>(A + Z, L, U); }
template<int S, class T, size_t N, class PT> static void run_lu(const Tensor<T,N,N>& A, const Tensor<T,N,N>&, Tensor<T,N,N>& L, Tensor<T,N,N>& U, PT& P, std::integral_constant<int,0>) { lu<(LUCompType)S>(A, L, U, P); }
template<int S, class T, size_t N, class PT> static void run_lu(const Tensor<T,N,N>& A, const Tensor<T,N,N>& Z, Tensor<T,N,N>& L, Tensor<T,N,N>& U, PT& P, std::integral_constant<int,1>) { lu<(LUCompType)S>(A + Z, L, U, P); }
template<class T, size_t N> static Tensor<T,N,N> run_rec(const Tensor<T,N,N>& L, Tensor<T,N,N>& U, int&) { return reconstruct(L, U); }
template<class T, size_t N, class PT> static Tensor<T,N,N> run_rec(const Tensor<T,N,N>& L, Tensor<T,N,N>& U, PT& P) { return reconstruct(L, U, P); }
template<class T, size_t N> static Tensor<T,N,N> run_app(const Tensor<T,N,N>& A, int&) { return A; }
template<class T, size_t N, class PT> static Tensor<T,N,N> run_app(const Tensor<T,N,N>& A, PT& P) { return apply_pivot(A, P); }
template<class T, size_t N> static void fill_piv(int& p) { p = 0; }
template<class T, size_t N> static void fill_piv(Tensor<size_t,N>& p) { for (size_t i = 0; i < N; ++i) p.data()[i] = 7777; asm volatile("" : : "r"(p.data()) : "memory"); }
template<class T, size_t N> static void fill_piv(Tensor<T,N,N>& p) { fill_const(p.data(), N * N, (T)GARBAGE); }
template<size_t N> static std::vector<size_t> decode_any(int&, std::vector<long long>& raw, bool& ok) { std::vector<size_t> p(N); for (size_t i = 0; i < N; ++i) p[i] = i; raw.clear(); ok = true; return p; }
template<size_t N, class PT> static std::vector<size_t> decode_any(PT& P, std::vector<long long>& raw, bool& ok) { return decode_perm(P, raw, ok); }

template<class T, size_t N, int S, int PK, int F> static void lu_case(const char* id, const char* head, const MatD& md) {
    using namespace lref;
    vt::g_cur_case = id;
    const size_t n = N;
    Tensor<T,N,N> A, Z, L, U; fill_from(A.data(), md.a, N * N, md.sA); fill_const(Z.data(), N * N, (T)0);
    fill_const(L.data(), N * N, (T)GARBAGE); fill_const(U.data(), N * N, (T)GARBAGE);
    typename PivT<T,N,PK>::type P; fill_piv<T,N>(P);
    run_lu<S>(A, Z, L, U, P, std::integral_constant<int,F>());
    // permutation image and the library's own pivot application / reconstruction on exact data
    std::vector<long long> praw; bool pok = true;
    std::vector<size_t> p = decode_any<N>(P, praw, pok);
    Tensor<T,N,N> PAl = run_app<T,N>(A, P);                       // apply_pivot(A, P): pure data movement, exact
    Tensor<T,N,N> I; I.eye2();
    Tensor<T,N,N> PAc(PAl);
    Tensor<T,N,N> back = run_rec<T,N>(I, PAc, P);                 // reconstruct(I, PA, P) = P^-1 (I * PA): exact, must be A
    Tensor<T,N,N> Uc(U);
    Tensor<T,N,N> rec = run_rec<T,N>(L, Uc, P);                   // reconstruct(L, U, P): ~ A
    // measurements
    V Ar = lift_scaled(md.a, n * n, md.sA), Lr = lift(L.data(), n * n), Ur = lift(U.data(), n * n);
    V PA = pok ? rows(Ar, n, n, p) : Ar;
    R lun = 0; R g = growth(PA, n, lun);                          // reference factors of the pivoted input: domain measure
    R den = (R)n * eps_of<T>() * lun;
    long long r_lu = milli(norm_inf(sub(mul(Lr, n, n, Ur, n), PA), n, n), den);
    long long r_rec = milli(norm_inf(sub(lift(rec.data(), n * n), Ar), n, n), den);
    long long gm = milli(g, 1.0L), cm = milli(cond_inf(Ar, n), 1.0L);
    // exact image
    int ls = 0, us = 0; std::vector<long long> Ls, Us; bool exact = false;
    if (n <= EXACT_MAX_N && dyadic_img(L.data(), n * n, ls, Ls) && dyadic_img(U.data(), n * n, us, Us))
        exact = product_fits(Ls, n, n, Us, n) && ls + us < 30 && maxabs_ll(ints(md.a, n * n)) * ldexpl(1.0L, ls + us) < 1073741824.0L && md.sA < 30;
    if (!exact) { Ls.clear(); Us.clear(); ls = us = 0; }
    std::vector<long long> shape; shape.push_back(L.dimension(0)); shape.push_back(L.dimension(1)); shape.push_back(U.dimension(0)); shape.push_back(U.dimension(1));
    vt::Ev ev("LU"); begin_event(ev, id, head, md);
    ev.s += "},\"out\":{\"x\":0";
    ev.ints("shape", shape).ints("Lc", classes(L.data(), n * n)).ints("Uc", classes(U.data(), n * n));
    ev.ints("P", praw).ints("perm", as_ll_vec(p)).num("pok", pok ? 1 : 0);
    ev.arr("PA", PAl.data(), n * n).arr("back", back.data(), n * n);
    ev.num("exact", exact ? 1 : 0).num("ls", ls).num("us", us).ints("Ls", Ls).ints("Us", Us);
    ev.num("r_lu", r_lu).num("r_rec", r_rec).num("growth_milli", gm).num("cond_milli", cm);
    ev.s += "}"; ev.emit();
}

// ==================================================================================================
// Solve (C12).  S 0..5 = SolveCompType value; 6 = internal::forward_subs(L, b); 7 = internal::backward_subs(U, y)
// K = 0: vector right-hand side Tensor<T,N>; K >= 1: Tensor<T,N,K>.   F: 0 (A, b)  1 (A+Z, b+Zb)  2 (A+Z, b)  3 (A, b+Zb)
template<class T, size_t N, size_t K> struct RhsT { typedef Tensor<T,N,K> type; static const size_t k = K; };
template<class T, size_t N> struct RhsT<T,N,0> { typedef Tensor<T,N> type; static const size_t k = 1; };
template<int S, class T, size_t N, class BT> static BT run_solve(const Tensor<T,N,N>& A, const Tensor<T,N,N>&, const BT& b, const BT&, std::integral_constant<int,0>) { return solve<(SolveCompType)S>(A, b); }
template<int S, class T, size_t N, class BT> static BT run_solve(const Tensor<T,N,N>& A, const Tensor<T,N,N>& Z, const BT& b, const BT& Zb, std::integral_constant<int,1>) { return solve<(SolveCompType)S>(A + Z, b + Zb); }
template<int S, class T, size_t N, class BT> static BT run_solve(const Tensor<T,N,N>& A, const Tensor<T,N,N>& Z, const BT& b, const BT&, std::integral_constant<int,2>) { return solve<(SolveCompType)S>(A + Z, b); }
template<int S, class T, size_t N, class BT> static BT run_solve(const Tensor<T,N,N>& A, const Tensor<T,N,N>&, const BT& b, const BT& Zb, std::integral_constant<int,3>) { return solve<(SolveCompType)S>(A, b + Zb); }
template<class T, size_t N, int S, int F, class BT> struct SolveRun {
    static BT go(const Tensor<T,N,N>& A, const Tensor<T,N,N>& Z, const BT& b, const BT& Zb) { return run_solve<S>(A, Z, b, Zb, std::integral_constant<int,F>()); } };
template<class T, size_t N, int F, class BT> struct SolveRun<T,N,6,F,BT> { static BT go(const Tensor<T,N,N>& A, const Tensor<T,N,N>&, const BT& b, const BT&) { return internal::forward_subs(A, b); } };
template<class T, size_t N, int F, class BT> struct SolveRun<T,N,7,F,BT> { static BT go(const Tensor<T,N,N>& A, const Tensor<T,N,N>&, const BT& b, const BT&) { return internal::backward_subs(A, b); } };

template<class T, size_t N, size_t K, int S, int F> static void solve_case(const char* id, const char* head, const MatD& md) {
    using namespace lref;
    vt::g_cur_case = id;
    typedef typename RhsT<T,N,K>::type BT;
    const size_t n = N, k = RhsT<T,N,K>::k;
    Tensor<T,N,N> A, Z; fill_from(A.data(), md.a, N * N, md.sA); fill_const(Z.data(), N * N, (T)0);
    BT b, Zb; std::vector<int> bi(n * k); fill_rhs(b.data(), bi.data(), n, k, id); fill_const(Zb.data(), n * k, (T)0);
    BT x = SolveRun<T,N,S,F,BT>::go(A, Z, b, Zb);
    V Ar = lift_scaled(md.a, n * n, md.sA), Br = lift(b.data(), n * k), Xr = lift(x.data(), n * k);
    R c = cond_inf(Ar, n);
    V Rm = sub(mul(Ar, n, n, Xr, k), Br);
    // worst column of  ||A x_j - b_j||_inf / (n eps cond(A) ||b_j||_inf)
    long long r = 0;
    for (size_t j = 0; j < k; ++j) { R rn = 0, bn = 0; bool bad = false;
        for (size_t i = 0; i < n; ++i) { R v = fabsl(Rm[i * k + j]); if (!fin(v)) bad = true; if (v > rn) rn = v; R w = fabsl(Br[i * k + j]); if (w > bn) bn = w; }
        long long rj = bad ? SAT : milli(rn, (R)n * eps_of<T>() * c * bn); if (rj > r) r = rj; }
    // named deviation D16 (only recorded for SimpleInvPiv): residual of (P A)(P X) = B for the static pre-pivot P
    long long r_dev = 0; int hasdev = 0; std::vector<long long> pdev;
    if (S == 1) { hasdev = 1; std::vector<size_t> p = static_pivot(Ar, n); pdev.assign(p.begin(), p.end());
        V Rd = sub(mul(rows(Ar, n, n, p), n, n, rows(Xr, n, k, p), k), Br);
        for (size_t j = 0; j < k; ++j) { R rn = 0, bn = 0; bool bad = false;
            for (size_t i = 0; i < n; ++i) { R v = fabsl(Rd[i * k + j]); if (!fin(v)) bad = true; if (v > rn) rn = v; R w = fabsl(Br[i * k + j]); if (w > bn) bn = w; }
            long long rj = bad ? SAT : milli(rn, (R)n * eps_of<T>() * c * bn); if (rj > r_dev) r_dev = rj; } }
    int xs = 0; std::vector<long long> Xs; bool exact = false;
    if (n <= EXACT_MAX_N && dyadic_img(x.data(), n * k, xs, Xs)) exact = product_fits(ints(md.a, n * n), n, n, Xs, k) && xs + md.sA < 28;
    if (!exact) { Xs.clear(); xs = 0; }
    std::vector<long long> shape; for (size_t d = 0; d < (size_t)BT::dimension_t::value; ++d) shape.push_back((long long)x.dimension(d));
    vt::Ev ev("Solve"); begin_event(ev, id, head, md);
    ev.num("k", (long long)k).arr("B", bi.data(), n * k);
    ev.s += "},\"out\":{\"x\":0";
    ev.ints("shape", shape).num("exact", exact ? 1 : 0).num("xs", xs).ints("Xs", Xs).num("r", r).num("cond_milli", milli(c, 1.0L));
    ev.num("hasdev", hasdev).num("r_dev", r_dev).ints("pdev", pdev);
    ev.s += "}"; ev.emit();
}

// ==================================================================================================
// QR (C13).  S = QRCompType value (0 MGSR, 1 MGSRPiv); PK 0 none, 1 vector, 2 matrix; F 0 tensor, 1 expression.
// For S = 0 the QR-based determinant is recorded next to the factors it has to agree with.
template<int S, class T, size_t N> static void run_qr(const Tensor<T,N,N>& A, const Tensor<T,N,N>&, Tensor<T,N,N>& Q, Tensor<T,N,N>& Rm, int&, std::integral_constant<int,0>) { qr<(QRCompType)S>(A, Q, Rm); }
template<int S, class T, size_t N> static void run_qr(const Tensor<T,N,N>& A, const Tensor<T,N,N>& Z, Tensor<T,N,N>& Q, Tensor<T,N,N>& Rm, int&, std::integral_constant<int,1>) { qr<(QRCompType)S>(A + Z, Q, Rm); }
template<int S, class T, size_t N, class PT> static void run_qr(const Tensor<T,N,N>& A, const Tensor<T,N,N>&, Tensor<T,N,N>& Q, Tensor<T,N,N>& Rm, PT& P, std::integral_constant<int,0>) { qr<(QRCompType)S>(A, Q, Rm, P); }
template<int S, class T, size_t N, class PT> static void run_qr(const Tensor<T,N,N>& A, const Tensor<T,N,N>& Z, Tensor<T,N,N>& Q, Tensor<T,N,N>& Rm, PT& P, std::integral_constant<int,1>) { qr<(QRCompType)S>(A + Z, Q, Rm, P); }
template<class T, size_t N> static T run_det(const Tensor<T,N,N>& A, const Tensor<T,N,N>&, std::integral_constant<int,0>) { return determinant<DetCompType::QR>(A); }
template<class T, size_t N> static T run_det(const Tensor<T,N,N>& A, const Tensor<T,N,N>& Z, std::integral_constant<int,1>) { return determinant<DetCompType::QR>(A + Z); }
template<class T, size_t N, int S> struct DetRun { template<int F> static T go(const Tensor<T,N,N>&, const Tensor<T,N,N>&) { return T(0); } };
template<class T, size_t N> struct DetRun<T,N,0> { template<int F> static T go(const Tensor<T,N,N>& A, const Tensor<T,N,N>& Z) { return run_det(A, Z, std::integral_constant<int,F>()); } };

template<class T, size_t N, int S, int PK, int F> static void qr_case(const char* id, const char* head, const MatD& md) {
    using namespace lref;
    vt::g_cur_case = id;
    const size_t n = N;
    Tensor<T,N,N> A, Z, Q, Rm; fill_from(A.data(), md.a, N * N, md.sA); fill_const(Z.data(), N * N, (T)0);
    fill_const(Q.data(), N * N, (T)GARBAGE); fill_const(Rm.data(), N * N, (T)GARBAGE);
    typename PivT<T,N,PK>::type P; fill_piv<T,N>(P);
    run_qr<S>(A, Z, Q, Rm, P, std::integral_constant<int,F>());
    std::vector<long long> praw; bool pok = true;
    std::vector<size_t> p = decode_any<N>(P, praw, pok);
    Tensor<T,N,N> PAl = run_app<T,N>(A, P);
    V Ar = lift_scaled(md.a, n * n, md.sA), Qr = lift(Q.data(), n * n), Rr = lift(Rm.data(), n * n);
    R c = cond_inf(Ar, n), na = norm_inf(Ar, n, n);
    V QR = mul(Qr, n, n, Rr, n);
    long long r_orth = milli(norm_inf(sub_eye(mul(lref::transpose(Qr, n, n), n, n, Qr, n), n), n, n), (R)n * eps_of<T>() * c);
    long long r_row = milli(norm_inf(sub(QR, pok ? rows(Ar, n, n, p) : Ar), n, n), (R)n * eps_of<T>() * na);
    long long r_col = milli(norm_inf(sub(QR, pok ? cols(Ar, n, n, p) : Ar), n, n), (R)n * eps_of<T>() * na);
    // determinant via QR against the product of R's diagonal
    long long r_det = 0; int hasdet = 0; T dq = 0; R prod = 1;
    for (size_t i = 0; i < n; ++i) prod *= Rr[i * n + i];
    if (S == 0) { dq = DetRun<T,N,S>::template go<F>(A, Z);
        // the determinant must be representable in T (a product of 33 diagonal entries of magnitude 100 is not, in float): otherwise skipped (hasdet = 2)
        bool inrange = fin(prod) && fabsl(prod) < (R)std::numeric_limits<T>::max() / 1024 && fabsl(prod) > (R)std::numeric_limits<T>::min() * 1024;
        hasdet = inrange ? 1 : 2; r_det = inrange ? milli(fabsl((R)dq - prod), (R)n * eps_of<T>() * fabsl(prod)) : 0; }
    // exact image
    int qs = 0, rs = 0; std::vector<long long> Qs, Rs; bool exact = false; long long dets = 0; int detexact = 0;
    if (n <= EXACT_MAX_N && dyadic_img(Q.data(), n * n, qs, Qs) && dyadic_img(Rm.data(), n * n, rs, Rs)) {
        std::vector<long long> Qt(n * n); for (size_t i = 0; i < n; ++i) for (size_t j = 0; j < n; ++j) Qt[j * n + i] = Qs[i * n + j];
        exact = product_fits(Qs, n, n, Rs, n) && product_fits(Qt, n, n, Qs, n) && 2 * qs + rs + md.sA < 28
             && maxabs_ll(ints(md.a, n * n)) * ldexpl(1.0L, qs + rs) < 1073741824.0L;
        if (exact && hasdet && rs == 0) { R pr = 1; bool fits = true; for (size_t i = 0; i < n; ++i) { pr *= (R)Rs[i * n + i]; if (fabsl(pr) >= 1073741824.0L) fits = false; }
            R dv = (R)dq; if (fits && fin(dv) && dv == floorl(dv) && fabsl(dv) < 1073741824.0L) { detexact = 1; dets = (long long)dv; } }
    }
    if (!exact) { Qs.clear(); Rs.clear(); qs = rs = 0; }
    std::vector<long long> shape; shape.push_back(Q.dimension(0)); shape.push_back(Q.dimension(1)); shape.push_back(Rm.dimension(0)); shape.push_back(Rm.dimension(1));
    vt::Ev ev("QR"); begin_event(ev, id, head, md);
    ev.s += "},\"out\":{\"x\":0";
    ev.ints("shape", shape).ints("Rc", classes(Rm.data(), n * n));
    ev.ints("P", praw).ints("perm", as_ll_vec(p)).num("pok", pok ? 1 : 0).arr("PA", PAl.data(), n * n);
    ev.num("exact", exact ? 1 : 0).num("qs", qs).num("rs", rs).ints("Qs", Qs).ints("Rs", Rs).num("detexact", detexact).num("dets", dets);
    ev.num("r_orth", r_orth).num("r_row", r_row).num("r_col", r_col).num("hasdet", hasdet).num("r_det", r_det).num("cond_milli", milli(c, 1.0L)).num("cond_k", milli(c, 1.0e6L));
    ev.s += "}"; ev.emit();
}
'''

# ------------------------------------------------------------------------------------------------------
KIND_SHORT = {"Inverse": "inv", "LU": "lu", "Solve": "solve", "QR": "qr"}
INV_S = {"SimpleInv": 0, "SimpleInvPiv": 1, "BlockLU": 2, "BlockLUPiv": 3, "SimpleLU": 4, "SimpleLUPiv": 5, "lut": 6, "ut": 7}
INV_F = {"eager": 0, "expr": 1, "lazy": 2, "lazy_expr": 3}
LU_S = {"BlockLU": 0, "BlockLUPiv": 1, "SimpleLU": 2, "SimpleLUPiv": 3}
SOLVE_S = {"SimpleInv": 0, "SimpleInvPiv": 1, "BlockLU": 2, "BlockLUPiv": 3, "SimpleLU": 4, "SimpleLUPiv": 5, "fwdsub": 6, "bwdsub": 7}
SOLVE_F = {"eager": 0, "expr_Ab": 1, "expr_A": 2, "expr_b": 3}
QR_S = {"MGSR": 0, "MGSRPiv": 1}
PK = {"none": 0, "V": 1, "M": 2}
EF = {"eager": 0, "expr": 1}
# mirrors Linalg!InDomain (only used to COUNT the skipped cases for the evidence; the judge applies the spec's own constants)
COND_MAX_MILLI = 10000 * 1000
GROWTH_MAX_MILLI = 16 * 1000


def mat_name(m):
    return "%s-n%d-d%d-v%d" % (m["fam"], m["n"], m["d"], m["v"])


def size_class(n, tier):
    """TU granularity: compile time is dominated by the unrolled kernels of the big orders, so those get a TU each."""
    if n <= 5:
        return "a01_05"
    if n <= 9:
        return "b06_09"
    if n <= 12:
        return "c10_12"
    return "n%02d" % n


class LinalgCheck(Check):
    kind = None                       # "Inverse" | "LU" | "Solve" | "QR"
    trace_module = "TraceLinalg"
    trace_cfg = "TraceLinalg.cfg"
    assumptions_common = [
        "the rounding bound is judged, not computed, by the specification: a Fastor-independent long-double routine (namespace lref, compiled before the "
        "Fastor include) measures every residual and logs ratio_milli = ceil(1000*resid/(n*eps*scale)); TLC accepts iff ratio_milli <= 16000 (Linalg!JudgeRatio)",
        "input matrices are integers (or integers / 2^sA) produced by the TLC generator from VERIF_SEED, exactly representable in float and double",
        "cases whose measured cond_inf(A) > 1e4 or whose reference no-pivot growth || |L||U| ||/||A|| > 16 are outside the property's domain: skipped and counted (Linalg!InDomain)",
        "exact re-verification by TLC applies only when a result is a dyadic with denominator <= 2^12 and n <= 33, and is used as exact => (identity <=> measured residual = 0); "
        "a floating result is never required to be exact",
        "the static pre-pivot is transcribed (Linalg!StaticPivot) only to choose inputs on which the pivoted strategies are defined; outputs are judged for the permutation that was returned",
    ]

    def model_checks(self, ctx):
        model_check(ctx, "BlockLinalg", "MC_BlockLinalg.cfg", workers=1)

    def configs(self, ctx):
        if ctx.tier == "quick":
            return list(QUICK_CFGS)
        # every ISA under C++14 plus one C++17 build (the linalg code has no C++17 branches of its own; the kernels below it do)
        return ["%s-14-O2" % i for i in ALL_ISAS] + ["avx2-17-O2"]

    # ---- plan --------------------------------------------------------------------------------------
    def plan(self, ctx):
        cfg = "GenLinalg_%s_%s.cfg" % (self.kind, ctx.tier)
        t = time.time()
        items, gen, dist, out = tlc_emit(ctx, "GenLinalg", cfg, env={"VERIF_SEED": str(ctx.seed)}, timeout=1500)
        if "No error has been found" not in out:
            raise ToolFailure("GenLinalg: an emitted case is outside the property's domain, or generator error: " + out[-1500:])
        ctx.mc_results.append({"module": "GenLinalg", "cfg": cfg, "generated": gen, "distinct": dist, "ok": True,
                               "wall_s": round(time.time() - t, 1), "action_coverage": {}})
        cases, self.mats = [], {}
        for m in items:
            name = mat_name(m)
            self.mats[name] = m
            for call in m["calls"]:
                c = {"e": self.kind, "mat": name, "n": m["n"], "fam": m["fam"], "d": m["d"], "v": m["v"], "nb": m["nb"], "sA": m["sA"]}
                c.update(call)
                c["rhs"] = "none" if self.kind != "Solve" else ("vec" if call["k"] == 0 else "mat")
                cid = "%s/%s/%s/%s/%s" % (KIND_SHORT[self.kind], call["strategy"], call["form"], call["T"], name)
                if call["pk"] != "none":
                    cid += "/P" + call["pk"]
                if self.kind == "Solve":
                    cid += "/k%d" % call["k"]
                c["case"] = cid
                cases.append(c)
        cases.sort(key=lambda c: c["case"])
        if len({c["case"] for c in cases}) != len(cases):
            raise ToolFailure("duplicate case ids in the plan")
        self.plan_stats = {"matrices": len(items),
                           "matrices_by_family": {f: sum(1 for m in items if m["fam"] == f) for f in sorted({m["fam"] for m in items})},
                           "permuted_matrices": sum(1 for m in items if m["v"] > 0),
                           "non_involutive_permutations": sum(1 for m in items if any(m["sigma"][m["sigma"][i]] != i for i in range(m["n"]))),
                           "calls_by_strategy": {s: sum(1 for c in cases if c["strategy"] == s) for s in sorted({c["strategy"] for c in cases})},
                           "calls_by_form": {s: sum(1 for c in cases if c["form"] == s) for s in sorted({c["form"] for c in cases})},
                           "sizes": sorted({m["n"] for m in items})}
        return cases

    # ---- codegen -----------------------------------------------------------------------------------
    def head(self, c):
        h = '"T":"%s","strategy":"%s","form":"%s","pk":"%s","rhs":"%s","fam":"%s","d":%d,"v":%d,"need":"%s"' % (
            c["T"], c["strategy"], c["form"], c["pk"], c["rhs"], c["fam"], c["d"], c["v"], c["need"])
        return h.replace('"', '\\"')

    def stmt(self, c):
        T, n, D = CXX_T[c["T"]], c["n"], "D_" + re.sub(r"[^A-Za-z0-9]", "_", c["mat"])
        args = '("%s","%s",%s);' % (c["case"], self.head(c), D)
        k = self.kind
        if k == "Inverse":
            if c["form"] == "batch3":
                return "    invb_case<%s,%d,3,0>%s" % (T, n, args)
            if c["form"] == "batch23":
                return "    invb_case<%s,%d,2,3>%s" % (T, n, args)
            return "    inv_case<%s,%d,%d,%d>%s" % (T, n, INV_S[c["strategy"]], INV_F[c["form"]], args)
        if k == "LU":
            return "    lu_case<%s,%d,%d,%d,%d>%s" % (T, n, LU_S[c["strategy"]], PK[c["pk"]], EF[c["form"]], args)
        if k == "Solve":
            return "    solve_case<%s,%d,%d,%d,%d>%s" % (T, n, c["k"], SOLVE_S[c["strategy"]], SOLVE_F[c["form"]], args)
        if k == "QR":
            return "    qr_case<%s,%d,%d,%d,%d>%s" % (T, n, QR_S[c["strategy"]], PK[c["pk"]], EF[c["form"]], args)
        raise ToolFailure("unknown kind " + str(k))

    def unit_key(self, ctx, c):
        key = "%s_%s_%s" % (KIND_SHORT[self.kind], c["T"], size_class(c["n"], ctx.tier))
        if c["n"] >= 64:
            key += "_" + c["strategy"]          # LU-based strategies cost ~40 s each at n = 65
        elif c["n"] >= 32:
            s = c["strategy"]                   # a pivoted strategy shares its kernels with the un-pivoted one: one TU per pair
            key += "_" + ("blocklu" if s.startswith("BlockLU") else "simplelu" if s.startswith("SimpleLU") else "other")
        return key

    def units(self, ctx, plan, cfgname):
        groups = {}
        for c in plan:
            groups.setdefault(self.unit_key(ctx, c), []).append(c)
        # cap a TU at ~70 distinct template instantiations (compile time is superlinear in TU size): split by order, then by strategy
        for level in ("n", "strategy"):
            for key in sorted(groups):
                cs = groups[key]
                if len({self.stmt(c).split("(")[0] for c in cs}) > 70 and len({c[level] for c in cs}) > 1:
                    del groups[key]
                    for c in cs:
                        groups.setdefault("%s_%s%s" % (key, level[0], c[level]), []).append(c)
        units = []
        for key in sorted(groups):
            cs = sorted(groups[key], key=lambda c: c["case"])
            decl = []
            for name in sorted({c["mat"] for c in cs}):
                m = self.mats[name]
                ident = re.sub(r"[^A-Za-z0-9]", "_", name)
                decl.append("static const int M_%s[] = {%s};" % (ident, ",".join(str(x) for x in m["A"])))
                decl.append('static const MatD D_%s = {"%s", %d, %d, %d, M_%s};' % (ident, name, m["n"], m["nb"], m["sA"], ident))
            src = PRELUDE + "\n".join(decl) + "\nint main(int argc, char** argv) {\n    vt::open(argc, argv, \"%s\");\n    vt::install_handlers();\n" % cfgname
            src += "\n".join(self.stmt(c) for c in cs) + "\n    vt::close_ok();\n    return 0;\n}\n"
            units.append((key, src, []))
        return units

    # ---- evidence helpers --------------------------------------------------------------------------
    RATIO_KEYS = ("r1", "r2", "r_lu", "r_rec", "r", "r_orth", "r_row", "r_det")

    def post_events(self, ctx, traces):
        skipped, exact, worst, n_ev, above = 0, 0, 0, 0, 0
        for cfgname, evs in traces.items():
            for ev in evs:
                o = ev.get("out")
                if not isinstance(o, dict) or "cond_milli" not in o:
                    continue
                n_ev += 1
                cm = o["cond_milli"] if isinstance(o["cond_milli"], list) else [o["cond_milli"]]
                ood = max(cm) > COND_MAX_MILLI or o.get("growth_milli", 0) > GROWTH_MAX_MILLI
                if "cond_k" in o:             # QR: Linalg!QRInDomain
                    ood = o["cond_k"] > (100000 if ev.get("in", {}).get("T") == "f64" else 10)
                    self.max_cond_k = max(getattr(self, "max_cond_k", 0), 0 if ood else o["cond_k"])
                skipped += 1 if ood else 0
                exact += 1 if o.get("exact") == 1 else 0
                if not ood:
                    for k in self.RATIO_KEYS:
                        if k in o:
                            v = o[k] if isinstance(o[k], list) else [o[k]]
                            if k == "r_row":
                                v = [min(o["r_row"], o["r_col"])]
                            if k == "r_det" and o.get("hasdet") != 1:
                                continue
                            for x in v:
                                if x <= 16000:
                                    worst = max(worst, x)
                                else:
                                    above += 1
        self.stats = {"evaluations": n_ev, "skipped_out_of_domain": skipped, "exactly_reverified_by_TLC": exact,
                      "largest_accepted_ratio_milli": worst, "ratios_above_bound": above}
        return traces

    def event_weight(self, ev):
        n = ev.get("in", {}).get("n", 1)
        exact = any(o["out"].get("exact") == 1 for o in ev.get("outs", []) if isinstance(o.get("out"), dict))
        return 1 + n * n + (n * n * n if exact else 0)

    def extra_coverage(self, ctx):
        d = {"plan": getattr(self, "plan_stats", {})}
        d.update(getattr(self, "stats", {}))
        d["bound_C"] = 16
        return d
