# vtlib.py -- shared driver machinery: TLC runs (model checking, plan generation, trace judging),
# building harness TUs from /repo's working tree (content-addressed cache), running them, joining
# traces, classifying rejections against known findings, writing evidence.
import os, sys, json, subprocess, hashlib, time, shutil, re, glob, random
import concurrent.futures as cf

ROOT = os.path.dirname(os.path.dirname(os.path.abspath(__file__)))
REPO = os.environ.get("VERIF_REPO", "/repo")
SPEC = os.path.join(ROOT, "spec")
HARN = os.path.join(ROOT, "harness")
CACHE = os.path.join(ROOT, ".cache")
WORKROOT = os.path.join(ROOT, ".work")
TLA_CP = "/opt/veriftools/tla/tla2tools.jar:/opt/veriftools/tla/CommunityModules-deps.jar"
NCPU = os.cpu_count() or 8
CXX = os.environ.get("VERIF_CXX", "g++")
GUARD = "FASTOR_VERIF_TRACE"


class ToolFailure(Exception):
    """A tool (TLC, compiler, harness) failed: the check is broken, this is NOT a violation."""


def log(*a):
    print("[check]", *a, flush=True)


# ------------------------------------------------------------------------------------------------
# configurations:  <isa>-<std>-<opt>[+MACRO[=V]]...
ISA_FLAGS = {
    "scalar": ["-DFASTOR_DONT_VECTORISE"],
    "sse2":   ["-msse2"],
    "sse42":  ["-msse4.2"],
    "avx":    ["-mavx"],
    "avx2":   ["-mavx2", "-mfma"],
    "avx512": ["-march=skylake-avx512"],
}
QUICK_CFGS = ["sse2-14-O2", "avx2-14-O2", "avx512-14-O2"]
ALL_ISAS = ["scalar", "sse2", "sse42", "avx", "avx2", "avx512"]


def cfg_flags(name):
    parts = name.split("+")
    isa, std, opt = parts[0].split("-")
    fl = ["-std=c++%s" % std, "-" + opt] + ISA_FLAGS[isa]
    for m in parts[1:]:
        fl.append("-D" + m)
    return fl


def vec_width(isa, T):
    """SIMD register width in elements for element type tag T under isa (for stratified plans)."""
    bits = {"scalar": 0, "sse2": 128, "sse42": 128, "avx": 256, "avx2": 256, "avx512": 512}[isa]
    sz = {"f32": 32, "f64": 64, "i32": 32, "i64": 64, "c32": 64, "c64": 128}[T]
    return max(1, bits // sz)


# ------------------------------------------------------------------------------------------------
class Ctx:
    def __init__(self, prop, tier, seed, replay=None):
        self.prop, self.tier, self.seed, self.replay = prop, tier, seed, replay
        self.t0 = time.time()
        # runs against an alternate tree (seeded changes, experiments) get their own scratch and replay directories so that they
        # cannot disturb a run of the same check against /repo that is going on at the same time
        alt = bool(os.environ.get("VERIF_REPO"))
        self.work = os.path.join(WORKROOT, prop + ("_alt%d" % os.getpid() if alt else ""))
        self.replay_dir = os.path.join(ROOT, "replay", ("_alt/" if alt else "") + prop)
        shutil.rmtree(self.work, ignore_errors=True)
        os.makedirs(self.work, exist_ok=True)
        if not replay:
            shutil.rmtree(self.replay_dir, ignore_errors=True)
        self.mc_results = []
        self.notes = []
        self.rng = random.Random(seed)
        self._tree = None

    def path(self, *p):
        d = os.path.join(self.work, *p)
        os.makedirs(os.path.dirname(d), exist_ok=True)
        return d

    def tree_hash(self):
        if self._tree is None:
            h = hashlib.sha256()
            for base, dirs, files in sorted(os.walk(os.path.join(REPO, "Fastor"))):
                dirs.sort()
                for f in sorted(files):
                    p = os.path.join(base, f)
                    h.update(p.encode())
                    with open(p, "rb") as fh:
                        h.update(fh.read())
            for f in sorted(glob.glob(os.path.join(HARN, "*.h"))):
                with open(f, "rb") as fh:
                    h.update(fh.read())
            h.update(subprocess.run([CXX, "--version"], capture_output=True, text=True).stdout.encode())
            self._tree = h.hexdigest()
        return self._tree


# ------------------------------------------------------------------------------------------------
# TLC
def _tlc_cmd(module, cfg, metadir, workers=1, heap="2g", extra=(), props=()):
    gc = ["-XX:+UseSerialGC"] if workers == 1 else ["-XX:+UseParallelGC", "-XX:ParallelGCThreads=4"]
    cmd = ["java"] + gc + ["-Xss16m", "-Xmx" + heap]
    cmd += ["-D" + p for p in props]
    cmd += ["-cp", TLA_CP, "tlc2.TLC", "-workers", str(workers), "-metadir", metadir, "-noGenerateSpecTE", "-config", cfg]
    cmd += list(extra) + [module]
    return cmd


def run_tlc(module, cfg, metadir, env=None, workers=1, heap="2g", extra=(), timeout=900, props=()):
    """module/cfg are file names inside SPEC.  Returns (rc, stdout)."""
    e = dict(os.environ)
    if env:
        e.update(env)
    shutil.rmtree(metadir, ignore_errors=True)
    os.makedirs(metadir, exist_ok=True)
    try:
        r = subprocess.run(_tlc_cmd(module, cfg, metadir, workers, heap, extra, props), cwd=SPEC, env=e,
                           capture_output=True, text=True, timeout=timeout)
    except subprocess.TimeoutExpired:
        raise ToolFailure("TLC timeout on %s/%s" % (module, cfg))
    finally:
        pass
    shutil.rmtree(metadir, ignore_errors=True)
    return r.returncode, r.stdout + r.stderr


_RE_STATES = re.compile(r"(\d+) states generated, (\d+) distinct states found, (\d+) states left")


def parse_states(out):
    m = None
    for m in _RE_STATES.finditer(out):
        pass
    if not m:
        return 0, 0
    return int(m.group(1)), int(m.group(2))


def model_check(ctx, module, cfg, workers=None, heap="4g", timeout=1200, extra=(), expect_violation=None, env=None):
    """Bounded exhaustive TLC run of a design/semantics model.  A violated invariant here is a tool
    failure (the model is wrong or the design has a counterexample that must be triaged into a
    generator case) unless `expect_violation` names the invariant that is documented to fail."""
    t = time.time()
    workers = workers or min(NCPU, 8)
    rc, out = run_tlc(module + ".tla", cfg, ctx.path("meta", module + "_" + cfg.replace(".", "_")), workers=workers,
                      heap=heap, extra=["-coverage", "1"] + list(extra), timeout=timeout, env=env)
    gen, dist = parse_states(out)
    ok = "No error has been found" in out
    viol = re.findall(r"Invariant (\w+) is violated", out)
    res = {"module": module, "cfg": cfg, "generated": gen, "distinct": dist, "ok": ok, "violated": viol,
           "wall_s": round(time.time() - t, 1)}
    cov = {}
    for m in re.finditer(r"<(\w+) line \d+, col \d+ to line \d+, col \d+ of module (\w+)>: (\d+):(\d+)", out):
        cov[m.group(1)] = [int(m.group(3)), int(m.group(4))]
    res["action_coverage"] = cov
    ctx.mc_results.append(res)
    if not ok:
        if expect_violation and viol == [expect_violation]:
            res["expected_violation"] = expect_violation
            return res, out
        with open(ctx.path("mc_fail_%s.log" % module), "w") as f:
            f.write(out)
        raise ToolFailure("model check %s/%s failed (rc=%d): %s" % (module, cfg, rc, out[-1500:]))
    return res, out


def apalache_check(ctx, module, inv, length=0, timeout=900):
    """Symbolic (SMT) check of an invariant over unbounded integers with Apalache: Init => Inv for length 0, plus `length` steps.
    Used as an unbounded companion of a bounded TLC enumeration; a counterexample or a tool error is a tool failure (the model is wrong),
    never a violation of the implementation."""
    t = time.time()
    out_dir = ctx.path("meta", "apalache_" + module, "x")
    cmd = ["apalache-mc", "check", "--length=%d" % length, "--inv=" + inv, "--out-dir=" + os.path.dirname(out_dir), module + ".tla"]
    try:
        r = subprocess.run(cmd, cwd=SPEC, capture_output=True, text=True, timeout=timeout)
    except subprocess.TimeoutExpired:
        raise ToolFailure("apalache timeout on %s" % module)
    out = r.stdout + r.stderr
    ok = "The outcome is: NoError" in out
    ctx.mc_results.append({"module": module, "cfg": "apalache --length=%d --inv=%s" % (length, inv), "generated": 0, "distinct": 0, "ok": ok,
                           "wall_s": round(time.time() - t, 1), "action_coverage": {}})
    if not ok:
        raise ToolFailure("apalache did not establish %s of %s: %s" % (inv, module, out[-800:]))
    log("apalache: %s!%s holds for unbounded integers (%.0fs)" % (module, inv, time.time() - t))


def tlc_emit(ctx, module, cfg, env=None, extra=(), workers=1, timeout=900, heap="4g", tagname="PLAN"):
    """Run a generator spec; collect the JSON payloads it prints as <<"PLAN", "...json...">>."""
    rc, out = run_tlc(module + ".tla", cfg, ctx.path("meta", "gen_" + module), workers=workers, heap=heap,
                      extra=extra, timeout=timeout, env=env)
    items = []
    for line in out.splitlines():
        m = re.match(r'<<"%s", "(.*)">>\s*$' % tagname, line)
        if m:
            items.append(json.loads(m.group(1).replace('\\"', '"').replace('\\\\', '\\')))
    gen, dist = parse_states(out)
    if "Error:" in out and "Invariant" not in out:
        raise ToolFailure("generator %s failed: %s" % (module, out[-1500:]))
    return items, gen, dist, out


def _judge_one(args):
    module, cfg, shard, metadir, timeout = args
    rc, out = run_tlc(module + ".tla", cfg, metadir, env={"TRACE": shard}, workers=1, heap="3g", timeout=timeout)
    rejects = []
    for m in re.finditer(r'<<\s*"REJECT",\s*(\d+),\s*"([^"]*)"(?:,\s*"([^"]*)")?(?:,\s*"([^"]*)")?\s*>>', out):
        rejects.append((int(m.group(1)), m.group(2), m.group(3) or "", m.group(4) or ""))
    consumed = "Postcondition" not in out and ("No error has been found" in out)
    gen, dist = parse_states(out)
    return shard, sorted(set(rejects)), consumed, dist, out


def judge(ctx, module, cfg, shards, timeout=1500):
    """Validate trace shards against the trace specification.  Returns (rejects, n_states).  A shard the
    spec cannot consume completely (an event no action matches, TLC error) is a tool failure."""
    jobs = [(module, cfg, s, ctx.path("meta", "j_%s_%d" % (module, i)), timeout) for i, s in enumerate(shards)]
    rejects, states = [], 0
    with cf.ThreadPoolExecutor(max_workers=NCPU) as ex:
        for shard, rej, consumed, dist, out in ex.map(_judge_one, jobs):
            if not consumed:
                with open(ctx.path("judge_fail.log"), "w") as f:
                    f.write(out)
                raise ToolFailure("trace spec %s could not consume %s: %s" % (module, shard, out[-2000:]))
            states += dist
            for m in re.finditer(r'<<\s*"ORDER",\s*"([^"]*)",\s*(<<.*?>>)\s*>>\s*$', out, re.M):
                ctx.__dict__.setdefault("order_lines", []).append((m.group(1), m.group(2)))
            # L2 binding lines: the design model no longer describes the code (never a violation; reported in the evidence notes)
            nd = len(re.findall(r'<<\s*"(?:DRIFT|MODEL-DRIFT)"', out))
            if nd:
                ctx.drift = getattr(ctx, "drift", 0) + nd
                m = re.search(r'<<\s*"(?:DRIFT|MODEL-DRIFT)"[^\n]*', out)
                note = "MODEL-DRIFT: %d event(s) disagree with an L2 design model of %s, e.g. %s" % (nd, module, m.group(0)[:160])
                if not any(n.startswith("MODEL-DRIFT") and module in n for n in ctx.notes):
                    ctx.notes.append(note)
                    log(note)
            if rej:
                lines = open(shard).read().splitlines()
                for (ln, case, cfgname, tag) in rej:
                    rejects.append({"shard": shard, "line": ln, "case": case, "cfg": cfgname, "tag": tag, "event": json.loads(lines[ln - 1])})
    return rejects, states


# ------------------------------------------------------------------------------------------------
# build + run
def _cache_trim(limit_gb=12):
    try:
        ents = [(os.path.getmtime(p), p) for p in glob.glob(os.path.join(CACHE, "*"))]
        tot = sum(os.path.getsize(p) for _, p in ents)
        if tot < limit_gb * (1 << 30):
            return
        for _, p in sorted(ents)[: len(ents) // 2]:
            os.remove(p)
    except OSError:
        pass


def build_one(ctx, name, src, cfgname, extra_flags=(), allow_fail=False, timeout=1500):
    """Compile one TU (source text) under a configuration from /repo's working tree.  Returns binary path
    (or None with allow_fail).  Cache key covers every file under /repo/Fastor, the TU, flags, compiler."""
    flags = cfg_flags(cfgname) + list(extra_flags)
    key = hashlib.sha256((ctx.tree_hash() + "\0" + src + "\0" + " ".join(flags)).encode()).hexdigest()[:32]
    os.makedirs(CACHE, exist_ok=True)
    binp = os.path.join(CACHE, key)
    if os.path.exists(binp):
        os.utime(binp)
        return binp
    if os.path.exists(binp + ".fail"):
        if allow_fail:
            return None
    srcp = ctx.path("src", cfgname, name + ".cpp")
    with open(srcp, "w") as f:
        f.write(src)
    tmpb = ctx.path("bin", cfgname, name)
    cmd = [CXX] + flags + ["-D" + GUARD, "-I" + REPO, "-I" + HARN, "-w", srcp, "-o", tmpb]
    try:
        r = subprocess.run(cmd, capture_output=True, text=True, timeout=timeout)
    except subprocess.TimeoutExpired:
        raise ToolFailure("compile timeout %s [%s]" % (name, cfgname))
    if r.returncode != 0:
        if allow_fail:
            with open(ctx.path("compile_fail", cfgname, name + ".log"), "w") as f:
                f.write(r.stderr[:8000] + "\n...\n" + r.stderr[-12000:])
            open(binp + ".fail", "w").close()
            return None
        with open(ctx.path("compile_fail", cfgname, name + ".log"), "w") as f:
            f.write(" ".join(cmd) + "\n" + r.stderr[-20000:])
        raise ToolFailure("compile failed %s [%s]: %s" % (name, cfgname, r.stderr[-1500:]))
    shutil.move(tmpb, binp)
    return binp


def build_many(ctx, units, allow_fail=False, jobs=None):
    """units: list of (name, src, cfgname, extra_flags).  Returns {(name,cfg): bin}."""
    out = {}
    _cache_trim()
    with cf.ThreadPoolExecutor(max_workers=jobs or NCPU) as ex:
        futs = {ex.submit(build_one, ctx, n, s, c, e, allow_fail): (n, c) for (n, s, c, e) in units}
        for fu in cf.as_completed(futs):
            out[futs[fu]] = fu.result()
    return out


def run_bin(binp, outp, args=(), timeout=600, env=None):
    e = dict(os.environ)
    if env:
        e.update(env)
    try:
        r = subprocess.run([binp, outp] + list(args), capture_output=True, text=True, timeout=timeout, env=e)
    except subprocess.TimeoutExpired:
        raise ToolFailure("harness timeout %s" % binp)
    if r.returncode != 0:
        raise ToolFailure("harness %s exited %d: %s" % (binp, r.returncode, (r.stderr or r.stdout)[-800:]))
    return outp


def run_many(jobs, nworkers=None):
    """jobs: list of (bin, out, args).  Runs in parallel."""
    with cf.ThreadPoolExecutor(max_workers=nworkers or NCPU) as ex:
        return list(ex.map(lambda j: run_bin(j[0], j[1], j[2] if len(j) > 2 else ()), jobs))


def read_events(path):
    evs = []
    with open(path) as f:
        for line in f:
            line = line.strip()
            if line:
                evs.append(json.loads(line))
    return evs


def check_complete(path, evs):
    """Every harness ends its trace with an End event; a Fault event is kept (it is judged)."""
    if not evs or evs[-1].get("e") not in ("End", "Fault"):
        raise ToolFailure("truncated trace " + path)


def join_by_case(traces):
    """traces: {cfg: [events]} each event {e, case, in, out}.  Pure key join: inputs must be identical across
    configurations; outputs are collected per configuration."""
    merged, order = {}, []
    for cfgname, evs in traces.items():
        for ev in evs:
            if ev["e"] in ("End",):
                continue
            if ev["e"] == "Fault":
                k = "fault/%s/%s" % (cfgname, ev.get("case", ""))
                merged[k] = {"e": "Fault", "case": ev.get("case", ""), "in": {}, "outs": [{"cfg": cfgname, "isa": cfgname.split("-")[0], "out": {"sig": ev.get("sig", 0)}}]}
                order.append(k)
                continue
            k = ev["case"]
            if k not in merged:
                merged[k] = {"e": ev["e"], "case": k, "in": ev["in"], "outs": []}
                order.append(k)
            elif merged[k]["in"] != ev["in"]:
                raise ToolFailure("inputs of case %s differ between configurations (harness bug)" % k)
            merged[k]["outs"].append({"cfg": cfgname, "isa": cfgname.split("-")[0], "out": ev["out"]})
    return [merged[k] for k in order]


def write_shards(ctx, events, nshards=None, prefix="shard", weight=None):
    """Split events into ndjson shards of roughly equal weight."""
    nshards = max(1, min(nshards or NCPU, len(events)))
    buckets = [[] for _ in range(nshards)]
    loads = [0] * nshards
    w = weight or (lambda e: 1)
    for ev in sorted(events, key=w, reverse=True):
        i = loads.index(min(loads))
        buckets[i].append(ev)
        loads[i] += w(ev)
    paths = []
    for i, b in enumerate(buckets):
        if not b:
            continue
        p = ctx.path("trace", "%s_%02d.ndjson" % (prefix, i))
        with open(p, "w") as f:
            for ev in b:
                f.write(json.dumps(ev, separators=(",", ":")) + "\n")
        paths.append(p)
    return paths


# ------------------------------------------------------------------------------------------------
# known findings
def load_known():
    p = os.path.join(ROOT, "known_findings.json")
    if not os.path.exists(p):
        return {"findings": [], "fixed": []}
    return json.load(open(p))


def _sig_match(sig, flat):
    for k, v in sig.items():
        fv = flat.get(k)
        if isinstance(v, dict):
            if "in" in v and fv not in v["in"]:
                return False
            if "mod" in v:
                m, rs = v["mod"]
                if not isinstance(fv, int) or (fv % m) not in rs:
                    return False
            if "ge" in v and not (isinstance(fv, int) and fv >= v["ge"]):
                return False
            if "prefix" in v and not (isinstance(fv, str) and fv.startswith(v["prefix"])):
                return False
            if "contains" in v and not (isinstance(fv, str) and v["contains"] in fv):
                return False
        elif fv != v:
            return False
    return True


def flat_event(rej):
    """Flatten a rejected event into the discrete parameters that signatures may mention."""
    ev = rej["event"]
    flat = {"e": ev.get("e"), "case": rej.get("case"), "cfg": rej.get("cfg", ""), "tag": rej.get("tag", "")}
    flat["isa"] = flat["cfg"].split("-")[0] if flat["cfg"] else ""
    for k, v in ev.get("in", {}).items():
        if isinstance(v, (int, str)):
            flat[k] = v
    for k, v in ev.items():
        if isinstance(v, (int, str)) and k not in flat:
            flat[k] = v
    return flat


def classify(prop, rejects):
    known = [f for f in load_known()["findings"] if f["property"] == prop]
    kn, viol = {}, []
    for r in rejects:
        fl = flat_event(r)
        hit = None
        for f in known:
            if _sig_match(f["signature"], fl):
                hit = f
                break
        if hit:
            kn.setdefault(hit["id"], {"finding": hit, "n": 0, "example": r["case"]})["n"] += 1
        else:
            viol.append(r)
    return kn, viol


# ------------------------------------------------------------------------------------------------
def write_replay(ctx, rej):
    d = ctx.replay_dir
    os.makedirs(d, exist_ok=True)
    name = re.sub(r"[^A-Za-z0-9_.-]", "_", "%s__%s" % (rej["case"], rej.get("cfg", "")))[:150]
    p = os.path.join(d, name + ".json")
    with open(p, "w") as f:
        json.dump({"property": ctx.prop, "case": rej["case"], "cfg": rej.get("cfg", ""), "tier": ctx.tier, "seed": ctx.seed,
                   "line": rej["line"], "tag": rej.get("tag", ""), "rejected_event": rej["event"]}, f)
    return p


def write_evidence(ctx, level, coverage, assumptions, violations, extra=None):
    if os.environ.get("VERIF_NO_EVIDENCE") or os.environ.get("VERIF_CORRUPT"):
        return      # self-tests (seeded changes, corrupted traces) must not overwrite the evidence of the real tree
    os.makedirs(os.path.join(ROOT, "evidence"), exist_ok=True)
    ev = {"property_id": ctx.prop, "tier": ctx.tier, "seed": ctx.seed, "level": level, "coverage": coverage,
          "assumptions": assumptions, "wall_s": round(time.time() - ctx.t0, 1), "violations": violations}
    if extra:
        ev.update(extra)
    with open(os.path.join(ROOT, "evidence", ctx.prop + ".json"), "w") as f:
        json.dump(ev, f, indent=1)
