// Found while building C03 (belongs to C06: a call that compiles in some configurations only).
//   g++ -std=c++14 -O2 -I/repo c03_c06_complex_matmul_scalar_build.cpp                          -> compiles
//   g++ -std=c++14 -O2 -I/repo -DFASTOR_DONT_VECTORISE c03_c06_complex_matmul_scalar_build.cpp  -> error
//   simd_vector_complex_scalar.h:72: cannot convert 'std::complex<double>' to 'double' in return
//   (SIMDVector<std::complex<T>,simd_abi::scalar>::operator[] is declared to return T; instantiated by maskstore in _matmul_base_masked)
// Reached from matmul and from every complex einsum pattern routed to a flat matmul back end, e.g.
// einsum<Index<0,1,2>,Index<2,3,4,5>> on Tensor<c64,1,4,9>, Tensor<c64,9,2,1,8>.
#include <Fastor/Fastor.h>
#include <complex>
using namespace Fastor;
int main() {
    Tensor<std::complex<double>,4,9> a; Tensor<std::complex<double>,9,16> b;
    a.fill(1); b.fill(2);
    Tensor<std::complex<double>,4,16> c = matmul(a, b);
    return (int)c(0,0).real() == 18 ? 0 : 1;
}
