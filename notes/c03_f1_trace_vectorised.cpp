// C03 finding C03-F1 (class "trace_vectorised"): a label repeated INSIDE the second operand (a trace of b) in last position.
// STATUS: repaired in /repo (is_vectorisable: last index of b repeated inside b counts as contracted); this program now prints the expected values.
//   g++ -std=c++14 -O2 -msse2 -I/repo c03_f1_trace_vectorised.cpp && ./a.out        (any ISA, any CONTRACT_OPT)
// einsum<Index<0>,Index<1,1>>(a,b) denotes  r(i) = a(i) * sum_j b(j,j).  is_vectorisable<Idx0,Idx1,..> (einsum_meta.h) only asks
// whether b's LAST label occurs in a ("last_index_contracted"); here it does not, so the RecursiveCartesian loop nest
// (contraction.h) treats the summed label j as a free, unit-stride, vectorisable index: it loads V consecutive elements of b,
// stores V lanes into the result and steps j by V.  Result: wrong values, or SIGSEGV (aligned store past the result).
#include <Fastor/Fastor.h>
#include <cstdio>
using namespace Fastor;
int main() {
    Tensor<double,3> a; Tensor<double,4,4> b;
    for (int i = 0; i < 3; ++i) a(i) = i + 1;
    for (int i = 0; i < 4; ++i) for (int j = 0; j < 4; ++j) b(i,j) = 10 * i + j;      // trace(b) = 0+11+22+33 = 66
    auto r = einsum<Index<0>,Index<1,1>>(a, b);                                        // Tensor<double,3>
    for (int i = 0; i < 3; ++i) std::printf("r(%d) = %g   expected %g\n", i, r(i), a(i) * 66.0);
    return 0;
}
