// C03 finding C03-F2 (class "trace_in_flat_route"): a trace inside the longer operand of a "generalised matrix-vector" pattern.
// STATUS: repaired in /repo (no_trace conjunct in is_generalised_matrix_vector / vector_matrix / matrix_matrix); this program now prints the expected values.
//   g++ -std=c++14 -O2 -msse2 -I/repo c03_f2_trace_in_flat_route.cpp && ./a.out      (any ISA)
// einsum<Index<0,0,1>,Index<1>>(a,b) denotes the scalar  r = sum_{i,j} a(i,i,j) * b(j).  internal::match_indices_from_end
// (einsum_meta.h) only compares the overlapping tail of the two index lists (here <1> against <..,1>), so
// is_generalised_matrix_vector is true and einsum.h executes the flat product  out[0..I*I) = A[(I*I) x J] * b  into the
// one-element result Tensor<T>: it writes I*I elements (stack overflow) and returns a(0,0,:).b instead of the trace.
// contraction<Index<0,0,1>,Index<1>>(a,b) (no classifiers) returns the right value.
#include <Fastor/Fastor.h>
#include <cstdio>
using namespace Fastor;
int main() {
    Tensor<double,2,2,3> a; Tensor<double,3> b;
    for (int i = 0; i < 2; ++i) for (int k = 0; k < 2; ++k) for (int j = 0; j < 3; ++j) a(i,k,j) = 100 * i + 10 * k + j + 1;
    for (int j = 0; j < 3; ++j) b(j) = j + 1;
    double expected = 0;
    for (int i = 0; i < 2; ++i) for (int j = 0; j < 3; ++j) expected += a(i,i,j) * b(j);
    auto c = contraction<Index<0,0,1>,Index<1>>(a, b);
    std::printf("contraction: %g   expected %g\n", c.toscalar(), expected);
    auto r = einsum<Index<0,0,1>,Index<1>>(a, b);                                      // Tensor<double>
    std::printf("einsum     : %g   expected %g\n", r.toscalar(), expected);
    return 0;
}
