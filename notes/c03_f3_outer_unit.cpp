// C03 finding C03-F3 (tag "outer_unit_squeezed"): outer(a,b) with a Tensor<T,1> operand drops the extent-1 axis.
// Registered in known_findings.json as D29.
//   g++ -std=c++14 -O2 -I/repo c03_f3_outer_unit.cpp && ./a.out
// outer(a,b) denotes r(i...,j...) = a(i...)*b(j...) with the extents of both operands, which is what einsum<Index<0>,Index<1>>
// returns (Tensor<T,3,1>).  outerproduct.h has dedicated overloads for Tensor<T,1> that return Tensor<T,Rest...> without the
// unit axis; outer(Tensor<T,1>, Tensor<T,1>) matches both of them and does not compile.
#include <Fastor/Fastor.h>
#include <cstdio>
#include <type_traits>
using namespace Fastor;
int main() {
    Tensor<double,3> a; Tensor<double,1> b;
    a(0) = 1; a(1) = 2; a(2) = 3; b(0) = 5;
    auto r = outer(a, b);
    auto e = einsum<Index<0>,Index<1>>(a, b);
    std::printf("outer  : rank %d   (same type as Tensor<double,3>: %d)\n", (int)decltype(r)::dimension_t::value, (int)std::is_same<decltype(r), Tensor<double,3>>::value);
    std::printf("einsum : rank %d   (same type as Tensor<double,3,1>: %d)\n", (int)decltype(e)::dimension_t::value, (int)std::is_same<decltype(e), Tensor<double,3,1>>::value);
    // Tensor<double,1> u; outer(u, u);     // error: call of overloaded 'outer(Tensor<double,1>&, Tensor<double,1>&)' is ambiguous
    return 0;
}
