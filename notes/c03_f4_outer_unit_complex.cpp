// C03 finding C03-F4 (tag "outer_unit_complex_zero"): outer(a,b) with a complex Tensor<T,1> operand returns zeros.
// Registered in known_findings.json as D30.
//   g++ -std=c++14 -O2 -I/repo c03_f4_outer_unit_complex.cpp && ./a.out      (every ISA)
// The Tensor<T,1> overloads of outer (outerproduct.h) evaluate the expression  a * b.toscalar() ; for std::complex element
// types the library evaluates scalar*tensor expressions to zero (the complex-expression defect of C02), so the outer product is 0.
#include <Fastor/Fastor.h>
#include <complex>
#include <cstdio>
using namespace Fastor;
int main() {
    using C = std::complex<double>;
    Tensor<C,4> a; Tensor<C,1> b;
    for (int i = 0; i < 4; ++i) a(i) = C(i + 1, i - 2);
    b(0) = C(1, -1);
    auto r = outer(a, b);                                   // Tensor<C,4>  (the unit axis is dropped as well: finding C03-F3)
    auto e = einsum<Index<0>,Index<1>>(a, b);               // Tensor<C,4,1>, correct values
    for (int i = 0; i < 4; ++i)
        std::printf("outer %g%+gi   einsum %g%+gi   expected %g%+gi\n", r(i).real(), r(i).imag(), e(i,0).real(), e(i,0).imag(), (a(i) * b(0)).real(), (a(i) * b(0)).imag());
    return 0;
}
