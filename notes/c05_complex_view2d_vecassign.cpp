#include <Fastor/Fastor.h>
#include <complex>
#include <cstdio>
using namespace Fastor;
using C = std::complex<double>;
int main(){
  Tensor<C,3,13> a; for(int i=0;i<3;i++)for(int j=0;j<13;j++) a(i,j)=C(i*13+j+1,j-i);
  int bad=0;
  { Tensor<C,3,13> r=a; r(all,seq(2,11)) = C(7,-2);
    for(int i=0;i<3;i++)for(int j=0;j<13;j++){ C e=(j>=2&&j<11)?C(7,-2):a(i,j); if(r(i,j)!=e){bad++; printf("set-sc (%d,%d) got (%g,%g) exp (%g,%g)\n",i,j,r(i,j).real(),r(i,j).imag(),e.real(),e.imag());}} }
  { Tensor<C,3,13> r=a; r(all,seq(1,12,2)) = C(7,-2);
    for(int i=0;i<3;i++)for(int j=0;j<13;j++){ C e=(j>=1&&j<12&&(j-1)%2==0)?C(7,-2):a(i,j); if(r(i,j)!=e){bad++; printf("set-sc-step2 (%d,%d) got (%g,%g) exp (%g,%g)\n",i,j,r(i,j).real(),r(i,j).imag(),e.real(),e.imag());}} }
  { Tensor<C,3,13> r=a; r(seq(0,2),seq(2,11)) = a(seq(1,3),seq(3,12));
    for(int i=0;i<3;i++)for(int j=0;j<13;j++){ C e=(i<2&&j>=2&&j<11)?a(i+1,j+1):a(i,j); if(r(i,j)!=e){bad++; printf("set-vw (%d,%d) got (%g,%g) exp (%g,%g)\n",i,j,r(i,j).real(),r(i,j).imag(),e.real(),e.imag());}} }
  printf("bad=%d\n",bad);
}
