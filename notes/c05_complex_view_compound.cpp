#include <Fastor/Fastor.h>
#include <complex>
#include <cstdio>
using namespace Fastor;
using C = std::complex<double>;
int main(){
  Tensor<C,12> a, b; for(int i=0;i<12;i++){ a(i)=C(i+1,2*i-3); b(i)=C(3-i,i+2);}
  Tensor<C,12> r1=a, r2=a, r3=a, r4=a;
  r1(seq(2,10)) *= b(seq(1,9));
  r2(seq(2,10)) += b(seq(1,9));
  r3(seq(2,10)).noalias() *= b(seq(1,9));
  r4(seq(2,10)) *= C(2,1);
  int bad=0;
  for(int i=0;i<12;i++){ C e1 = (i>=2&&i<10)? a(i)*b(i-1):a(i); C e2=(i>=2&&i<10)? a(i)+b(i-1):a(i); C e4=(i>=2&&i<10)? a(i)*C(2,1):a(i);
    if(r1(i)!=e1){bad++; printf("mul  i=%d got (%g,%g) exp (%g,%g)\n",i,r1(i).real(),r1(i).imag(),e1.real(),e1.imag());}
    if(r2(i)!=e2){bad++; printf("add  i=%d\n",i);}
    if(r3(i)!=e1){bad++; printf("namul i=%d got (%g,%g) exp (%g,%g)\n",i,r3(i).real(),r3(i).imag(),e1.real(),e1.imag());}
    if(r4(i)!=e4){bad++; printf("smul i=%d got (%g,%g) exp (%g,%g)\n",i,r4(i).real(),r4(i).imag(),e4.real(),e4.imag());}
  }
  printf("bad=%d\n",bad);
}
