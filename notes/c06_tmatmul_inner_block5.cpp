#include <Fastor/Fastor.h>
#include <cstdio>
using namespace Fastor;
template<size_t M,size_t K,size_t N> int go(){
  Tensor<double,M,K> A; Tensor<double,K,N> B; 
  for(size_t i=0;i<M;i++)for(size_t j=0;j<K;j++) A(i,j) = (j>=i)? double((i*7+j*3)%5+1):0.0;   // upper
  for(size_t i=0;i<K;i++)for(size_t j=0;j<N;j++) B(i,j) = double((i*5+j)%7-3);
  Tensor<double,M,N> C = tmatmul<UpLoType::Upper,UpLoType::General>(A,B), R = matmul(A,B);
  int bad=0; for(size_t i=0;i<M;i++)for(size_t j=0;j<N;j++) if(C(i,j)!=R(i,j)) bad++;
  printf("%zux%zux%zu bad=%d\n",M,K,N,bad); return bad;
}
int main(){ int b=0; b+=go<24,25,48>(); b+=go<39,29,27>(); b+=go<8,8,24>(); b+=go<13,13,22>(); return b!=0; }
