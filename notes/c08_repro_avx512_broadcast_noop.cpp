// C08 finding F2: SIMDVector<float,avx512>::broadcast(const float*) and SIMDVector<double,avx512>::broadcast(const double*) have an
// empty body (the intrinsic is commented out): the vector is left unchanged; the sse and avx versions broadcast.
//   g++ -std=c++14 -O2 -march=skylake-avx512 -I/repo c08_repro_avx512_broadcast_noop.cpp && ./a.out     prints: lane0 = 1 (expected 5)
#include <Fastor/Fastor.h>
#include <cstdio>
using namespace Fastor;
int main() {
    float x = 5.f;
    SIMDVector<float, simd_abi::avx512> v(1.f);
    v.broadcast(&x);
    std::printf("lane0 = %g (expected 5)\n", v[0]);
    return v[0] == 5.f ? 0 : 1;
}
