// C08 finding F5: without AVX-512 masks (SSE2 .. AVX2 builds) mask_store of the complex vector specialisations writes 0 into the
// DISABLED lanes (complex_mask_*_store fallback: else data[..] = complex(0,0)); the same defect was fixed for the real types.
//   g++ -std=c++14 -O2 -mavx2 -mfma -I/repo c08_repro_complex_mask_store_zeroes.cpp && ./a.out
// prints: mem = 1 2 0 0   (expected 1 2 7 7)
#include <Fastor/Fastor.h>
#include <cstdio>
using namespace Fastor;
int main() {
    std::complex<double> src[4] = {{1, 0}, {2, 0}, {3, 0}, {4, 0}}, mem[4] = {{7, 0}, {7, 0}, {7, 0}, {7, 0}};
    SIMDVector<std::complex<double>, simd_abi::avx> v(src, false);
    v.mask_store(mem, 0x3, false);            // lanes 0 and 1 only
    std::printf("mem = %g %g %g %g   (expected 1 2 7 7)\n", mem[0].real(), mem[1].real(), mem[2].real(), mem[3].real());
    return mem[2].real() == 7. ? 0 : 1;
}
