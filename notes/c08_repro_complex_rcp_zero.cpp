// C08 finding F4: rcp() of every complex vector specialisation returns 0: the quotient is formed from the zero-initialised
// result instead of the operand (out.value_r = div(out.value_r, den); ...).
//   g++ -std=c++14 -O2 -msse2 -I/repo c08_repro_complex_rcp_zero.cpp && ./a.out        prints: rcp(2+0i) = 0 -0   (expected 0.5 -0)
#include <Fastor/Fastor.h>
#include <cstdio>
using namespace Fastor;
int main() {
    SIMDVector<std::complex<double>, simd_abi::sse> v(std::complex<double>(2, 0));
    auto w = rcp(v);
    std::printf("rcp(2+0i) = %g %g   (expected 0.5 -0)\n", w[0].real(), w[0].imag());
    return w[0].real() == 0.5 ? 0 : 1;
}
