// C08 finding F3: set(x0,...,xn-1) of the complex vector specialisations puts the FIRST argument in lane 0, every real-typed
// specialisation and the generic implementation put the LAST argument in lane 0 (the _mm_set_* convention that the library's own
// vector_setter relies on: vec.set(data[idx+stride], data[idx]) expects lane 0 = data[idx]).
//   g++ -std=c++14 -O2 -msse2 -I/repo c08_repro_complex_set_order.cpp && ./a.out
// prints: real lane0=2 lane1=1 | complex lane0=1 lane1=2 | vector_setter(complex) lane0=20 (expected 10)
#include <Fastor/Fastor.h>
#include <cstdio>
using namespace Fastor;
int main() {
    SIMDVector<double, simd_abi::sse> r; r.set(1., 2.);
    SIMDVector<std::complex<double>, simd_abi::sse> c; c.set(std::complex<double>(1, 0), std::complex<double>(2, 0));
    std::complex<double> data[2] = {{10, 0}, {20, 0}};
    SIMDVector<std::complex<double>, simd_abi::sse> g; vector_setter(g, data, 0, 1);     // gather with stride 1: lane k must be data[k]
    std::printf("real lane0=%g lane1=%g | complex lane0=%g lane1=%g | vector_setter(complex) lane0=%g (expected 10)\n",
                r[0], r[1], c[0].real(), c[1].real(), g[0].real());
    return (c[0].real() == 2. && g[0].real() == 10.) ? 0 : 1;
}
