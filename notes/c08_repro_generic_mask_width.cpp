// C08 finding F1: the generic SIMDVector (fixed_size<n>, and any ABI wider than the ISA, e.g. SIMDVector<float,avx512> in an AVX2 build)
// declares mask_load/mask_store with a uint8_t mask whatever its Size: for 16 lanes the lanes 8..15 can never be enabled
// (same class as the fixed int32 AVX-512 mask width bug).
//   g++ -std=c++14 -O2 -mavx2 -mfma -I/repo c08_repro_generic_mask_width.cpp && ./a.out
// prints: stored lanes: 1 1 1 1 1 1 1 1 0 0 0 0 0 0 0 0   (expected 16 x 1)
#include <Fastor/Fastor.h>
#include <cstdio>
using namespace Fastor;
int main() {
    float mem[16] = {0};
    SIMDVector<float, simd_abi::avx512> v(1.f);          // generic implementation in this build, Size = 16
    v.mask_store(mem, 0xFFFF, false);
    std::printf("stored lanes:"); for (int i = 0; i < 16; ++i) std::printf(" %g", mem[i]); std::printf("   (expected 16 x 1)\n");
    return mem[15] == 1.f ? 0 : 1;
}
