#include <Fastor/Fastor.h>
#include <cstdio>
using namespace Fastor;
enum {I,J,K,L,M,N,O};
int main(){
  Tensor<double,2,2,2> A; Tensor<double,2,2> B,C,D,E; A.iota(1); B.iota(2); C.iota(-3); D.iota(1); E.iota(-1);
  for(int i=0;i<8;i++) A.data()[i] = (i*7)%5-2; for(int i=0;i<4;i++){B.data()[i]=(i*3)%4-1; C.data()[i]=(i*5)%3-1; D.data()[i]=i-1; E.data()[i]=2-i;}
  auto r = einsum<Index<I,J,K>,Index<I,L>,Index<J,M>,Index<K,N>,Index<N,O>>(A,B,C,D,E);
  // free: L,M,O
  double ref[2][2][2]={}; 
  for(int l=0;l<2;l++)for(int m=0;m<2;m++)for(int o=0;o<2;o++){ double s=0; for(int i=0;i<2;i++)for(int j=0;j<2;j++)for(int k=0;k<2;k++)for(int n=0;n<2;n++) s+=A(i,j,k)*B(i,l)*C(j,m)*D(k,n)*E(n,o); ref[l][m][o]=s;}
  printf("got: "); for(int i=0;i<8;i++) printf("%g ", r.data()[i]); printf("\nref: "); for(int l=0;l<2;l++)for(int m=0;m<2;m++)for(int o=0;o<2;o++) printf("%g ", ref[l][m][o]); printf("\n");
}
