// C16 finding: determinant<DetCompType::QR>(A) returns |det A|.
// unary_qr_op.h computes product(diag(R)) of a modified Gram-Schmidt factorisation whose R has a positive diagonal
// (R_ii = sqrt(sum of squares)), and drops det(Q) = +-1.  Every matrix with a negative determinant is affected, n >= 1.
//   g++ -std=c++14 -O2 -msse2 -I/repo c16_det_qr_abs_repro.cpp && ./a.out
//   expected  simple -35  lu -35  qr -35 ; observed  qr 35   (and 1x1 [-3]: qr 3)
#include <Fastor/Fastor.h>
#include <cstdio>
using namespace Fastor;
int main() {
    Tensor<double,3,3> A = {{-3, -1, 0}, {0, 3, -1}, {1, 0, 4}};     // det = -35
    double s = determinant(A);
    double l = determinant<DetCompType::LU>(A);
    double q = determinant<DetCompType::QR>(A);
    std::printf("simple %g  lu %g  qr %g\n", s, l, q);
    Tensor<double,1,1> B = {{-3}};
    std::printf("1x1: lu %g  qr %g\n", determinant<DetCompType::LU>(B), determinant<DetCompType::QR>(B));
    return (q * s < 0) ? 1 : 0;
}
