// C16 finding: isequal(a, b) (and therefore isorthogonal) is false for IDENTICAL integer tensors.
// AbstractTensorFunctions.h evaluates  all_of(abs(a - b) < Tol)  with the double tolerance PRECI_TOL converted to the
// integer element type, i.e. |a_i - b_i| < 0, which never holds.
//   g++ -std=c++14 -O2 -msse2 -I/repo c16_isequal_int_repro.cpp && ./a.out
//   expected 1 1 1 ; observed 0 0 1
#include <Fastor/Fastor.h>
#include <cstdio>
#include <cstdint>
using namespace Fastor;
int main() {
    Tensor<int,4> a = {1, -2, 3, 4};
    Tensor<std::int64_t,2,2> I; I.eye2();
    Tensor<double,4> d = {1, -2, 3, 4};
    bool r1 = isequal(a, a), r2 = isorthogonal(I), r3 = isequal(d, d);
    std::printf("isequal(int a,a) %d  isorthogonal(int64 identity) %d  isequal(double d,d) %d\n", (int)r1, (int)r2, (int)r3);
    return (r1 && r2) ? 0 : 1;
}
