// C16 / C06 finding: product() of an int32 tensor (free function and Tensor::product()) does not compile under AVX2:
// SIMDVector<int32_t,simd_abi::avx> has sum() but no product() (the sse and avx512 specialisations have both).
//   g++ -std=c++14 -O2 -mavx2 -mfma -I/repo c16_product_i32_avx2_repro.cpp      -> error: no member named 'product'
//   g++ -std=c++14 -O2 -msse2 ...  and  -march=skylake-avx512 ...              -> compile, print 48 48
#include <Fastor/Fastor.h>
#include <cstdio>
using namespace Fastor;
int main() {
    Tensor<int,9> a = {1, 2, 1, -1, 2, 1, -3, 2, 2};
    std::printf("%d %d\n", product(a), a.product());
    return 0;
}
