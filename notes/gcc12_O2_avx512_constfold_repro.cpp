#include <Fastor/Fastor.h>
#include <cstdio>
using namespace Fastor;
typedef int T;
struct Bx { int g0[16]; Tensor<int,3,37> t; int g1[16]; };
static Bx bx;
template<class TensorT> static TensorT mk(std::initializer_list<int> v) {
    TensorT t; size_t i = 0;
    for (auto it = v.begin(); it != v.end(); ) { int re = *it++; t.data()[i++] = (T)re; }
    return t;
}
int main(){
  auto& A = bx.t; Tensor<int,3,37> R;
  for (int i=0;i<111;++i){ A.data()[i] = ((i*7+6)%19)-9; }
  R = A;
  A(seq(0,3,1),all) *= mk<Tensor<T,3,37>>({-1,0,2,-2,-2,2,3,-3,-2,-1,-2,-3,1,0,2,3,-1,2,-3,3,-3,0,-2,-2,2,0,-2,-3,-1,0,1,-2,-2,0,1,3,1,0,2,3,3,3,-1,1,-1,-1,2,0,2,2,-1,-3,3,-1,-3,3,-3,0,3,2,-3,-1,2,3,3,-1,-3,0,2,-2,3,2,-1,-3,-1,-3,-1,-1,-1,-1,-2,0,2,3,-3,3,3,-1,3,-2,-1,0,0,0,-1,-1,-1,-1,0,3,3,-3,-3,-1,1,2,0,2,2,-1,-3});
  Tensor<int,3,37> B = mk<Tensor<T,3,37>>({-1,0,2,-2,-2,2,3,-3,-2,-1,-2,-3,1,0,2,3,-1,2,-3,3,-3,0,-2,-2,2,0,-2,-3,-1,0,1,-2,-2,0,1,3,1,0,2,3,3,3,-1,1,-1,-1,2,0,2,2,-1,-3,3,-1,-3,3,-3,0,3,2,-3,-1,2,3,3,-1,-3,0,2,-2,3,2,-1,-3,-1,-3,-1,-1,-1,-1,-2,0,2,3,-3,3,3,-1,3,-2,-1,0,0,0,-1,-1,-1,-1,0,3,3,-3,-3,-1,1,2,0,2,2,-1,-3});
  int bad=0; for (int i=0;i<111;++i) if (A.data()[i]!=R.data()[i]*B.data()[i]) { if (bad<10) printf("i=%d got %d exp %d\n", i, A.data()[i], R.data()[i]*B.data()[i]); bad++; }
  printf("bad=%d\n", bad); return bad!=0;
}
