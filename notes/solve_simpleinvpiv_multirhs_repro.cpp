// D16 (C12): solve<SolveCompType::SimpleInvPiv>(A, B) with a MATRIX right-hand side returns a wrong solution whenever
// the row pre-pivot of A is not the identity.  binary_solve_op.h undoes the pivot with reconstruct(invA, p) (row-wise)
// in the multi-column overload; the single-column overload (correctly) uses reconstruct_colwise(invA, p).
//   g++ -std=c++14 -O2 -msse2 -I/repo solve_simpleinvpiv_multirhs_repro.cpp && ./a.out
// prints  vector rhs: |A x - b| = 0   matrix rhs: |A X - B| = 2.20513   (any ISA; expected ~1e-15)
#include <Fastor/Fastor.h>
#include <cstdio>
using namespace Fastor;
int main() {
    Tensor<double,3,3> A = {{1, 9, 2}, {8, 1, 1}, {2, 1, 7}};       // rows 0 and 1 of a diagonally dominant matrix swapped
    Tensor<double,3> b = {1, 2, 3};
    Tensor<double,3,2> B = {{1, 3}, {2, -1}, {3, 2}};
    Tensor<double,3> x = solve<SolveCompType::SimpleInvPiv>(A, b);
    Tensor<double,3,2> X = solve<SolveCompType::SimpleInvPiv>(A, B);
    Tensor<double,3> r = matmul(A, x) - b;
    Tensor<double,3,2> R = matmul(A, X) - B;
    double e1 = 0, e2 = 0;
    for (int i = 0; i < 3; ++i) e1 += std::fabs(r(i));
    for (int i = 0; i < 3; ++i) for (int j = 0; j < 2; ++j) e2 += std::fabs(R(i, j));
    std::printf("vector rhs: |A x - b| = %g   matrix rhs: |A X - B| = %g\n", e1, e2);
    return e2 > 1e-9;
}
