-------------------------------- MODULE ArgMinUnbounded --------------------------------
(* Unbounded companion of MC_NetworkCost: the selection rule of meta_argmin (transcribed in          *)
(* NetworkOrder!ArgMin4) for ARBITRARY natural costs, not only the costs of the enumerated networks:  *)
(* the chosen candidate has minimal cost; a tie between the first two goes to the second; a later      *)
(* candidate is chosen only when strictly cheaper than all earlier ones.  Apalache, Init => Inv.       *)
EXTENDS Integers
VARIABLES
  \* @type: Int;
  c1,
  \* @type: Int;
  c2,
  \* @type: Int;
  c3,
  \* @type: Int;
  c4
Min2(m, n) == IF m < n THEN m ELSE n
ArgMin2(m, n) == IF m < n THEN 0 ELSE 1
ArgMin3(m, n, r) == LET p == Min2(m, n) IN IF p <= Min2(p, r) THEN ArgMin2(m, n) ELSE ArgMin2(p, r) + 1
ArgMin4(m, n, r, q) == LET p == Min2(m, n) IN IF p <= Min2(p, Min2(r, q)) THEN ArgMin2(m, n) ELSE ArgMin3(p, r, q) + 1
V == ArgMin4(c1, c2, c3, c4)
CostOf(v) == IF v = 0 THEN c1 ELSE IF v = 1 THEN c2 ELSE IF v = 2 THEN c3 ELSE c4
MinC == Min2(Min2(c1, c2), Min2(c3, c4))
Init == c1 \in Nat /\ c2 \in Nat /\ c3 \in Nat /\ c4 \in Nat
Next == UNCHANGED <<c1, c2, c3, c4>>
Inv == /\ V \in 0..3 /\ CostOf(V) = MinC
       /\ ((c1 = c2 /\ c1 = MinC) => V = 1)
       /\ (V = 2 => c3 < Min2(c1, c2))
       /\ (V = 3 => c4 < Min2(Min2(c1, c2), c3))
=======================================================================================
