--------------------------------- MODULE BlockLinalg ---------------------------------
(* L2 design model: the size-class dispatch and the block splits of Fastor's recursive inverse,      *)
(* triangular inverses and block LU (unary_inv_op.h: inverse_dispatcher / ut_inverse_dispatcher /     *)
(* lut_inverse_dispatcher; unary_lu_op.h: lu_block_dispatcher, useless::lu_block_simple_dispatcher,   *)
(* lu_simple_dispatcher).  Transcribed from the enable_if ranges and the `constexpr size_t N = ...`    *)
(* lines.  TLC checks exhaustively for every order n in 1..MaxN that                                  *)
(*   - n lands in exactly one size class (or in none above 256 for the inverses: not offered),         *)
(*   - every split is proper (0 < N < M) and both halves land in a class again,                        *)
(*   - the leaves of the recursion tile [0, n) exactly (no gap, no overlap),                           *)
(*   - every leaf has the order its kernel is written for (closed forms <= 4, unrolled LU <= 8, ...),   *)
(*   - the triangular inverses the block LU calls on its leading block exist (order <= 256).           *)
(* This is an L2 model: a mismatch with the code would be MODEL-DRIFT, never a violation.  There are    *)
(* no route hooks for these dispatchers in the library, so the model is bound by transcription only.   *)
EXTENDS Integers, FiniteSets, TLC
CONSTANT MaxN
VARIABLE n

\* ---- recursive inverse / ut / lut inverse: the three dispatchers share these ranges and split sizes
InvClasses == << [lo |-> 1, hi |-> 4, q |-> 0],          \* closed forms  (_inverse<T,M>, _lowunitri_inverse<T,M>)
                 [lo |-> 5, hi |-> 8, q |-> 0],          \* N = 4
                 [lo |-> 9, hi |-> 16, q |-> 0],         \* N = 8
                 [lo |-> 17, hi |-> 32, q |-> 8],        \* N = (M/8*8)/2
                 [lo |-> 33, hi |-> 64, q |-> 16],       \* N = (M/16*16)/2
                 [lo |-> 65, hi |-> 128, q |-> 32],      \* N = (M/32*32)/2
                 [lo |-> 129, hi |-> 256, q |-> 64] >>   \* N = (M/64*64)/2
InvClassOf(M) == {k \in 1..7 : InvClasses[k].lo <= M /\ M <= InvClasses[k].hi}
InvSplit(M) == LET k == CHOOSE k \in InvClassOf(M) : TRUE
               IN IF k = 2 THEN 4 ELSE IF k = 3 THEN 8 ELSE ((M \div InvClasses[k].q) * InvClasses[k].q) \div 2
RECURSIVE InvTiles(_, _)
InvTiles(lo, M) == IF M <= 4 THEN {<<lo, M>>} ELSE InvTiles(lo, InvSplit(M)) \cup InvTiles(lo + InvSplit(M), M - InvSplit(M))
RECURSIVE InvSplitsOK(_)
InvSplitsOK(M) == IF M <= 4 THEN TRUE
                  ELSE LET N == InvSplit(M) IN /\ N > 0 /\ N < M
                                               /\ Cardinality(InvClassOf(N)) = 1 /\ Cardinality(InvClassOf(M - N)) = 1
                                               /\ InvSplitsOK(N) /\ InvSplitsOK(M - N)

\* ---- block LU
\* class 1: M <= 8 unrolled _lufact; 2: 9..32 recursive_lu (rank-1 updates, no split); 3: 33..64 split (M/8*8)/2, halves by lu_block_dispatcher;
\* class 4: M > 64 split (M/16*16)/2, halves by lu_block_simple_dispatcher (<= 64: lu_block_dispatcher, > 64: recursive_lu, a leaf)
LUClassOf(M) == {k \in 1..4 : CASE k = 1 -> M >= 1 /\ M <= 8 [] k = 2 -> M >= 9 /\ M <= 32 [] k = 3 -> M >= 33 /\ M <= 64 [] k = 4 -> M > 64}
LUSplit(M) == IF M <= 64 THEN ((M \div 8) * 8) \div 2 ELSE ((M \div 16) * 16) \div 2
RECURSIVE LUTiles(_, _, _)
\* viaSimple: this block was handed to lu_block_simple_dispatcher
LUTiles(lo, M, viaSimple) ==
    IF M <= 32 \/ (viaSimple /\ M > 64) THEN {<<lo, M>>}
    ELSE LET N == LUSplit(M)  sub == M > 64
         IN LUTiles(lo, N, sub) \cup LUTiles(lo + N, M - N, sub)
RECURSIVE LUSplitsOK(_, _)
LUSplitsOK(M, viaSimple) ==
    IF M <= 32 \/ (viaSimple /\ M > 64) THEN TRUE
    ELSE LET N == LUSplit(M)  sub == M > 64
         IN /\ N > 0 /\ N < M
            /\ Cardinality(InvClassOf(N)) = 1            \* tinverse<UniLower>(L11), tinverse<Upper>(U11) exist for the leading block
            /\ LUSplitsOK(N, sub) /\ LUSplitsOK(M - N, sub)

Covers(tiles, M) == /\ UNION {{t[1] + i : i \in 0..(t[2] - 1)} : t \in tiles} = 0..(M - 1)
                    /\ \A s, t \in tiles : s # t => (s[1] + s[2] <= t[1] \/ t[1] + t[2] <= s[1])

Init == n \in 1..MaxN
Next == UNCHANGED n
Spec == Init /\ [][Next]_n

InvOneClass == IF n <= 256 THEN Cardinality(InvClassOf(n)) = 1 ELSE InvClassOf(n) = {}        \* above 256 no overload: not offered
InvSplits == n <= 256 => InvSplitsOK(n)
InvTiling == n <= 256 => LET t == InvTiles(0, n) IN Covers(t, n) /\ \A x \in t : x[2] >= 1 /\ x[2] <= 4
LUOneClass == Cardinality(LUClassOf(n)) = 1
LUSplits == LUSplitsOK(n, FALSE)
\* a leaf is factorised by _lufact (<= 8), by recursive_lu (9..32) or -- only below a > 64 split -- by recursive_lu on a block of more than 64 rows
LUTiling == LET t == LUTiles(0, n, FALSE) IN Covers(t, n) /\ \A x \in t : x[2] >= 1 /\ (x[2] <= 32 \/ (n > 64 /\ x[2] > 64 /\ x[2] < n))
\* documented split examples of the source comments: 35 = 16 + 19 and 65 = 32 + 33
Examples == (n = 35 => LUSplit(n) = 16) /\ (n = 65 => LUSplit(n) = 32 /\ InvSplit(n) = 32) /\ (n = 17 => InvSplit(n) = 8) /\ (n = 33 => InvSplit(n) = 16)
=====================================================================================
