--------------------------------- MODULE ClipUnbounded ---------------------------------
(* Unbounded companion of TmatmulClip!ClipContainsSupport (checked by TLC for shapes up to a bound):   *)
(* for EVERY block origin (i0, j0), block extents uo, ui >= 1, inner extent K >= 1 and tag pair, the      *)
(* clipped k range [KFirst, KLast) of internal::find_kfirst / find_klast contains every k at which some   *)
(* cell (i, j) of the block has a structurally non-zero term  A(i,k) * B(k,j)  -- skipping the k outside   *)
(* the clip loses nothing.  Tags: 0 General, 1 Lower, 2 Upper.  Checked with Apalache as Init => Inv.      *)
EXTENDS Integers

VARIABLES
  \* @type: Int;
  lt,
  \* @type: Int;
  rt,
  \* @type: Int;
  i0,
  \* @type: Int;
  j0,
  \* @type: Int;
  uo,
  \* @type: Int;
  ui,
  \* @type: Int;
  K,
  \* @type: Int;
  i,
  \* @type: Int;
  j,
  \* @type: Int;
  k

Max2(a, b) == IF a >= b THEN a ELSE b
Min2(a, b) == IF a <= b THEN a ELSE b
\* transcription of TmatmulClip!KFirst / KLast
KFirst == IF lt \in {1, 0} THEN (IF rt = 1 THEN j0 ELSE 0)
          ELSE (IF rt = 1 THEN Max2(i0, j0) ELSE i0)
KLast == IF lt = 1 THEN (IF rt = 2 THEN Min2(Min2(i0 + uo, j0 + ui), K) ELSE Min2(i0 + uo, K))
         ELSE (IF rt = 2 THEN Min2(j0 + ui, K) ELSE K)
\* element (r, c) of an operand with the tag may be non-zero
InTriangle(tag, r, c) == tag = 0 \/ (tag = 1 /\ c <= r) \/ (tag = 2 /\ c >= r)

Init == /\ lt \in 0..2 /\ rt \in 0..2
        /\ i0 \in Int /\ j0 \in Int /\ uo \in Int /\ ui \in Int /\ K \in Int /\ i \in Int /\ j \in Int /\ k \in Int
        /\ i0 >= 0 /\ j0 >= 0 /\ uo >= 1 /\ ui >= 1 /\ K >= 1
        /\ i >= i0 /\ i < i0 + uo /\ j >= j0 /\ j < j0 + ui          \* a cell of the block
        /\ k >= 0 /\ k < K /\ InTriangle(lt, i, k) /\ InTriangle(rt, k, j)   \* a structurally non-zero term
Next == UNCHANGED <<lt, rt, i0, j0, uo, ui, K, i, j, k>>

Inv == KFirst <= k /\ k < KLast /\ KFirst >= 0 /\ KLast <= K
=======================================================================================
