SPECIFICATION Spec
INVARIANT WellFormed
INVARIANT ArrayOK
CHECK_DEADLOCK FALSE
INVARIANT SweepOK
