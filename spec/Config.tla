----------------------------------- MODULE Config -----------------------------------
(* The build-configuration lattice of the library (C06) and the coverage obligations of the           *)
(* configuration sets the checks use.  A configuration is a record                                    *)
(*    [isa, std, opt, chk, mac]   mac = one documented tuning macro setting or "none".                 *)
(* ConfigIndependence itself is judged per case by the other trace specifications: every case's           *)
(* outputs under ALL configurations of the array are compared with one L1 value computed once (the join), *)
(* which for exact data is bit-identity across configurations; CompileAgreement: a translation unit that  *)
(* compiles under one configuration compiles under all (CompileFail events are rejections).               *)
(* This module checks the ARRAY: every factor value occurs, and every pair of the listed factor pairs.   *)
EXTENDS Integers, Sequences, FiniteSets, TLC, Json, IOUtils
ISA == {"scalar", "sse2", "sse42", "avx", "avx2", "avx512"}
STD == {"14", "17"}
OPT == {"O0", "O1", "O2", "O3"}
CHK == {"0", "1"}                                  \* FASTOR_ENABLE_RUNTIME_CHECKS
MAC == {"none", "FASTOR_USE_HADD", "FASTOR_MATMUL_OUTER_BLOCK_SIZE=1", "FASTOR_MATMUL_OUTER_BLOCK_SIZE=3", "FASTOR_MATMUL_INNER_BLOCK_SIZE=1",
        "FASTOR_MATMUL_INNER_BLOCK_SIZE=3", "FASTOR_MATMUL_INNER_BLOCK_SIZE=5", "FASTOR_TRANS_OUTER_BLOCK_SIZE=2", "FASTOR_TRANS_INNER_BLOCK_SIZE=4",
        "FASTOR_DONT_PERFORM_OP_MIN", "FASTOR_KEEP_DP_FIXED", "FASTOR_USE_VECTORISED_EXPR_ASSIGN", "FASTOR_ZERO_INITIALISE",
        "FASTOR_DISABLE_SPECIALISED_CTR", "FASTOR_DISPATCH_DIV_TO_MUL_EXPR"}
Arr == JsonDeserialize(IOEnv.CONFIG_ARRAY)          \* file holding the sequence of configuration records chosen by the driver
VARIABLE i
Init == i = 1
Next == i < Len(Arr) /\ i' = i + 1                  \* one state per configuration of the array
Spec == Init /\ [][Next]_i
WellFormed == LET c == Arr[i] IN c.isa \in ISA /\ c.std \in STD /\ c.opt \in OPT /\ c.chk \in CHK /\ c.mac \in MAC
Vals(f) == {Arr[k][f] : k \in 1..Len(Arr)}
EveryValueCovered == Vals("isa") = ISA /\ Vals("std") = STD /\ Vals("opt") = OPT /\ Vals("chk") = CHK
Pairs(f, g) == {<<Arr[k][f], Arr[k][g]>> : k \in 1..Len(Arr)}
\* pair coverage claimed by the tiers (Level = "quick": isa x std; "thorough": also isa x opt, std x opt, and every macro on avx2 and avx512)
Level == IOEnv.CONFIG_LEVEL
PairsCovered == /\ Pairs("isa", "std") = ISA \X STD
                /\ (Level = "thorough" => Pairs("isa", "opt") = ISA \X OPT /\ Pairs("std", "opt") = STD \X OPT
                                          /\ \A m \in MAC : <<"avx2", m>> \in Pairs("isa", "mac") /\ <<"avx512", m>> \in Pairs("isa", "mac"))
MacrosCovered == Level = "quick" \/ Vals("mac") = MAC
\* ---- macro sweeps.  Affects: the API areas (named by the property whose corpus exercises them) that contain code inside the macro's
\* #if blocks (Fastor/: grep -rl <macro>):  HADD: extintrin.h horizontal adds used by the SIMD types' sum/dot, backend/norm.h, trace.h,
\* determinant.h, inverse.h, doublecontract.h/outer.h (einsum back ends), matmul_specialisations_kernels.h;  block sizes: matmul_kernels.h and
\* tmatmul.h / transpose.h;  op-min: network_contraction*.h, abstract_contraction.h, einsum_explicit.h;  vectorised expression assignment:
\* the view classes;  zero-initialise / specialised constructors: Tensor.h, simd_vector_base.h;  div-to-mul: binary_div_op.h.
Affects == [m \in MAC \ {"none"} |->
    CASE m = "FASTOR_USE_HADD" -> {"C16", "C08", "C01", "C03", "C10"}
      [] m \in {"FASTOR_MATMUL_OUTER_BLOCK_SIZE=1", "FASTOR_MATMUL_OUTER_BLOCK_SIZE=3", "FASTOR_MATMUL_INNER_BLOCK_SIZE=1", "FASTOR_MATMUL_INNER_BLOCK_SIZE=3"} -> {"C01", "C17"}
      [] m = "FASTOR_MATMUL_INNER_BLOCK_SIZE=5" -> {"C01", "C17"}
      [] m \in {"FASTOR_TRANS_OUTER_BLOCK_SIZE=2", "FASTOR_TRANS_INNER_BLOCK_SIZE=4"} -> {"C14"}
      [] m \in {"FASTOR_DONT_PERFORM_OP_MIN", "FASTOR_KEEP_DP_FIXED"} -> {"C03"}          \* C15 runs its whole plan under both macros itself
      [] m = "FASTOR_USE_VECTORISED_EXPR_ASSIGN" -> {"C05", "C04", "C19"}
      [] m = "FASTOR_ZERO_INITIALISE" -> {"C08", "C20"}
      [] m = "FASTOR_DISABLE_SPECIALISED_CTR" -> {"C20"}
      [] m = "FASTOR_DISPATCH_DIV_TO_MUL_EXPR" -> {"C02"}]
Sweep == JsonDeserialize(IOEnv.CONFIG_SWEEP)        \* sequence of [area, cfgs] chosen by the driver
Wide == {"avx", "avx2", "avx512"}
\* every sweep has a macro-free baseline to compare with; every (macro, area) of Affects is run with the macro on a wide ISA
\* (thorough: on AVX2 and on AVX-512)
SweepJobOK(j) == /\ \E k \in 1..Len(j.cfgs) : j.cfgs[k].mac = "none" /\ j.cfgs[k].isa \in Wide
                 /\ \A k \in 1..Len(j.cfgs) : j.cfgs[k].isa \in ISA /\ j.cfgs[k].mac \in MAC
Covered(m, a, isa) == \E s \in 1..Len(Sweep) : Sweep[s].area = a /\ \E k \in 1..Len(Sweep[s].cfgs) : Sweep[s].cfgs[k].mac = m /\ Sweep[s].cfgs[k].isa = isa
SweepOK == /\ \A s \in 1..Len(Sweep) : SweepJobOK(Sweep[s])
           /\ \A m \in MAC \ {"none"} : \A a \in Affects[m] :
                 IF Level = "thorough" THEN Covered(m, a, "avx2") /\ Covered(m, a, "avx512")
                 ELSE \E isa \in Wide : Covered(m, a, isa)
ArrayOK == EveryValueCovered /\ PairsCovered /\ MacrosCovered
=====================================================================================
