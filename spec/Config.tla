----------------------------------- MODULE Config -----------------------------------
(* The build-configuration lattice of the library (C06) and the coverage obligations of the           *)
(* configuration sets the checks use.  A configuration is a record                                    *)
(*    [isa, std, opt, chk, mac]   mac = one documented tuning macro setting or "none".                 *)
(* ConfigIndependence itself is judged per case by the other trace specifications: every case's           *)
(* outputs under ALL configurations of the array are compared with one L1 value computed once (the join), *)
(* which for exact data is bit-identity across configurations; CompileAgreement: a translation unit that  *)
(* compiles under one configuration compiles under all (CompileFail events are rejections).               *)
(* This module checks the ARRAY: every factor value occurs, and every pair of the listed factor pairs.   *)
EXTENDS Integers, Sequences, FiniteSets, TLC, Json, IOUtils
ISA == {"scalar", "sse2", "sse42", "avx", "avx2", "avx512"}
STD == {"14", "17"}
OPT == {"O0", "O1", "O2", "O3"}
CHK == {"0", "1"}                                  \* FASTOR_ENABLE_RUNTIME_CHECKS
MAC == {"none", "FASTOR_USE_HADD", "FASTOR_MATMUL_OUTER_BLOCK_SIZE=1", "FASTOR_MATMUL_OUTER_BLOCK_SIZE=3", "FASTOR_MATMUL_INNER_BLOCK_SIZE=1",
        "FASTOR_MATMUL_INNER_BLOCK_SIZE=3", "FASTOR_MATMUL_INNER_BLOCK_SIZE=5", "FASTOR_TRANS_OUTER_BLOCK_SIZE=2", "FASTOR_TRANS_INNER_BLOCK_SIZE=4",
        "FASTOR_DONT_PERFORM_OP_MIN", "FASTOR_KEEP_DP_FIXED", "FASTOR_USE_VECTORISED_EXPR_ASSIGN", "FASTOR_ZERO_INITIALISE",
        "FASTOR_DISABLE_SPECIALISED_CTR", "FASTOR_DISPATCH_DIV_TO_MUL_EXPR"}
Arr == JsonDeserialize(IOEnv.CONFIG_ARRAY)          \* file holding the sequence of configuration records chosen by the driver
VARIABLE i
Init == i = 1
Next == i < Len(Arr) /\ i' = i + 1                  \* one state per configuration of the array
Spec == Init /\ [][Next]_i
WellFormed == LET c == Arr[i] IN c.isa \in ISA /\ c.std \in STD /\ c.opt \in OPT /\ c.chk \in CHK /\ c.mac \in MAC
Vals(f) == {Arr[k][f] : k \in 1..Len(Arr)}
EveryValueCovered == Vals("isa") = ISA /\ Vals("std") = STD /\ Vals("opt") = OPT /\ Vals("chk") = CHK
Pairs(f, g) == {<<Arr[k][f], Arr[k][g]>> : k \in 1..Len(Arr)}
\* pair coverage claimed by the tiers (Level = "quick": isa x std; "thorough": also isa x opt, std x opt, and every macro on avx2 and avx512)
Level == IOEnv.CONFIG_LEVEL
PairsCovered == /\ Pairs("isa", "std") = ISA \X STD
                /\ (Level = "thorough" => Pairs("isa", "opt") = ISA \X OPT /\ Pairs("std", "opt") = STD \X OPT
                                          /\ \A m \in MAC : <<"avx2", m>> \in Pairs("isa", "mac") /\ <<"avx512", m>> \in Pairs("isa", "mac"))
MacrosCovered == Level = "quick" \/ Vals("mac") = MAC
ArrayOK == EveryValueCovered /\ PairsCovered /\ MacrosCovered
=====================================================================================
