---------------------------------- MODULE Einsum ----------------------------------
(* L1 semantics of Einstein summation (C03: one or two operands; C15: operand networks).          *)
(* Independent of any back end, loop order or vector width: it only says what the call denotes.    *)
(*                                                                                                *)
(* An operand is a record  [labels |-> <<l1..lk>>, shape |-> <<n1..nk>>, vals |-> row-major seq]   *)
(* with integer labels (the Index<...> list of the call), one label per axis.  A call is a        *)
(* non-empty SEQUENCE of operands.  Over the concatenation of all index lists a label may occur    *)
(*   once  -> it is FREE: it indexes the result;                                                    *)
(*   twice -> it is CONTRACTED: it is summed over (the two occurrences may lie in two operands --   *)
(*            a contraction -- or in one operand -- a trace / diagonal of that operand).            *)
(* EinsteinSemantics:  result(f1..fm) = SUM over all values of the contracted labels of the         *)
(* PRODUCT over the operands o of  o.vals(at the values its labels take),  the free labels ordered   *)
(* by first appearance in the concatenated lists (or in the order the caller names explicitly),     *)
(* every extent taken from the operand axis that carries the label.                                 *)
(* Values are integers, or pairs <<re, im>> when cx = TRUE (VT!Mul / VT!Add).                       *)
EXTENDS TensorMachine          \* VT (values), Prod, Stride, Unflat, FoldLeft (SequencesExt)

-----------------------------------------------------------------------------------------
(* Label bookkeeping over the list of operands *)
LabelsOf(ops)  == FoldLeft(LAMBDA acc, o : acc \o o.labels, <<>>, ops)      \* all index lists, concatenated
ExtentsOf(ops) == FoldLeft(LAMBDA acc, o : acc \o o.shape, <<>>, ops)       \* the extent found at each of those positions
Occ(L, x)      == Cardinality({p \in DOMAIN L : L[p] = x})                   \* number of occurrences of label x
FirstAt(L, x)  == CHOOSE p \in DOMAIN L : L[p] = x /\ \A q \in 1..(p - 1) : L[q] # x
\* the labels that occur exactly k times, each once, in order of first appearance
LabelsWithOcc(L, k) ==
    FoldLeftDomain(LAMBDA acc, p : IF Occ(L, L[p]) = k /\ FirstAt(L, L[p]) = p THEN Append(acc, L[p]) ELSE acc, <<>>, L)

FreeLabels(ops)       == LabelsWithOcc(LabelsOf(ops), 1)
ContractedLabels(ops) == LabelsWithOcc(LabelsOf(ops), 2)

\* Domain of the operator (a precondition of the property, not something the judge rejects):
\* one label per axis, data of the right length, no label more than twice, one extent per label.
OperandOK(o) == /\ Len(o.labels) = Len(o.shape)
                /\ \A a \in DOMAIN o.shape : o.shape[a] >= 1
                /\ Len(o.vals) = Prod(o.shape)
WellFormed(ops) ==
    LET L == LabelsOf(ops)  E == ExtentsOf(ops)
    IN /\ Len(ops) >= 1
       /\ \A o \in DOMAIN ops : OperandOK(ops[o])
       /\ \A p \in DOMAIN L : Occ(L, L[p]) <= 2
       /\ \A p, q \in DOMAIN L : L[p] = L[q] => E[p] = E[q]

LabelExtent(ops, x) == ExtentsOf(ops)[FirstAt(LabelsOf(ops), x)]            \* extent of label x, from the operands
ExtentsFor(ops, labs) == [k \in 1..Len(labs) |-> LabelExtent(ops, labs[k])]
IsArrangementOf(out, free) == Len(out) = Len(free) /\ ToSetOf(out) = ToSetOf(free)

-----------------------------------------------------------------------------------------
(* Addressing.  The flat offset of an operand element is linear in the label values:              *)
(*    off(o) = SUM_x Coef(o, x) * value(x),   Coef(o, x) = sum of the row-major strides of the axes   *)
(* of o that carry label x (two axes for a label repeated inside o: the diagonal).  So the offset     *)
(* splits into a part that depends on the free multi-index and one that depends on the contracted     *)
(* multi-index; both are tabulated once (TLCEval) per call.                                           *)
Coef(o, x) == FoldLeftDomain(LAMBDA acc, a : IF o.labels[a] = x THEN acc + Stride(o.shape, a) ELSE acc, 0, o.labels)
OffsetTable(o, labs, exts) ==
    LET cf == TLCEval([k \in 1..Len(labs) |-> Coef(o, labs[k])])
        st == TLCEval([k \in 1..Len(labs) |-> Stride(exts, k)])           \* row-major strides of the multi-index itself
    IN TLCEval([q \in 1..Prod(exts) |->                                   \* digit k of q-1 is ((q-1) div st[k]) mod exts[k]
           FoldLeftDomain(LAMBDA acc, k : acc + cf[k] * (((q - 1) \div st[k]) % exts[k]), 0, labs)])

Unit(cx) == IF cx THEN <<1, 0>> ELSE 1

-----------------------------------------------------------------------------------------
(* The Einstein sum with the free labels in the order `out` (explicit-output form,                *)
(* einsum<Index<..>..., OIndex<out...>>): row-major sequence over the multi-index of `out`.        *)
OutShape(ops, out) == ExtentsFor(ops, out)
EinsteinSumOut(ops, out, cx) ==
    LET con  == ContractedLabels(ops)
        fe   == ExtentsFor(ops, out)
        ce   == ExtentsFor(ops, con)
        offF == TLCEval([o \in 1..Len(ops) |-> OffsetTable(ops[o], out, fe)])
        offC == TLCEval([o \in 1..Len(ops) |-> OffsetTable(ops[o], con, ce)])
        \* one term of the sum: the product of one element of every operand
        Term(q, r) == FoldLeftDomain(LAMBDA acc, o : Mul(acc, ops[o].vals[offF[o][q] + offC[o][r] + 1], cx), Unit(cx), ops)
    IN TLCEval([q \in 1..Prod(fe) |->
           FoldLeftDomain(LAMBDA acc, r : Add(acc, Term(q, r), cx), Zero(cx), offC[1])])

\* the implicit form: free labels in order of first appearance
EinsteinShape(ops)   == OutShape(ops, FreeLabels(ops))
EinsteinSum(ops, cx) == EinsteinSumOut(ops, FreeLabels(ops), cx)

\* what the call returns: extents and elements
Einstein(ops, cx)         == [shape |-> EinsteinShape(ops), vals |-> EinsteinSum(ops, cx)]
EinsteinOut(ops, out, cx) == [shape |-> OutShape(ops, out), vals |-> EinsteinSumOut(ops, out, cx)]

-----------------------------------------------------------------------------------------
(* Named special cases of the same operator (what inner / outer / a trace denote) *)
\* inner(a, b): every label of a is contracted with the same axis of b  ->  a scalar
InnerOps(a, b) == LET lab == [k \in 1..Len(a.shape) |-> k]
                  IN << [labels |-> lab, shape |-> a.shape, vals |-> a.vals], [labels |-> lab, shape |-> b.shape, vals |-> b.vals] >>
\* outer(a, b): all labels distinct  ->  shape a.shape \o b.shape
OuterOps(a, b) == << [labels |-> [k \in 1..Len(a.shape) |-> k], shape |-> a.shape, vals |-> a.vals],
                     [labels |-> [k \in 1..Len(b.shape) |-> Len(a.shape) + k], shape |-> b.shape, vals |-> b.vals] >>
=====================================================================================
