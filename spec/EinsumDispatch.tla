------------------------------ MODULE EinsumDispatch ------------------------------
(* L2 design model of Fastor's pairwise einsum: a transcription of the compile-time classifiers     *)
(* that route  einsum<Index<i0...>,Index<i1...>>(a,b)  to one of its back ends, and of what each      *)
(* back end computes on the FLAT operand buffers.                                                    *)
(*   einsum.h            overload set: inner | generalised matrix-vector | vector-matrix | matrix-    *)
(*                       matrix | general (outer product or loop nest)                                *)
(*   einsum_meta.h       is_pair_reduction, match_indices_from_end/_start/_two_ends (+ _index),        *)
(*                       is_generalised_matrix_vector/vector_matrix/matrix_matrix, is_vectorisable      *)
(*   contraction.h       RecursiveCartesian loop nest: broadcast a, vector load of b, fmadd into out    *)
(* Obligation checked by TLC (L2 => L1): the multiset of terms  out[o] += a[p] * b[q]  a route          *)
(* executes is exactly the set of terms of Einsum!EinsteinSum.  Terms are offsets only, so the check    *)
(* is exact and independent of data.  Mismatch between this model and the code is MODEL-DRIFT           *)
(* (classifier values are logged as Meta events), never a violation.                                   *)
EXTENDS Einsum

\* 0-based element access, as in the C++ text
At(s, i) == s[i + 1]
InRange(s, i) == i >= 0 /\ i < Len(s)
NoOfUnique(L) == Cardinality(ToSetOf(L))
\* product of s[lo..hi], 0-based inclusive  (partial_prod / partial_prod_reverse)
RangeProd(s, lo, hi) == Prod(SubSeq(s, lo + 1, hi + 1))

-----------------------------------------------------------------------------------------
(* einsum_meta.h: internal::match_indices_* *)
RECURSIVE MatchFromEnd(_, _, _, _)
MatchFromEnd(i0, i1, n0, n1) ==
    IF At(i1, n1) = At(i0, n0)
    THEN (IF n1 = 0 THEN TRUE ELSE IF n0 = 0 THEN TRUE ELSE MatchFromEnd(i0, i1, n0 - 1, n1 - 1))
    ELSE FALSE
RECURSIVE MatchFromEndIndex(_, _, _, _)
MatchFromEndIndex(i0, i1, n0, n1) ==
    IF At(i1, n1) = At(i0, n0)
    THEN (IF n1 = 0 THEN n0 - 1 ELSE IF n0 = 0 THEN n1 - 1 ELSE MatchFromEndIndex(i0, i1, n0 - 1, n1 - 1))
    ELSE n0 - 1
RECURSIVE MatchFromStart(_, _, _, _)
MatchFromStart(i0, i1, n0, n1) ==
    IF At(i1, n1) = At(i0, n0)
    THEN (IF n1 = Len(i1) - 1 THEN TRUE ELSE IF n0 = Len(i0) - 1 THEN TRUE ELSE MatchFromStart(i0, i1, n0 + 1, n1 + 1))
    ELSE FALSE
RECURSIVE MatchFromStartIndex(_, _, _, _)
MatchFromStartIndex(i0, i1, n0, n1) ==
    IF At(i1, n1) = At(i0, n0)
    THEN (IF n1 = Len(i1) - 1 THEN n0 + 1 ELSE IF n0 = Len(i0) - 1 THEN n1 + 1 ELSE MatchFromStartIndex(i0, i1, n0 + 1, n1 + 1))
    ELSE n0
\* match_indices_from_two_ends reads ind0[num0 - ncontracted + 1] and ind1[num1] without a bounds check; in a constant
\* expression an out-of-range subscript is a compile error: outcome "oob" (the call is then not offered)
RECURSIVE MatchTwoEnds(_, _, _, _, _)
MatchTwoEnds(i0, i1, nc, n0, n1) ==
    IF nc = 0 THEN "f"
    ELSE LET p0 == n0 - nc + 1
         IN IF ~InRange(i0, p0) \/ ~InRange(i1, n1) THEN "oob"
            ELSE IF nc = 1 THEN (IF At(i1, n1) = At(i0, p0) THEN "t" ELSE "f")
            ELSE IF At(i1, n1) = At(i0, p0) THEN MatchTwoEnds(i0, i1, nc - 1, n0, n1 + 1) ELSE "f"

IsPairReduction(i0, i1) == i0 = i1
\* no_trace: a label repeated inside one operand (a trace) cannot be expressed as a flat matrix product; evaluated first (short-circuit)
HasRepeat(L) == NoOfUnique(L) # Len(L)
NoTrace(i0, i1) == ~HasRepeat(i0) /\ ~HasRepeat(i1)
IsMatVec(i0, i1) == NoTrace(i0, i1) /\ Len(i0) # Len(i1) /\ MatchFromEnd(i0, i1, Len(i0) - 1, Len(i1) - 1)
IsVecMat(i0, i1) == NoTrace(i0, i1) /\ Len(i0) # Len(i1) /\ MatchFromStart(i0, i1, 0, 0)
NContracted(i0, i1) == Len(i0) + Len(i1) - NoOfUnique(i0 \o i1)
IsInnerLike(i0, i1) == Len(i0) = Len(i1) /\ NoOfUnique(i0 \o i1) = Len(i1)
\* is_generalised_matrix_matrix::value  =  no_trace && !is_mat_vec && !is_vec_mat && !is_inner && match_indices_from_two_ends(...)   (short-circuit)
MatMat(i0, i1) == IF ~NoTrace(i0, i1) \/ IsMatVec(i0, i1) \/ IsVecMat(i0, i1) \/ IsInnerLike(i0, i1) THEN "f"
                  ELSE MatchTwoEnds(i0, i1, NContracted(i0, i1), Len(i0) - 1, 0)
\* every einsum<I,J>(a,b) overload names is_generalised_matrix_matrix<I,J>::value in its enable_if: if its evaluation ran out of
\* bounds no configuration would compile the call ("not offered").  With no_trace evaluated first ncontracted <= min(N0, N1) whenever
\* match_indices_from_two_ends is reached, so this holds for every pattern (checked: MC_EinsumDispatch!AllOffered).
Offered(i0, i1) == MatMat(i0, i1) # "oob"

\* the back end einsum<I,J>(a,b) selects
Route(i0, i1) ==
    IF IsPairReduction(i0, i1) THEN "inner"
    ELSE IF IsMatVec(i0, i1) THEN "mv"
    ELSE IF IsVecMat(i0, i1) THEN "vm"
    ELSE IF MatMat(i0, i1) = "t" THEN "mm"
    ELSE IF NoOfUnique(i0 \o i1) = Len(i0) + Len(i1) THEN "outer"       \* extractor_contract_2, outer-product specialisation (_dyadic)
    ELSE "nest"                                                            \* extractor_contract_2, RecursiveCartesian
\* contraction<I,J>(a,b) goes to extractor_contract_2 directly (no flat classifiers)
RouteOf(form, i0, i1) == IF form = "contraction" THEN (IF NoOfUnique(i0 \o i1) = Len(i0) + Len(i1) THEN "outer" ELSE "nest")
                         ELSE Route(i0, i1)

-----------------------------------------------------------------------------------------
(* is_vectorisable<Idx0,Idx1,Tensor<T,Rest1...>>::stride -- the vector length of the loop nest.  It is a function of      *)
(* the element type only (128/256-bit lane counts of the real part), not of the ISA; FASTOR_DONT_VECTORISE forces 1.       *)
SseLanes(T) == IF T \in {"f64", "i64", "c64"} THEN 2 ELSE 4
VecStride(T, isa, i0, i1, shapeB) ==
    LET e == shapeB[Len(shapeB)]
        lastContracted == \/ \E p \in DOMAIN i0 : i0[p] = i1[Len(i1)]       \* contains(idx0, last of Idx1)
                          \/ Occ(i1, i1[Len(i1)]) > 1                      \* || !is_uniq(idx1, last): repeated inside b (a trace of b)
    IN IF isa = "scalar" \/ lastContracted \/ e % SseLanes(T) # 0 THEN 1
       ELSE IF e % (2 * SseLanes(T)) = 0 THEN 2 * SseLanes(T) ELSE SseLanes(T)

-----------------------------------------------------------------------------------------
(* Terms  <<out offset, a offset, b offset>>  (0-based) executed by each route on the flat buffers *)
UniqueLabels(L) == FoldLeftDomain(LAMBDA acc, p : IF FirstAt(L, L[p]) = p THEN Append(acc, L[p]) ELSE acc, <<>>, L)

EinsteinTerms(a, b) ==
    LET ops == <<a, b>>
        free == FreeLabels(ops)   con == ContractedLabels(ops)
        fe == ExtentsFor(ops, free)   ce == ExtentsFor(ops, con)
        fa == OffsetTable(a, free, fe)   fb == OffsetTable(b, free, fe)
        ca == OffsetTable(a, con, ce)    cb == OffsetTable(b, con, ce)
    IN { <<q - 1, fa[q] + ca[r], fb[q] + cb[r]>> : q \in 1..Prod(fe), r \in 1..Prod(ce) }
NTerms(a, b) == LET ops == <<a, b>> IN Prod(ExtentsFor(ops, UniqueLabels(LabelsOf(ops))))

\* _matmul<T,M,K,N>(x, y, out): out[i*N+j] += x[i*K+k] * y[k*N+j]; xIsA tells which buffer is the einsum's first operand
GemmTerms(M, K, N, xIsA) ==
    { IF xIsA THEN <<i * N + j, i * K + k, k * N + j>> ELSE <<i * N + j, k * N + j, i * K + k>> :
        i \in 0..(M - 1), k \in 0..(K - 1), j \in 0..(N - 1) }

MatVecTerms(a, b) ==      \* einsum.h: generalised matrix-vector; which_one_is_vector = (N0 > N1 ? 1 : 0)
    LET i0 == a.labels  i1 == b.labels
        up == MatchFromEndIndex(i0, i1, Len(i0) - 1, Len(i1) - 1)
        bIsVec == Len(i0) > Len(i1)
        product == IF bIsVec THEN RangeProd(a.shape, 0, up) ELSE RangeProd(b.shape, 0, up)
        vp == IF bIsVec THEN Prod(b.shape) ELSE Prod(a.shape)
    IN GemmTerms(product, vp, 1, bIsVec)
VecMatTerms(a, b) ==      \* generalised vector-matrix: _matmul<T,1,vec_product,product>(vector, matrix, out)
    LET i0 == a.labels  i1 == b.labels
        up == MatchFromStartIndex(i0, i1, 0, 0)
        bIsVec == Len(i0) > Len(i1)
        product == IF bIsVec THEN RangeProd(a.shape, up, Len(i0) - 1) ELSE RangeProd(b.shape, up, Len(i1) - 1)
        vp == IF bIsVec THEN Prod(b.shape) ELSE Prod(a.shape)
    IN GemmTerms(1, vp, product, ~bIsVec)
MatMatTerms(a, b) ==      \* generalised matrix-matrix
    LET nc == NContracted(a.labels, b.labels)
        K == RangeProd(b.shape, 0, nc - 1)
        M == RangeProd(a.shape, 0, Len(a.shape) - nc - 1)
        N == RangeProd(b.shape, nc, Len(b.shape) - 1)
    IN GemmTerms(M, K, N, TRUE)
InnerTerms(a, b) == { <<0, k, k>> : k \in 0..(Prod(a.shape) - 1) }            \* _doublecontract<T,size,1>
OuterTerms(a, b) == { <<i * Prod(b.shape) + j, i, j>> : i \in 0..(Prod(a.shape) - 1), j \in 0..(Prod(b.shape) - 1) }   \* _dyadic

\* RecursiveCartesian: one loop per unique label in order of first appearance, innermost = last; the innermost loop
\* advances by V and each iteration handles lanes 0..V-1 of b and out (a is broadcast); a scalar result is accumulated
\* without lanes but with the same step
NestTerms(a, b, V) ==
    LET ops == <<a, b>>
        U == UniqueLabels(LabelsOf(ops))
        ue == ExtentsFor(ops, U)
        free == FreeLabels(ops)
        o == [labels |-> free, shape |-> ExtentsFor(ops, free), vals |-> <<>>]
        ta == OffsetTable(a, U, ue)   tb == OffsetTable(b, U, ue)   to == OffsetTable(o, U, ue)
        inner == ue[Len(ue)]
        its == { p \in 1..Prod(ue) : ((p - 1) % inner) % V = 0 }
    IN IF free = <<>> THEN { <<0, ta[p], tb[p]>> : p \in its }
       ELSE { <<to[p] + t, ta[p], tb[p] + t>> : p \in its, t \in 0..(V - 1) }

RouteTerms(route, a, b, V) ==
    CASE route = "inner" -> InnerTerms(a, b)
      [] route = "mv" -> MatVecTerms(a, b)
      [] route = "vm" -> VecMatTerms(a, b)
      [] route = "mm" -> MatMatTerms(a, b)
      [] route = "outer" -> OuterTerms(a, b)
      [] route = "nest" -> NestTerms(a, b, V)

\* number of terms the loop nest executes (the term SETS above cannot see a term executed twice; the flat routes cannot repeat one)
NestCount(a, b, V) ==
    LET ops == <<a, b>>
        ue == ExtentsFor(ops, UniqueLabels(LabelsOf(ops)))
        inner == ue[Len(ue)]
    IN (Prod(ue) \div inner) * ((inner + V - 1) \div V) * (IF FreeLabels(ops) = <<>> THEN 1 ELSE V)

\* L2 => L1: the route executes exactly the terms of the Einstein sum (as many, and the same)
RouteRefinesTo(want, route, a, b, V) == /\ RouteTerms(route, a, b, V) = want
                                        /\ (route = "nest" => NestCount(a, b, V) = NTerms(a, b))
RouteRefinesL1(route, a, b, V) == RouteRefinesTo(EinsteinTerms(a, b), route, a, b, V)

-----------------------------------------------------------------------------------------
(* History.  On the originally pinned tree TLC found two counterexamples to this obligation (findings C03-F1 / C03-F2,       *)
(* notes/c03_f1_*.cpp, c03_f2_*.cpp), both for a label repeated INSIDE one operand:                                       *)
(*  F1  is_vectorisable only asked whether b's last label occurs in a; when it was repeated inside b the loop nest still    *)
(*      loaded V consecutive elements of b and stepped the summed label by V (wrong values / SIGSEGV);                      *)
(*  F2  match_indices_from_end/_start compared only the overlapping tail/head, so a call whose longer operand carried a     *)
(*      trace was executed as a flat matrix-vector product (result buffer overrun), and match_indices_from_two_ends could    *)
(*      index out of bounds (the call then did not compile).                                                                *)
(* Both were repaired in /repo (the `|| !is_uniq` disjunct and the no_trace conjunct transcribed above); the obligation       *)
(* now holds without exemption.                                                                                              *)
=====================================================================================
