----------------------------------- MODULE Expr -----------------------------------
(* L1 semantics of element-wise expressions (C02) and of the expression trees used by C09.        *)
(* An expression is a record tree:                                                               *)
(*   [k |-> "t", n]        tensor leaf named n           [k |-> "s", v]   scalar (broadcast)      *)
(*   [k |-> "k", v]        literal scalar constant v                                                  *)
(*   [k |-> "neg"|"abs"|"sqrt"|"not", x]                 unary                                    *)
(*   [k |-> "add"|"sub"|"mul"|"div"|"min"|"max"|"lt"|"le"|"gt"|"ge"|"eq"|"ne"|"and"|"or", l, r]   *)
(* Elementwise: the value at flat position p is the scalar operation applied to the p-th elements  *)
(* of the operands.  Values are integers (booleans are 0/1); the generators only emit trees whose   *)
(* value on the generated data is an exact integer in every supported element type (sqrt only of    *)
(* perfect squares, division only where exact).                                                     *)
EXTENDS VT

ISqrt(v) == CHOOSE r \in 0..v : r * r = v                          \* defined on perfect squares only
IsSquare(v) == v >= 0 /\ \E r \in 0..(IF v < 46340 THEN v ELSE 46340) : r * r = v
Abs(v) == IF v < 0 THEN 0 - v ELSE v
QDiv(a, b) == IF b < 0 THEN (0 - a) \div (0 - b) ELSE a \div b     \* exact quotients only
B2I(b) == IF b THEN 1 ELSE 0

RECURSIVE At(_, _, _)
At(e, env, p) ==
    CASE e.k = "t" -> env[e.n][p]
      [] e.k = "s" -> e.v
      [] e.k = "k" -> e.v                                   \* literal constant (a scalar of the element type)
      [] e.k = "neg" -> 0 - At(e.x, env, p)
      [] e.k = "abs" -> Abs(At(e.x, env, p))
      [] e.k = "sqrt" -> ISqrt(At(e.x, env, p))
      [] e.k = "not" -> 1 - At(e.x, env, p)
      [] e.k = "add" -> At(e.l, env, p) + At(e.r, env, p)
      [] e.k = "sub" -> At(e.l, env, p) - At(e.r, env, p)
      [] e.k = "mul" -> At(e.l, env, p) * At(e.r, env, p)
      [] e.k = "div" -> QDiv(At(e.l, env, p), At(e.r, env, p))
      [] e.k = "min" -> LET a == At(e.l, env, p) b == At(e.r, env, p) IN IF a < b THEN a ELSE b
      [] e.k = "max" -> LET a == At(e.l, env, p) b == At(e.r, env, p) IN IF a > b THEN a ELSE b
      [] e.k = "lt" -> B2I(At(e.l, env, p) <  At(e.r, env, p))
      [] e.k = "le" -> B2I(At(e.l, env, p) <= At(e.r, env, p))
      [] e.k = "gt" -> B2I(At(e.l, env, p) >  At(e.r, env, p))
      [] e.k = "ge" -> B2I(At(e.l, env, p) >= At(e.r, env, p))
      [] e.k = "eq" -> B2I(At(e.l, env, p) =  At(e.r, env, p))
      [] e.k = "ne" -> B2I(At(e.l, env, p) #  At(e.r, env, p))
      [] e.k = "and" -> B2I(At(e.l, env, p) = 1 /\ At(e.r, env, p) = 1)
      [] e.k = "or" -> B2I(At(e.l, env, p) = 1 \/ At(e.r, env, p) = 1)

Eval(e, env, n) == TLCEval([p \in 1..n |-> At(e, env, p)])

\* complex element types: values are pairs <<re, im>>; the ring operations only (unary minus, + - *)
RECURSIVE AtC(_, _, _)
AtC(e, env, p) ==
    CASE e.k = "t" -> env[e.n][p]
      [] e.k = "s" -> e.v
      [] e.k = "neg" -> Neg(AtC(e.x, env, p), TRUE)
      [] e.k = "add" -> Add(AtC(e.l, env, p), AtC(e.r, env, p), TRUE)
      [] e.k = "sub" -> Sub(AtC(e.l, env, p), AtC(e.r, env, p), TRUE)
      [] e.k = "mul" -> Mul(AtC(e.l, env, p), AtC(e.r, env, p), TRUE)
EvalC(e, env, n) == TLCEval([p \in 1..n |-> AtC(e, env, p)])
RECURSIVE RingOnly(_)
RingOnly(e) == CASE e.k \in {"t", "s"} -> TRUE [] e.k = "neg" -> RingOnly(e.x)
                 [] e.k \in {"add", "sub", "mul"} -> RingOnly(e.l) /\ RingOnly(e.r) [] OTHER -> FALSE
AssignC(aop, pre, val) == [p \in 1..Len(val) |-> Comb(aop, pre[p], val[p], TRUE)]

\* the exactness domain: every sqrt argument is a perfect square, every division exact with non-zero divisor,
\* every intermediate below 2^24 in magnitude (exact in float)
RECURSIVE DomAt(_, _, _)
Lim24 == 16777216
Mag(v) == v > 0 - Lim24 /\ v < Lim24
DomAt(e, env, p) ==
    CASE e.k \in {"t", "s", "k"} -> TRUE
      [] e.k \in {"neg", "abs", "not"} -> DomAt(e.x, env, p)
      [] e.k = "sqrt" -> DomAt(e.x, env, p) /\ IsSquare(At(e.x, env, p))
      [] e.k = "div" -> /\ DomAt(e.l, env, p) /\ DomAt(e.r, env, p)
                        /\ At(e.r, env, p) # 0 /\ At(e.l, env, p) % Abs(At(e.r, env, p)) = 0
      [] OTHER -> DomAt(e.l, env, p) /\ DomAt(e.r, env, p) /\ Mag(At(e, env, p))
InDomain(e, env, n) == \A p \in 1..n : DomAt(e, env, p)

IsBoolKind(e) == e.k \in {"lt", "le", "gt", "ge", "eq", "ne", "and", "or", "not"}

\* assignment of an evaluated expression into a destination with previous contents pre
Assign(aop, pre, val) == [p \in 1..Len(val) |->
    CASE aop = "set" -> val[p] [] aop = "add" -> pre[p] + val[p] [] aop = "sub" -> pre[p] - val[p]
      [] aop = "mul" -> pre[p] * val[p] [] aop = "div" -> QDiv(pre[p], val[p])]
=====================================================================================
