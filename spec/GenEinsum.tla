--------------------------------- MODULE GenEinsum ---------------------------------
(* Plan generator for C03 and model check of the spec-level obligations on every generated case.     *)
(* Every state is one case  (form, T, la, lb, sa, sb, out):  TLC enumerates                          *)
(*   * EVERY pair of index lists of operand ranks 1..FullRank in which no label occurs more than      *)
(*     twice: the restricted-growth strings over the ra+rb positions (all partial matchings of the     *)
(*     positions, between and within the two lists, canonical labels 0,1,2.. by first appearance),      *)
(*     and a hash sample of the patterns with an operand of rank FullRank+1..4;                         *)
(*   * for each pattern one or two extent assignments from {1,2,3,4,5,8,9}: distinct labels get         *)
(*     distinct extents as long as the budget allows (uniform extents hide a transposed result), the    *)
(*     last label of the last operand (the vectorised one) is a multiple (v=0) / a non-multiple (v=1)    *)
(*     of the vector widths;                                                                            *)
(*   * the forms einsum / contraction / explicit-output einsum / single-tensor einsum (+ explicit)       *)
(*     / inner / outer.                                                                                  *)
(* Invariants (checked in every state): the case is in the domain of the L1 operator, the explicit       *)
(* output is the permuted implicit output (Einsum vs Permute, two L1 modules against each other), and     *)
(* the L2 obligation of EinsumDispatch: the back end the classifiers select executes exactly the terms     *)
(* of the Einstein sum for these extents.                                                                 *)
EXTENDS EinsumDispatch, Permute
CONSTANTS FullRank,     \* pair patterns with both ranks <= FullRank are enumerated exhaustively
          HiKeep,       \* keep 1 of HiKeep patterns that have an operand of higher rank (up to 4); 1 = all
          V1Keep,       \* keep the second extent assignment for 1 of V1Keep patterns; 1 = all
          CKeep, XKeep, \* keep 1 of .. patterns for the contraction<> form / the explicit-output form
          MoreTypes,    \* 0: f64, i32    1: also f32, i64, c64 on a hash sample of the patterns (1 of TKeep), one extent assignment
          TKeep,
          I32Both,      \* 1: i32 gets the same extent assignments as f64    0: one of them (by hash)
          Budget        \* bound on the number of multiply-adds of a case (product of the extents of all labels)
VARIABLE c
Seed == atoi(IOEnv.VERIF_SEED)

-----------------------------------------------------------------------------------------
(* index patterns *)
MaxOf(S) == CHOOSE x \in S : \A y \in S : y <= x
NextLab(s) == IF s = <<>> THEN 0 ELSE MaxOf(ToSetOf(s)) + 1
\* restricted-growth strings of length k in which no label occurs more than twice
RECURSIVE RG(_)
RG(k) == IF k = 0 THEN {<<>>}
         ELSE UNION { { Append(s, x) : x \in {y \in 0..NextLab(s) : Occ(s, y) < 2} } : s \in RG(k - 1) }
Iota(lo, n) == [k \in 1..n |-> lo + k - 1]

HashSeq(s) == FoldLeft(LAMBDA h, x : (h * 31 + x + 7) % 1000003, 17, s)
H(la, lb, salt) == (HashSeq(la \o <<9>> \o lb) * 13 + salt * 7919 + (Seed % 9973) * 101) % 1000003

-----------------------------------------------------------------------------------------
(* extent assignment: a sequence indexed by label+1 *)
ExtSeq == <<1, 2, 3, 4, 5, 8, 9>>
Rot(s, r) == [i \in 1..Len(s) |-> s[((i - 1 + r) % Len(s)) + 1]]
RECURSIVE Pow2(_)
Pow2(n) == IF n = 0 THEN 1 ELSE 2 * Pow2(n - 1)
Assign(L, v, h) ==
    LET U == UniqueLabels(L)
        lastLab == L[Len(L)]
        order == <<lastLab>> \o SelectSeq(U, LAMBDA x : x # lastLab)
        Pick(st, k) ==
            LET x == order[k]
                lim == Budget \div (st.prod * Pow2(Len(order) - k))          \* leave room for extent >= 2 on the labels to come
                cands == IF k = 1 THEN (IF v = 0 THEN Rot(<<4, 8>>, h) ELSE Rot(<<3, 5, 9, 2, 1>>, h)) ELSE Rot(ExtSeq, h + 3 * k)
                fresh == SelectSeq(cands, LAMBDA e : e <= lim /\ e \notin st.used)
                any == SelectSeq(cands, LAMBDA e : e <= lim)
                e == IF fresh # <<>> THEN fresh[1] ELSE IF any # <<>> THEN any[1] ELSE 1
            IN [ext |-> [st.ext EXCEPT ![x + 1] = e], used |-> st.used \cup {e}, prod |-> st.prod * e]
    IN FoldLeftDomain(Pick, [ext |-> [i \in 1..Len(U) |-> 0], used |-> {}, prod |-> 1], order).ext
ShapeOf(labs, ext) == [k \in 1..Len(labs) |-> ext[labs[k] + 1]]

\* explicit output order: the free labels sorted by a hashed key
OutOrder(free, h) == SetToSortSeq(ToSetOf(free), LAMBDA x, y : ((x * 37 + h) % 11) * 16 + x < ((y * 37 + h) % 11) * 16 + y)

Case(form, T, la, lb, v, h, outp) ==
    LET ext == Assign(la \o lb, v, h)
        free == LabelsWithOcc(la \o lb, 1)
    IN [form |-> form, T |-> T, la |-> la, lb |-> lb, sa |-> ShapeOf(la, ext), sb |-> ShapeOf(lb, ext),
        out |-> IF outp THEN OutOrder(free, h) ELSE <<>>, v |-> v]

-----------------------------------------------------------------------------------------
(* the case set *)
TypesA == {"f64", "i32"}
TypesB == IF MoreTypes = 1 THEN {"f32", "i64", "c64"} ELSE {}
TSalt(T) == CASE T = "f32" -> 41 [] T = "i64" -> 43 [] T = "c64" -> 47 [] OTHER -> 0
KeepT(T, la, lb) == T \in TypesA \/ H(la, lb, TSalt(T)) % TKeep = 0

Ranks == (1..4) \X (1..4)
PairPats == UNION { { [la |-> SubSeq(s, 1, r[1]), lb |-> SubSeq(s, r[1] + 1, r[1] + r[2])] : s \in RG(r[1] + r[2]) } : r \in Ranks }
IsFull(p) == Len(p.la) <= FullRank /\ Len(p.lb) <= FullRank
\* Every pattern is offered (EinsumDispatch!Offered holds for all of them since the no_trace repair; before it the patterns on
\* which match_indices_from_two_ends indexed out of bounds, e.g. <0>,<1,0,1>, compiled in no configuration and were excluded here).
KeptPats == { p \in PairPats : Offered(p.la, p.lb) /\ (IsFull(p) \/ H(p.la, p.lb, 1) % HiKeep = 0) }
Variants(p) == IF IsFull(p) THEN {0} \cup (IF H(p.la, p.lb, 2) % V1Keep = 0 THEN {1} ELSE {}) ELSE {H(p.la, p.lb, 3) % 2}
OneOf(S, h) == IF Cardinality(S) <= 1 THEN S ELSE {h % 2}
VariantsT(p, T) == IF T = "f64" \/ (T = "i32" /\ I32Both = 1) THEN Variants(p) ELSE OneOf(Variants(p), H(p.la, p.lb, 21 + TSalt(T)))

EinsumCases == UNION { { Case("einsum", T, p.la, p.lb, v, H(p.la, p.lb, 4 + v), FALSE) :
                           v \in IF KeepT(T, p.la, p.lb) THEN VariantsT(p, T) ELSE {} } : p \in KeptPats, T \in TypesA \cup TypesB }
\* contraction<I,J>(a,b): same patterns (it has no not-offered patterns of its own in the default variant), sampled
ContractionCases == { Case("contraction", T, p.la, p.lb, H(p.la, p.lb, 5) % 2, H(p.la, p.lb, 6), FALSE) :
                        p \in {p \in PairPats : Len(p.la) <= 3 /\ Len(p.lb) <= 3 /\ H(p.la, p.lb, 7) % CKeep = 0}, T \in TypesA }
\* einsum<I,J,OIndex<..>>(a,b) (declared under C++17 only; planned for *-17-* configurations).  An empty OIndex<> does not compile
\* in any configuration (einsum_meta.h:987 null dereference in a constant expression): at least one free label
ExplicitCases == { Case("explicit", T, p.la, p.lb, H(p.la, p.lb, 8) % 2, H(p.la, p.lb, 9), TRUE) :
                        p \in {p \in KeptPats : Len(p.la) <= 3 /\ Len(p.lb) <= 3 /\ LabelsWithOcc(p.la \o p.lb, 1) # <<>> /\ H(p.la, p.lb, 10) % XKeep = 0}, T \in TypesA }
\* single tensor: einsum<I>(a), einsum<I,OIndex<..>>(a): every pattern of rank 1..4
SinglePats == UNION { RG(r) : r \in 1..4 }
SingleCases == { Case("single", T, s, <<>>, v, H(s, <<>>, 11 + v), FALSE) : s \in SinglePats, v \in {0, 1}, T \in TypesA \cup TypesB }
SingleExplicitCases == { Case("single_explicit", T, s, <<>>, H(s, <<>>, 13) % 2, H(s, <<>>, 14), TRUE) :
                           s \in {s \in SinglePats : LabelsWithOcc(s, 1) # <<>>}, T \in TypesA }
\* inner(a,b): all labels contracted pairwise, same shapes;  outer(a,b): all labels free
InnerCases == { Case("inner", T, Iota(0, r), Iota(0, r), v, H(Iota(0, r), <<>>, 15 + v), FALSE) : r \in 1..4, v \in {0, 1}, T \in TypesA \cup TypesB }
OuterCases == { Case("outer", T, Iota(0, r[1]), Iota(r[1], r[2]), v, H(Iota(0, r[1]), Iota(r[1], r[2]), 17 + v), FALSE) :
                  r \in {r \in Ranks : r[1] + r[2] <= 5}, v \in {0, 1}, T \in TypesA \cup TypesB }
\* outer with a Tensor<T,1> operand takes dedicated overloads;  outer(Tensor<T,1>, Tensor<T,1>) is ambiguous in every configuration: not offered
OuterUnit == { [form |-> "outer", T |-> T, la |-> s[1], lb |-> s[2], sa |-> s[3], sb |-> s[4], out |-> <<>>, v |-> 2] :
                 s \in { << <<0>>, <<1>>, <<3>>, <<1>> >>, << <<0, 1>>, <<2>>, <<2, 4>>, <<1>> >>, << <<0>>, <<1, 2>>, <<1>>, <<2, 3>> >> }, T \in TypesA }
\* the outer-product back end (backend/dyadic.h) has hand-written kernels keyed on the TOTAL sizes of the operands: (1,1), (2,2), (3,3), (4,4),
\* float and double -- reached by outer(), einsum<> and contraction<> without a repeated label; every shape with those sizes, both types (+ i32)
DyadicShapes == { << <<0>>, <<1>>, <<2>>, <<2>> >>, << <<0>>, <<1>>, <<3>>, <<3>> >>, << <<0>>, <<1>>, <<4>>, <<4>> >>,
                  << <<0, 1>>, <<2, 3>>, <<2, 2>>, <<2, 2>> >>, << <<0>>, <<1, 2>>, <<4>>, <<2, 2>> >>, << <<0, 1>>, <<2>>, <<2, 2>>, <<4>> >>,
                  << <<0>>, <<1, 2>>, <<3>>, <<3, 1>> >> }
DyadicSpec == { [form |-> f, T |-> T, la |-> s[1], lb |-> s[2], sa |-> s[3], sb |-> s[4], out |-> <<>>, v |-> 3] :
                  s \in DyadicShapes, T \in {"f64", "f32", "i32"}, f \in {"outer", "einsum", "contraction"} }
OuterOffered(x) == ~(x.sa = <<1>> /\ x.sb = <<1>>)

Cases == EinsumCases \cup ContractionCases \cup ExplicitCases \cup SingleCases \cup SingleExplicitCases \cup InnerCases
         \cup { x \in OuterCases \cup OuterUnit : OuterOffered(x) } \cup DyadicSpec

Init == c \in Cases
Next == UNCHANGED c
Spec == Init /\ [][Next]_c

-----------------------------------------------------------------------------------------
(* obligations evaluated in every state *)
PosData(n, k) == [p \in 1..n |-> ((p * k) % 17) - 8]
Operand(labs, shape, k) == [labels |-> labs, shape |-> shape, vals |-> PosData(Prod(shape), k)]
OpsOf(x) == IF x.lb = <<>> /\ x.form \in {"single", "single_explicit"} THEN << Operand(x.la, x.sa, 3) >>
            ELSE << Operand(x.la, x.sa, 3), Operand(x.lb, x.sb, 5) >>
Terms(x) == Prod(ExtentsFor(OpsOf(x), UniqueLabels(LabelsOf(OpsOf(x)))))

\* the case lies in the domain of the L1 operator and within the budget
InDomain == WellFormed(OpsOf(c)) /\ Terms(c) <= Budget
            /\ (c.out # <<>> => IsArrangementOf(c.out, FreeLabels(OpsOf(c))))
\* explicit output  =  permute of the implicit output  (Einsum!EinsteinSumOut against Permute!Permuted)
ExplicitIsPermuted ==
    c.out = <<>> \/
    LET ops == OpsOf(c)
        free == FreeLabels(ops)
        perm == [n \in 1..Len(c.out) |-> CHOOSE m \in 1..Len(free) : free[m] = c.out[n]]
    IN /\ OutShape(ops, c.out) = PermShape(EinsteinShape(ops), perm)
       /\ EinsteinSumOut(ops, c.out, FALSE) = Permuted(EinsteinSum(ops, FALSE), EinsteinShape(ops), perm)
\* L2 => L1 for the generated extents (EinsumDispatch), scalar and SIMD build, no exemptions
IsPairForm(x) == x.form \in {"einsum", "contraction", "explicit"}
RouteOfCase(x) == RouteOf(x.form, x.la, x.lb)
DispatchRefinesL1 ==
    IsPairForm(c) =>
        LET ops == OpsOf(c)  r == RouteOfCase(c)
            want == EinsteinTerms(ops[1], ops[2])
        IN \A isa \in {"scalar", "sse2"} :
             LET V == VecStride(c.T, isa, c.la, c.lb, c.sb)
             IN \/ (isa = "sse2" /\ V = 1)                         \* same obligation as the scalar build
                \/ RouteRefinesTo(want, r, ops[1], ops[2], V)

Emit == PrintT(<<"PLAN", ToJson([form |-> c.form, T |-> c.T, la |-> c.la, lb |-> c.lb, sa |-> c.sa, sb |-> c.sb, out |-> c.out, v |-> c.v,
                                  route |-> IF IsPairForm(c) THEN RouteOfCase(c) ELSE c.form,
                                  stride |-> IF IsPairForm(c) THEN VecStride(c.T, "sse2", c.la, c.lb, c.sb) ELSE 1])>>)
=====================================================================================
