SPECIFICATION Spec
CONSTANTS FullRank = 3
 HiKeep = 30
 V1Keep = 2
 CKeep = 6
 XKeep = 5
 MoreTypes = 0
 TKeep = 1
 I32Both = 1
 Budget = 1200
INVARIANT InDomain
INVARIANT ExplicitIsPermuted
INVARIANT DispatchRefinesL1
INVARIANT Emit
CHECK_DEADLOCK FALSE
