SPECIFICATION Spec
CONSTANTS FullRank = 4
 HiKeep = 1
 V1Keep = 1
 CKeep = 2
 XKeep = 2
 MoreTypes = 1
 TKeep = 4
 I32Both = 0
 Budget = 1500
INVARIANT InDomain
INVARIANT ExplicitIsPermuted
INVARIANT DispatchRefinesL1
INVARIANT Emit
CHECK_DEADLOCK FALSE
