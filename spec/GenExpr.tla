---------------------------------- MODULE GenExpr ----------------------------------
(* Plan generator for C02: one TLC state per (expression tree, assignment operator, size, type).  *)
(* Trees up to depth 2 over tensor leaves a b c (small integers), q (perfect squares), d (non-zero), *)
(* m (multiples of the scalar), the scalar s, unary minus / abs / sqrt, + - * /, min, max, the six     *)
(* comparisons and && || !.  The invariants check, on a fixed data draw, that every emitted tree is    *)
(* inside the exactness domain of Expr (so that exact equality is a sound oracle) -- a generator        *)
(* obligation, model-checked on every case.                                                            *)
EXTENDS Expr, SequencesExt, FiniteSets
CONSTANTS Quota, Depth2, TableQuota
VARIABLE c
Seed == atoi(IOEnv.VERIF_SEED)

T(n) == [k |-> "t", n |-> n]
S == [k |-> "s", v |-> 2]                       \* placeholder value; the harness draws s per case from {2, 3, -2} and logs it
Un(k, x) == [k |-> k, x |-> x]
Bi(k, l, r) == [k |-> k, l |-> l, r |-> r]
TLeaves == {T("a"), T("b"), T("c")}
Leaves == TLeaves \cup {S}
ArOps == {"add", "sub", "mul", "min", "max"}
HasTensor(e) == CASE e.k = "t" -> TRUE [] e.k \in {"s", "k"} -> FALSE [] e.k \in {"neg", "abs", "sqrt", "not"} -> TRUE
                  [] OTHER -> TRUE           \* binary nodes are only built with at least one tensor side (below)
\* exact-division and sqrt atoms
K(v) == [k |-> "k", v |-> v]                    \* literal constant
\* (the last three: a SCALAR divided by a tensor -- 12, 12 s and -6 s are multiples of every value 1, 2, 3 of d's elements up to sign)
Atoms == {Un("sqrt", T("q")), Bi("div", T("m"), S), Bi("div", Bi("mul", T("a"), T("d")), T("d")), Bi("div", Bi("mul", T("b"), S), S),
          Bi("div", K(12), T("d")), Bi("div", Bi("mul", K(12), S), T("d")), Bi("div", Bi("mul", K(0 - 6), S), Un("neg", T("d")))}
A1 == {Un(k, x) : k \in {"neg", "abs"}, x \in TLeaves}
      \cup ({Bi(k, l, r) : k \in ArOps, l \in Leaves, r \in Leaves} \ {Bi(k, S, S) : k \in ArOps})
      \cup Atoms
A2 == {Un(k, x) : k \in {"neg", "abs"}, x \in A1}
      \cup {Bi(k, l, r) : k \in ArOps, l \in A1, r \in Leaves}
      \cup {Bi(k, l, r) : k \in ArOps, l \in Leaves, r \in A1}
CmpOps == {"lt", "le", "gt", "ge", "eq", "ne"}
C1 == {Bi(k, l, r) : k \in CmpOps, l \in TLeaves \cup {Bi("add", T("a"), T("b")), Un("neg", T("c"))}, r \in Leaves \cup {Bi("mul", T("b"), S)}}
      \* the scalar on the LEFT of a comparison (its own overload: the operands must not be swapped)
      \cup {Bi(k, S, r) : k \in CmpOps, r \in TLeaves \cup {Bi("add", T("a"), T("b"))}}
L2 == {Un("not", x) : x \in C1} \cup {Bi(k, Bi("lt", T("a"), T("b")), x) : k \in {"and", "or"}, x \in C1}

Sizes == <<1, 3, 4, 7, 8, 15, 16, 17, 33, 35>>
Types == {"f64", "f32", "i32", "i64"}
RECURSIVE TH(_)
TH(e) == CASE e.k = "t" -> (CHOOSE i \in 1..6 : <<"a", "b", "c", "q", "d", "m">>[i] = e.n)
           [] e.k = "s" -> 7
           [] e.k = "k" -> 8 + (e.v + 50)
           [] e.k \in {"neg", "abs", "sqrt", "not"} -> (TH(e.x) * 31 + 11) % 100003
           [] OTHER -> (TH(e.l) * 131 + TH(e.r) * 17 + (CHOOSE i \in 1..15 : <<"add","sub","mul","div","min","max","lt","le","gt","ge","eq","ne","and","or","x">>[i] = e.k)) % 100003
HK(e, a, b) == (TH(e) * 7 + a * 13 + b * 29 + Seed) % 9973
Aops == <<"set", "add", "sub", "mul">>
RECURSIVE HasSqrt(_)
HasSqrt(e) == CASE e.k \in {"t", "s", "k"} -> FALSE [] e.k = "sqrt" -> TRUE [] e.k \in {"neg", "abs", "not"} -> HasSqrt(e.x)
                [] OTHER -> HasSqrt(e.l) \/ HasSqrt(e.r)                  \* sqrt is a floating-point function: float/double cases only
ArCases(trees, q) ==
    { [tree |-> e, aop |-> Aops[ai], N |-> Sizes[si], T |-> t, bool |-> 0] :
        e \in trees, ai \in 1..4, si \in 1..Len(Sizes), t \in Types }
AI(a) == CHOOSE i \in 1..4 : Aops[i] = a
TI(t) == CHOOSE i \in 1..4 : <<"f64", "f32", "i32", "i64">>[i] = t
KeepAr(x, q) == /\ HK(x.tree, x.N, AI(x.aop) * 5 + TI(x.T)) % q = 0
                /\ (HasSqrt(x.tree) => x.T \in {"f64", "f32"})
DivCases == { [tree |-> e, aop |-> "div", N |-> n, T |-> t, bool |-> 0] : e \in {T("d"), S}, n \in {3, 8, 17, 35}, t \in Types }
BoolCases == { [tree |-> e, aop |-> "set", N |-> Sizes[si], T |-> t, bool |-> 1] : e \in C1 \cup L2, si \in 1..Len(Sizes), t \in Types }
\* table mode: one operation on boundary / special operand values, judged against the same scalar C++ operation
IntOps == {"neg", "abs", "add", "sub", "mul", "min", "max", "lt", "le", "eq", "ne"}
FltOps == IntOps \cup {"sqrt", "div", "exp", "log", "sin", "cos", "tan", "tanh", "atan", "cbrt", "floor", "ceil", "round", "trunc", "pow", "hypot", "atan2",
                       "isnan", "isinf", "isfinite"}
TableCases == { [mode |-> "table", op |-> o, T |-> t, N |-> n] : o \in FltOps, t \in Types, n \in {3, 8, 17, 35} }
KeepTable(x) == (x.T \in {"i32", "i64"} => x.op \in IntOps) /\ ((Len(x.op) * 7 + x.N + TI(x.T) * 3 + Seed) % TableQuota = 0)
\* complex element type: ring operations only (unary minus, + - *), scalar on either side
RECURSIVE RingTree(_)
RingTree(e) == CASE e.k = "t" -> e.n \in {"a", "b", "c"} [] e.k \in {"s", "k"} -> TRUE [] e.k = "neg" -> RingTree(e.x)
                 [] e.k \in {"add", "sub", "mul"} -> RingTree(e.l) /\ RingTree(e.r) [] OTHER -> FALSE
CxCases == { [tree |-> e, aop |-> Aops[ai], N |-> n, T |-> "c64", bool |-> 0] :
               e \in {t \in A1 \cup (IF Depth2 = 1 THEN A2 ELSE {}) : RingTree(t)}, ai \in 1..4, n \in {1, 2, 3, 4, 5, 8, 9} }
KeepCx(x) == HK(x.tree, x.N, AI(x.aop) * 5) % (IF x.tree \in A1 THEN Quota \div 3 + 1 ELSE Quota * 12) = 0
Cases == {x \in CxCases : KeepCx(x)} \cup {x \in TableCases : KeepTable(x)} \cup {x \in ArCases(A1, 1) : KeepAr(x, Quota)}
         \cup (IF Depth2 = 1 THEN {x \in ArCases(A2, 1) : KeepAr(x, Quota * 40)} ELSE {})
         \cup DivCases
         \cup {x \in BoolCases : HK(x.tree, x.N, TI(x.T)) % (Quota * 3) = 0}

Init == c \in Cases
Next == UNCHANGED c
Spec == Init /\ [][Next]_c

\* generator obligation: on representative data every emitted tree is in the exactness domain
Env0 == [a |-> <<-6, 0, 5, 3>>, b |-> <<4, -3, 0, 6>>, c |-> <<-1, 2, -5, 6>>, q |-> <<0, 1, 36, 25>>, d |-> <<1, -2, 3, -3>>, m |-> <<-4, 6, 0, 2>>]
IsTable == "mode" \in DOMAIN c
DomainOK == IsTable \/ (c.T = "c64" /\ RingOnly(c.tree)) \/ InDomain(c.tree, Env0, 4)
BoolFlagOK == IsTable \/ ((c.bool = 1) <=> IsBoolKind(c.tree))
Emit == PrintT(<<"PLAN", ToJson(c)>>)
=====================================================================================
