SPECIFICATION Spec
CONSTANTS Quota = 23
 Depth2 = 1
 TableQuota = 2
INVARIANT DomainOK
INVARIANT BoolFlagOK
INVARIANT Emit
CHECK_DEADLOCK FALSE
