SPECIFICATION Spec
CONSTANTS Quota = 5
 Depth2 = 1
 TableQuota = 1
INVARIANT DomainOK
INVARIANT BoolFlagOK
INVARIANT Emit
CHECK_DEADLOCK FALSE
