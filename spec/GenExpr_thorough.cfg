SPECIFICATION Spec
CONSTANTS Quota = 3
 Depth2 = 1
 TableQuota = 1
INVARIANT DomainOK
INVARIANT BoolFlagOK
INVARIANT Emit
CHECK_DEADLOCK FALSE
