SPECIFICATION Spec
CONSTANTS NMax = 5
 MaxLen = 3
INVARIANT ReadShape
INVARIANT WriteFootprint
INVARIANT Emit
CHECK_DEADLOCK FALSE
