--------------------------------- MODULE GenIndexVecs ---------------------------------
(* Exhaustive enumeration of short index vectors for C19 (thorough tier): every index tensor of     *)
(* length 1..MaxLen over a rank-1 parent of extent 1..NMax, duplicates included (reads) -- one TLC     *)
(* state per (extent, vector).  The obligations of the index-view semantics are checked on each:       *)
(* a read returns one element per index in index order; a duplicate-free vector selects as many        *)
(* distinct cells as it has entries, so a write through it touches exactly those cells.                *)
EXTENDS TensorMachine
CONSTANTS NMax, MaxLen
VARIABLES n, v
Vecs(nn) == UNION {[1..len -> 0..(nn - 1)] : len \in 1..MaxLen}
Init == n \in 1..NMax /\ v \in Vecs(n)
Next == UNCHANGED <<n, v>>
Spec == Init /\ [][Next]_<<n, v>>
Blk == InitBlock(1, n, FALSE)
ReadShape == Len(Read(Blk, v)) = Len(v) /\ \A q \in 1..Len(v) : Read(Blk, v)[q] = Cell(Blk, v[q])
WriteFootprint == DupFree(v) =>
    LET after == Write(Blk, v, "add", [q \in 1..Len(v) |-> 100], FALSE)
    IN /\ \A q \in 1..Len(v) : Cell(after, v[q]) = Cell(Blk, v[q]) + 100
       /\ \A p \in 0..(n - 1) : (\A q \in 1..Len(v) : v[q] # p) => Cell(after, p) = Cell(Blk, p)
       /\ GuardsIntact(after, FALSE)
Emit == PrintT(<<"PLAN", ToJson([n |-> n, v |-> v, dupfree |-> IF DupFree(v) THEN 1 ELSE 0])>>)
=======================================================================================
