---------------------------------- MODULE GenLazy ----------------------------------
(* Plan generator for C09: one TLC state per (tree, operator, destination kind, n, type).  Trees up to   *)
(* depth 2 mix element-wise + - * with the lazy nodes %, trans, inv, adj, cof, det(.)*., trace(.)*. ;      *)
(* the destination D occurs only as an element-wise operand; inverses only of the unimodular leaf U (or     *)
(* simple unimodular combinations).  Invariants: every case is in the exactness domain of LazyExpr on a      *)
(* representative environment, and D never occurs inside a lazy node (the property's domain).               *)
EXTENDS StagedAssign, SequencesExt
CONSTANTS Quota, ChainQuota
VARIABLE c
Seed == atoi(IOEnv.VERIF_SEED)
Lf(nm) == [k |-> "t", n |-> nm]
Bn(k, l, r) == [k |-> k, l |-> l, r |-> r]
Un(k, a) == [k |-> k, x |-> a]
Sc(k, a, b) == [k |-> k, x |-> a, y |-> b]
Plain == {Lf("A"), Lf("B"), Lf("C")}
WithD == Plain \cup {Lf("D")}
UniArgs == {Lf("U"), Un("trans", Lf("U")), Bn("mm", Lf("U"), Lf("U"))}
LazyAtoms == {Bn("mm", l, r) : l \in Plain \cup {Lf("U")}, r \in Plain}
             \cup {Un("trans", l) : l \in Plain}
             \cup {Un(k, a) : k \in {"inv", "adj", "cof"}, a \in UniArgs} \cup {Un(k, a) : k \in {"adj", "cof"}, a \in Plain}
             \cup {Sc(k, a, b) : k \in {"sdet", "strace"}, a \in Plain \cup {Lf("U")}, b \in Plain}
             \cup {Bn("mm", Bn("mm", Lf("A"), Lf("B")), Lf("C")), Bn("mm", Lf("A"), Bn("mm", Lf("B"), Lf("U"))), Bn("mm", Bn("add", Lf("A"), Lf("B")), Lf("C")),
                   Un("trans", Bn("add", Lf("A"), Lf("B"))), Un("trans", Bn("mm", Lf("A"), Lf("B"))), Un("inv", Un("inv", Lf("U")))}
EW1 == {Bn(k, l, r) : k \in {"add", "sub", "mul"}, l \in WithD, r \in WithD}
\* depth-2 mixes: lazy (op) elementwise-with-D, elementwise (op) lazy, lazy (op) lazy
Mix == {Bn(k, l, r) : k \in {"add", "sub", "mul"}, l \in LazyAtoms, r \in WithD \cup EW1}
       \cup {Bn(k, l, r) : k \in {"add", "sub", "mul"}, l \in WithD \cup EW1, r \in LazyAtoms}
       \cup {Bn(k, l, r) : k \in {"add", "sub"}, l \in LazyAtoms, r \in LazyAtoms}
\* an arithmetic scalar on either side of a lazy node (the scalar overloads of the staged assignment)
S2 == [k |-> "s", v |-> 2]
SMix == {Bn(k, S2, r) : k \in {"add", "sub", "mul"}, r \in LazyAtoms} \cup {Bn(k, l, S2) : k \in {"add", "sub", "mul"}, l \in LazyAtoms}
        \cup {Bn("sub", S2, Bn("add", Bn("mm", Lf("A"), Lf("B")), Lf("C"))), Bn("sub", S2, Bn("sub", Lf("D"), Un("trans", Lf("B"))))}
Trees == LazyAtoms \cup Mix \cup SMix
RECURSIVE TH(_)
Names == <<"A", "B", "C", "D", "U">>
Kinds == <<"add", "sub", "mul", "mm", "trans", "inv", "adj", "cof", "sdet", "strace">>
TH(e) == CASE e.k = "t" -> (CHOOSE i \in 1..5 : Names[i] = e.n)
           [] e.k = "s" -> 6
           [] e.k \in {"trans", "inv", "adj", "cof"} -> (TH(e.x) * 31 + (CHOOSE i \in 1..10 : Kinds[i] = e.k)) % 100003
           [] e.k \in {"sdet", "strace"} -> (TH(e.x) * 37 + TH(e.y) * 11 + (CHOOSE i \in 1..10 : Kinds[i] = e.k)) % 100003
           [] OTHER -> (TH(e.l) * 131 + TH(e.r) * 17 + (CHOOSE i \in 1..10 : Kinds[i] = e.k)) % 100003
Xs == <<"set", "add", "sub", "mul">>
\* sample trees first (aliased trees four times as often), then cross with the operators and destination kinds; n and the element
\* type are picked per case by hash
KeepTree(e) == LET h == (TH(e) * 7 + Seed) % 9973 IN IF e \in SMix THEN h % 3 = 0 ELSE IF Alias(e) THEN h % Quota = 0 ELSE h % (Quota * 4) = 0
Kept == {e \in Trees : KeepTree(e)} \cup {e \in LazyAtoms : (TH(e) + Seed) % 3 = 0}
\* forms that do not compile in any configuration (not offered):
\*  - a TensorMap destination with a % node (matmul_dispatcher only accepts a Tensor destination)
\*  - += / -= of a sum one of whose terms is scalar*tensor (det(.)*X, trace(.)*X): does_alias() calls .self() on the scalar
RECURSIVE HasKind(_, _)
HasKind(e, ks) == e.k \in ks \/ (CASE e.k \in {"t", "s"} -> FALSE
                                    [] e.k \in {"add", "sub", "mul", "mm"} -> HasKind(e.l, ks) \/ HasKind(e.r, ks)
                                    [] e.k \in {"sdet", "strace"} -> HasKind(e.x, ks) \/ HasKind(e.y, ks)
                                    [] OTHER -> HasKind(e.x, ks))
\*  - += / -= of a sum whose right operand contains inv / adj / cof (no does_alias overload for those nodes; Trans has one)
RECURSIVE NoAliasFn(_)
NoAliasFn(e) == e.k \in {"add", "sub"} /\ Req(e) /\ e.l.k # "s" /\        \* (a scalar left operand takes the scalar overloads: offered)
                (HasKind(e.r, {"inv", "adj", "cof", "sdet", "strace"}) \/ NoAliasFn(e.l) \/ NoAliasFn(e.r))
Offered(v) == /\ (v.dest = "map" => ~HasKind(v.tree, {"mm", "inv", "adj", "cof"}))      \* the inv/adj/cof dispatchers also want a Tensor destination
              /\ (v.x \in {"add", "sub"} => ~NoAliasFn(v.tree))
AllCases == { [tree |-> e, x |-> Xs[xi], dest |-> d,
            n |-> IF (TH(e) + xi + Len(d)) % 3 = 0 THEN 3 ELSE 2, T |-> IF (TH(e) + xi * 3 + Len(d)) % 2 = 0 THEN "f64" ELSE "f32"] :
             e \in Kept, xi \in 1..4, d \in {"tensor", "map"} }
Cases == {v \in AllCases : Offered(v)}
\* chains of lazy products of rectangular matrices, extents from {1,2,3,5} so that the cost model takes every association
Ext == {1, 2, 3, 5}
DimSeqs(k) == [1..(k + 1) -> Ext]
HD(d) == LET RECURSIVE HGo(_) HGo(i) == IF i > Len(d) THEN 0 ELSE (d[i] * (i * 7 + 3) + 31 * HGo(i + 1)) % 9973 IN HGo(1)
ChainCases == UNION { { [chain |-> 1, dims |-> d, T |-> IF HD(d) % 2 = 0 THEN "f64" ELSE "f32"] : d \in {q \in DimSeqs(k) : (HD(q) + Seed) % ChainQuota = 0} } : k \in 2..5 }
Init == c \in Cases \cup ChainCases
Next == UNCHANGED c
Spec == Init /\ [][Next]_c

Env2 == [A |-> <<1, 2, 3, 5>>, B |-> <<2, -1, 1, 3>>, C |-> <<0, 1, -2, 1>>, D |-> <<3, 1, -1, 2>>, U |-> <<1, 2, 1, 3>>]
IsChain == "chain" \in DOMAIN c
InDomainOK == IsChain \/ Dom(c.tree, Env2, 2)
RECURSIVE DOnlyElementwise(_)
DOnlyElementwise(t) == CASE t.k \in {"t", "s"} -> TRUE
                         [] t.k \in {"add", "sub", "mul"} -> DOnlyElementwise(t.l) /\ DOnlyElementwise(t.r)
                         [] OTHER -> ~Alias(t)
PropertyDomainOK == IsChain \/ DOnlyElementwise(c.tree)
Emit == PrintT(<<"PLAN", ToJson(c)>>)
=====================================================================================
