SPECIFICATION Spec
CONSTANTS Quota = 60
 ChainQuota = 40
INVARIANT InDomainOK
INVARIANT PropertyDomainOK
INVARIANT Emit
CHECK_DEADLOCK FALSE
