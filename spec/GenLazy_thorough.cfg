SPECIFICATION Spec
CONSTANTS Quota = 6
 ChainQuota = 3
INVARIANT InDomainOK
INVARIANT PropertyDomainOK
INVARIANT Emit
CHECK_DEADLOCK FALSE
