SPECIFICATION Spec
CONSTANTS Quota = 14
 ChainQuota = 3
INVARIANT InDomainOK
INVARIANT PropertyDomainOK
INVARIANT Emit
CHECK_DEADLOCK FALSE
