---------------------------------- MODULE GenLinalg ----------------------------------
(* Plan generator for C10 (Inverse), C11 (LU), C12 (Solve), C13 (QR).                                *)
(* One TLC state per MATRIX CASE.  A state carries the integer matrix, the certificate that puts it   *)
(* inside the domain of the strategies, and the set of library calls (strategy, form, element type,   *)
(* right-hand-side shape, permutation encoding) that will be made on it.  TLC checks on every state    *)
(* that each emitted call is inside the property's domain (AdmissibleCases): un-pivoted strategies      *)
(* only see matrices with a diagonal-dominance or LU certificate, pivoted strategies only see matrices  *)
(* that the library's static pre-pivot (Linalg!StaticPivot) maps back to such a matrix, triangular       *)
(* routines only see triangular matrices.  It also checks the permutation algebra of Linalg on every     *)
(* generated permutation (both encodings agree, unapply undoes apply).                                   *)
(*                                                                                                      *)
(* Families (all entries are integers generated from VERIF_SEED by an integer hash):                     *)
(*   dd    strictly diagonally dominant by rows and columns, off-diagonal entries in -3..3              *)
(*         variants v > 0 are ROW PERMUTATIONS built from disjoint cycles (DESIGN C10-C13): the upper     *)
(*         entries B[j][k] that the static scan must prefer are forced to +-4                           *)
(*   uni   L0*U0, unit lower times upper with +-1 diagonal, sparse +-1 entries: unimodular              *)
(*   had   block diagonal of Hadamard blocks (order 1, 2, 4) times a power-of-two column scaling;        *)
(*         hq: orders 1 and 4 only (Gram-Schmidt is then exact: every column norm is a power of two)     *)
(*   tril  unit lower triangular  (2^sA I + N) / 2^sA,  N strictly lower with entries in -3..3           *)
(*   triu  the upper triangle of a dd matrix                                                            *)
(*   batch (Inverse) nb diagonally dominant matrices of order <= 4 for the batched inverse               *)
EXTENDS Linalg
CONSTANTS Kind,        \* "Inverse" | "LU" | "Solve" | "QR"
          Sizes,       \* matrix orders of the tier
          WideForms,   \* 1: lazy / expression forms at every size; 0: at the sizes listed in FormSizes
          BigLean      \* 1: orders above 33 only as representatives of the largest dispatcher size class of BlockLinalg (block strategies, double,
                       \*    eager, two matrices): the quick tier then reaches every size class at the cost of one large instantiation per strategy
VARIABLE c
Seed == atoi(IOEnv.VERIF_SEED)

Mix(x) == LET y == x % 32749 IN (y * (y + 7919) + 13) % 32749
H3(a, b, d) == Mix(Mix(Mix(Mix((Seed % 32749) + 1) + a) + b) + d)
Sgn(h) == IF h % 2 = 0 THEN 1 ELSE 0 - 1
RowOf(q, n) == (q - 1) \div n
ColOf(q, n) == (q - 1) % n
MaxOf(a, b) == IF a > b THEN a ELSE b

-----------------------------------------------------------------------------------------------------
\* ---- dd: base matrix B with forced entries, cycles, row map sigma  (A[i] = B[sigma(i)])
Chosen(t, salt, d, cnt) == H3(t, salt, d) % 2 = 0 \/ t = H3(0, salt + 1, d) % cnt      \* at least one cycle is chosen
Cycles(n, v, d) ==
    CASE v = 0 -> {}
      [] v = 1 -> {<<2 * t, 2 * t + 1>> : t \in {t \in 0..(n \div 2 - 1) : Chosen(t, 11, d, n \div 2)}}            \* neighbours
      [] v = 2 -> {<<t, n - 1 - t>> : t \in {t \in 0..(n \div 2 - 1) : Chosen(t, 13, d, n \div 2)}}                \* long range
      [] v = 3 -> {<<3 * t, 3 * t + 1, 3 * t + 2>> : t \in {t \in 0..(n \div 3 - 1) : Chosen(t, 15, d, n \div 3)}}  \* 3-cycles (not involutions)
      [] v = 4 -> {<<t, t + n \div 3, t + 2 * (n \div 3)>> : t \in {t \in 0..(n \div 3 - 1) : Chosen(t, 17, d, n \div 3)}}
MinSize(v) == CASE v = 0 -> 1 [] v \in {1, 2} -> 2 [] OTHER -> 3
\* A[a] = B[b], A[b] = B[c], A[c] = B[a]  for a cycle <<a, b, c>>;  A[j] = B[k], A[k] = B[j] for <<j, k>>
Sigma(n, cyc) == [i \in 1..n |->
    IF \E y \in cyc : \E t \in 1..Len(y) : y[t] = i - 1
    THEN LET y == CHOOSE y \in cyc : \E t \in 1..Len(y) : y[t] = i - 1
             t == CHOOSE t \in 1..Len(y) : y[t] = i - 1
         IN y[(t % Len(y)) + 1]
    ELSE i - 1]
\* entries the static scan must prefer: B[j][k] for <<j,k>>;  B[a][b] and B[a][c] for <<a,b,c>>
Forced(cyc) == UNION {{<<y[1], y[t]>> : t \in 2..Len(y)} : y \in cyc}
DDBase(n, d, cyc) ==
    LET fr == Forced(cyc)
        off == TLCEval([q \in 1..(n * n) |->
                   LET i == RowOf(q, n)  j == ColOf(q, n)
                   IN IF i = j THEN 0
                      ELSE IF <<i, j>> \in fr THEN 4 * Sgn(H3(i, j, d + 3))
                      ELSE (H3(i, j, d) % 7) - 3])
        dg == TLCEval([i \in 0..(n - 1) |-> Sgn(H3(i, 99, d)) * (MaxOf(OffRowSum(off, n, i), OffColSum(off, n, i)) + 1 + (H3(i, 98, d) % 3))])
    IN TLCEval([q \in 1..(n * n) |-> IF RowOf(q, n) = ColOf(q, n) THEN dg[RowOf(q, n)] ELSE off[q]])

\* ---- uni: sparse unit-triangular factors
BW(n) == IF n <= 12 THEN 2 ELSE 1
UniL(n, d) == TLCEval([q \in 1..(n * n) |-> LET i == RowOf(q, n)  j == ColOf(q, n)
                  IN IF i = j THEN 1 ELSE IF i > j /\ i - j <= BW(n) /\ H3(i, j, d + 40) % 3 # 0 THEN Sgn(H3(i, j, d + 41)) ELSE 0])
UniU(n, d) == TLCEval([q \in 1..(n * n) |-> LET i == RowOf(q, n)  j == ColOf(q, n)
                  IN IF i = j THEN Sgn(H3(i, 97, d)) ELSE IF j > i /\ j - i <= BW(n) /\ H3(i, j, d + 42) % 3 # 0 THEN Sgn(H3(i, j, d + 43)) ELSE 0])

\* ---- had / hq: block layout, Sylvester blocks and their LU factors (Kronecker products of the 2x2 ones)
RECURSIVE LayoutFrom(_, _, _, _)
LayoutFrom(n, d, pos, only14) ==
    IF pos >= n THEN <<>>
    ELSE LET r == n - pos  h == H3(pos, 77, d) % 3
             s == IF only14 THEN (IF r >= 4 /\ h <= 1 THEN 4 ELSE 1)
                  ELSE (IF r >= 4 /\ h = 0 THEN 4 ELSE IF r >= 2 /\ h <= 1 THEN 2 ELSE 1)
         IN [t \in 1..s |-> <<pos, s>>] \o LayoutFrom(n, d, pos + s, only14)
H2(a, b) == IF a = 1 /\ b = 1 THEN 0 - 1 ELSE 1
L2(a, b) == IF a >= b THEN 1 ELSE 0
U2(a, b) == IF a = 0 THEN 1 ELSE IF b = 1 THEN 0 - 2 ELSE 0
HB(s, a, b) == CASE s = 1 -> 1 [] s = 2 -> H2(a, b) [] s = 4 -> H2(a \div 2, b \div 2) * H2(a % 2, b % 2)
LB(s, a, b) == CASE s = 1 -> 1 [] s = 2 -> L2(a, b) [] s = 4 -> L2(a \div 2, b \div 2) * L2(a % 2, b % 2)
UB(s, a, b) == CASE s = 1 -> 1 [] s = 2 -> U2(a, b) [] s = 4 -> U2(a \div 2, b \div 2) * U2(a % 2, b % 2)
EMax == IF Kind = "QR" THEN 5 ELSE 3
ColScale(j, d) == 2 ^ (H3(j, 55, d) % (EMax + 1))
HadOf(n, d, lay, blk(_, _, _), scaled) ==
    TLCEval([q \in 1..(n * n) |-> LET i == RowOf(q, n)  j == ColOf(q, n)
                 IN IF lay[i + 1][1] # lay[j + 1][1] THEN 0
                    ELSE blk(lay[i + 1][2], i - lay[i + 1][1], j - lay[j + 1][1]) * (IF scaled THEN ColScale(j, d) ELSE 1)])

\* ---- ill (QR only): A = H diag(2^k) H on one Sylvester block H (H H = s I, so H / sqrt(s) is orthogonal and the singular values of
\* the block are exactly s 2^k): the columns are nearly parallel, cond_2 = 2^E exactly and cond_inf <= s 2^E.  This is the input on which
\* Gram-Schmidt variants differ: modified Gram-Schmidt loses orthogonality like eps cond, the classical one like eps cond^2.
RECURSIVE HS(_, _, _)
HS(s, a, b) == IF s = 1 THEN 1 ELSE LET h == s \div 2 IN H2(a \div h, b \div h) * HS(h, a % h, b % h)
Pow2Le(n) == CHOOSE s \in {1, 2, 4, 8, 16, 32} : s <= n /\ (2 * s > n \/ s = 32)
IllEMax(s) == CASE s = 2 -> 24 [] s = 4 -> 24 [] s = 8 -> 22 [] s = 16 -> 21 [] s = 32 -> 20
IllE(s, d) == CASE d = 0 -> 10 [] d = 1 -> IllEMax(s) - 6 [] OTHER -> IllEMax(s)
IllH(n, s) == TLCEval([q \in 1..(n * n) |-> LET i == RowOf(q, n)  j == ColOf(q, n)
                 IN IF i < s /\ j < s THEN HS(s, i, j) ELSE IF i = j THEN 1 ELSE 0])
IllD(n, s, d) == LET E == IllE(s, d)  rot == H3(s, 66, d)
                 IN TLCEval([i \in 0..(n - 1) |-> IF i < s THEN 2 ^ ((((i + rot) % s) * E) \div (s - 1)) ELSE 2 ^ (E \div 2)])
ScaleCols(M, n, dg) == TLCEval([q \in 1..(n * n) |-> M[q] * dg[ColOf(q, n)]])

\* ---- tril / triu
LogCeil(x) == CHOOSE k \in 0..12 : 2 ^ k >= x /\ (k = 0 \/ 2 ^ (k - 1) < x)
TrilOf(n, d) == LET s == LogCeil(4 * n)
                IN [sA |-> s, A |-> TLCEval([q \in 1..(n * n) |-> LET i == RowOf(q, n)  j == ColOf(q, n)
                                        IN IF i = j THEN 2 ^ s ELSE IF i > j THEN (H3(i, j, d + 60) % 7) - 3 ELSE 0])]
TriuOf(n, d) == LET B == DDBase(n, d + 70, {})
                IN TLCEval([q \in 1..(n * n) |-> IF ColOf(q, n) >= RowOf(q, n) THEN B[q] ELSE 0])

-----------------------------------------------------------------------------------------------------
\* ---- matrix cases
GeneralKeys == {<<n, "dd", dv[1], dv[2]>> : n \in Sizes, dv \in {<<0, 0>>, <<1, 0>>, <<2, 1>>, <<3, 2>>, <<4, 3>>, <<5, 4>>}}
               \cup {<<n, f, d, 0>> : n \in Sizes, f \in {"uni", "had"}, d \in {0, 1}}
KeysOf ==
    CASE Kind = "Inverse" -> {k \in GeneralKeys : k[2] # "uni" \/ k[1] <= 33}
                             \cup {<<n, f, d, 0>> : n \in Sizes, f \in {"tril", "triu"}, d \in {0, 1}}
                             \* batched inverse: closed forms only (_inverse<T,J> is declared but not defined for J > 4); J = 1 does not compile in any
                             \* configuration (the batched overload also instantiates _det<T,1,1>, which does not exist): not offered
                             \cup {<<n, f, 0, 0>> : n \in Sizes \cap 2..4, f \in {"batch3", "batch23"}}
      [] Kind = "LU" -> {k \in GeneralKeys : k[2] # "uni" \/ k[1] <= 33}
      [] Kind = "Solve" -> {k \in GeneralKeys : k[2] # "uni" \/ k[1] <= 33}
                           \cup {<<n, f, d, 0>> : n \in Sizes, f \in {"tril", "triu"}, d \in {0}}
      [] Kind = "QR" -> {k \in GeneralKeys : k[2] # "uni" \/ k[1] <= 33} \cup {<<n, "hq", d, 0>> : n \in Sizes, d \in {0, 1}}
                        \cup {<<n, "ill", d, 0>> : n \in Sizes \ {1}, d \in {0, 1, 2}}
Lean(n) == BigLean = 1 /\ n > 33
Keys == {k \in KeysOf : k[1] >= MinSize(k[4]) /\ (Lean(k[1]) => k[2] = "dd" /\ <<k[3], k[4]>> \in {<<0, 0>>, <<3, 2>>})}

FormSizes == {1, 2, 3, 4, 5, 9, 17}
FormOK(n) == WideForms = 1 \/ n \in FormSizes
Types == {"f64", "f32"}
\* 1..5 right-hand-side columns; a function of n only: every distinct (n, k) is another instantiation of the unrolled substitutions
KCols(n, d) == 1 + (H3(n, 0, 7) % 5)

\* the calls made on a matrix; piv = the strategy pre-pivots; need in {"nopiv", "piv", "lower", "upper", "any"} = required domain
Call(s, f, T, k, pk, need) == [strategy |-> s, form |-> f, T |-> T, k |-> k, pk |-> pk, need |-> need]
InvNoPiv == {"SimpleInv", "BlockLU", "SimpleLU"}
InvPiv == {"SimpleInvPiv", "BlockLUPiv", "SimpleLUPiv"}
LeanCall(x) == x.form = "eager" /\ x.T = "f64" /\ x.strategy \in {"BlockLU", "BlockLUPiv"} /\ x.pk \in {"none", "V"} /\ x.k = 0
CallsOfAll(n, fam, d, v, adm) ==
    LET nop == v = 0  IN
    CASE Kind = "Inverse" ->
           IF fam = "tril" THEN {Call("lut", f, T, 0, "none", "lower") : f \in {"eager"} \cup (IF FormOK(n) THEN {"expr"} ELSE {}), T \in Types}
           ELSE IF fam = "triu" THEN {Call("ut", f, T, 0, "none", "upper") : f \in {"eager"} \cup (IF FormOK(n) THEN {"expr"} ELSE {}), T \in Types}
           ELSE IF fam \in {"batch3", "batch23"} THEN {Call("SimpleInv", fam, T, 0, "none", "nopiv") : T \in Types}
           ELSE (IF nop THEN {Call(s, "eager", T, 0, "none", "nopiv") : s \in InvNoPiv, T \in Types} ELSE {})
                \cup (IF adm THEN {Call(s, "eager", T, 0, "none", "piv") : s \in InvPiv, T \in Types} ELSE {})
                \cup (IF nop /\ FormOK(n) /\ d = 0 THEN {Call("SimpleInv", f, T, 0, "none", "nopiv") : f \in {"expr", "lazy", "lazy_expr"}, T \in Types}
                                                    \cup {Call("BlockLU", "expr", "f64", 0, "none", "nopiv")} ELSE {})
                \cup (IF adm /\ FormOK(n) /\ v = 3 THEN {Call(s, "expr", "f64", 0, "none", "piv") : s \in {"SimpleInvPiv", "SimpleLUPiv"}} ELSE {})
      [] Kind = "LU" ->
           (IF nop THEN {Call(s, "eager", T, 0, "none", "nopiv") : s \in {"BlockLU", "SimpleLU"}, T \in Types} ELSE {})
           \cup (IF adm THEN {Call(s, "eager", T, 0, pk, "piv") : s \in {"BlockLUPiv", "SimpleLUPiv"}, pk \in {"V", "M"}, T \in Types} ELSE {})
           \cup (IF nop /\ FormOK(n) /\ d = 0 THEN {Call(s, "expr", "f64", 0, "none", "nopiv") : s \in {"BlockLU", "SimpleLU"}} ELSE {})
           \cup (IF adm /\ FormOK(n) /\ v \in {2, 3} THEN {Call(s, "expr", "f64", 0, pk, "piv") : s \in {"BlockLUPiv", "SimpleLUPiv"}, pk \in {"V", "M"}} ELSE {})
      [] Kind = "Solve" ->
           IF fam = "tril" THEN {Call("fwdsub", "eager", T, k, "none", "lower") : k \in {0, KCols(n, d)}, T \in Types}
           ELSE IF fam = "triu" THEN {Call("bwdsub", "eager", T, k, "none", "upper") : k \in {0, KCols(n, d)}, T \in Types}
           ELSE (IF nop THEN {Call(s, "eager", T, k, "none", "nopiv") : s \in InvNoPiv, k \in {0, KCols(n, d)}, T \in Types} ELSE {})
                \cup (IF adm THEN {Call(s, "eager", T, k, "none", "piv") : s \in InvPiv, k \in {0, KCols(n, d)}, T \in Types} ELSE {})
                \cup (IF nop /\ FormOK(n) /\ d = 0 THEN {Call(s, f, "f64", k, "none", "nopiv") : s \in {"SimpleInv", "BlockLU"}, f \in {"expr_Ab", "expr_A", "expr_b"}, k \in {0, KCols(n, d)}} ELSE {})
                \cup (IF adm /\ FormOK(n) /\ v = 3 THEN {Call(s, "expr_Ab", "f64", k, "none", "piv") : s \in {"SimpleInvPiv", "SimpleLUPiv"}, k \in {0, KCols(n, d)}} ELSE {})
      [] Kind = "QR" ->
           IF fam = "ill"            \* d >= 1: cond up to 7e7, inside the property's domain for double only (entries need up to 30 bits)
           THEN LET Ts == IF d = 0 THEN Types ELSE {"f64"} IN
                {Call("MGSR", "eager", T, 0, "none", "any") : T \in Ts} \cup {Call("MGSRPiv", "eager", T, 0, "V", "any") : T \in Ts}
                \cup (IF FormOK(n) /\ d = 2 THEN {Call("MGSR", "expr", "f64", 0, "none", "any")} ELSE {})
           ELSE
           {Call("MGSR", "eager", T, 0, "none", "any") : T \in Types}
           \cup {Call("MGSRPiv", "eager", T, 0, pk, "any") : pk \in {"V", "M"}, T \in Types}
           \cup (IF FormOK(n) /\ d = 0 THEN {Call("MGSR", "expr", "f64", 0, "none", "any")} \cup {Call("MGSRPiv", "expr", "f64", 0, pk, "any") : pk \in {"V", "M"}} ELSE {})

CallsOf(n, fam, d, v, adm) == IF Lean(n) THEN {x \in CallsOfAll(n, fam, d, v, adm) : LeanCall(x)} ELSE CallsOfAll(n, fam, d, v, adm)

Build(k) ==
    LET n == k[1]  fam == k[2]  d == k[3]  v == k[4] IN
    CASE fam = "dd" ->
           LET cyc == Cycles(n, v, d)
               sg == Sigma(n, cyc)
               B == DDBase(n, d, cyc)
               A == TLCEval(ApplyPerm(B, n, n, sg))
               cert == [kind |-> "dd"]
               adm == Admissible(A, n, cert)
           IN [n |-> n, fam |-> fam, d |-> d, v |-> v, nb |-> 1, sA |-> 0, A |-> A, base |-> B, sigma |-> sg, cert |-> cert, adm |-> adm,
               calls |-> CallsOf(n, fam, d, v, adm)]
      [] fam = "uni" ->
           LET L0 == UniL(n, d)  U0 == UniU(n, d)
               A == TLCEval(Prod(L0, U0, n, n, n))
               cert == [kind |-> "lu", L0 |-> L0, U0 |-> U0]
               adm == StaticPivot(A, n) = Iota(n)          \* the certificate is known for A itself only
           IN [n |-> n, fam |-> fam, d |-> d, v |-> 0, nb |-> 1, sA |-> 0, A |-> A, base |-> A, sigma |-> Iota(n), cert |-> cert, adm |-> adm,
               calls |-> CallsOf(n, fam, d, 0, adm)]
      [] fam \in {"had", "hq"} ->
           LET lay == LayoutFrom(n, d, 0, fam = "hq")
               A == HadOf(n, d, lay, HB, TRUE)
               cert == [kind |-> "lu", L0 |-> HadOf(n, d, lay, LB, FALSE), U0 |-> HadOf(n, d, lay, UB, TRUE)]
               adm == StaticPivot(A, n) = Iota(n)
           IN [n |-> n, fam |-> fam, d |-> d, v |-> 0, nb |-> 1, sA |-> 0, A |-> A, base |-> A, sigma |-> Iota(n), cert |-> cert, adm |-> adm,
               calls |-> CallsOf(n, fam, d, 0, adm)]
      [] fam = "ill" ->
           LET sb == Pow2Le(n)
               Hm == IllH(n, sb)  dg == IllD(n, sb, d)
               A == TLCEval(Prod(ScaleCols(Hm, n, dg), Hm, n, n, n))
               cert == [kind |-> "hdh", H |-> Hm, dg |-> dg]
           IN [n |-> n, fam |-> fam, d |-> d, v |-> 0, nb |-> 1, sA |-> 0, A |-> A, base |-> A, sigma |-> Iota(n), cert |-> cert, adm |-> FALSE,
               calls |-> CallsOf(n, fam, d, 0, FALSE)]
      [] fam = "tril" ->
           LET t == TrilOf(n, d)
           IN [n |-> n, fam |-> fam, d |-> d, v |-> 0, nb |-> 1, sA |-> t.sA, A |-> t.A, base |-> t.A, sigma |-> Iota(n), cert |-> [kind |-> "tri"], adm |-> FALSE,
               calls |-> CallsOf(n, fam, d, 0, FALSE)]
      [] fam = "triu" ->
           LET A == TriuOf(n, d)
           IN [n |-> n, fam |-> fam, d |-> d, v |-> 0, nb |-> 1, sA |-> 0, A |-> A, base |-> A, sigma |-> Iota(n), cert |-> [kind |-> "tri"], adm |-> FALSE,
               calls |-> CallsOf(n, fam, d, 0, FALSE)]
      [] fam \in {"batch3", "batch23"} ->
           LET nb == IF fam = "batch3" THEN 3 ELSE 6
               mats == [b \in 1..nb |-> DDBase(n, 80 + b, {})]
               A == TLCEval([q \in 1..(nb * n * n) |-> mats[(q - 1) \div (n * n) + 1][((q - 1) % (n * n)) + 1]])
           IN [n |-> n, fam |-> fam, d |-> d, v |-> 0, nb |-> nb, sA |-> 0, A |-> A, base |-> A, sigma |-> Iota(n), cert |-> [kind |-> "dd"], adm |-> FALSE,
               calls |-> CallsOf(n, fam, d, 0, FALSE)]

Init == c \in {Build(k) : k \in Keys}
Next == UNCHANGED c
Spec == Init /\ [][Next]_c

-----------------------------------------------------------------------------------------------------
\* ---- obligations checked on every emitted case
SubMatrix(A, n, b) == [q \in 1..(n * n) |-> A[(b - 1) * n * n + q]]
InNeed(need) ==
    CASE need = "nopiv" -> \A b \in 1..c.nb : NoPivotDomain(SubMatrix(c.A, c.n, b), c.n, c.cert)
      [] need = "piv" -> Admissible(c.A, c.n, c.cert)
      [] need = "lower" -> IsUnitLowerInt(c.A, c.n, 2 ^ c.sA)
      [] need = "upper" -> IsUpperInt(c.A, c.n) /\ NonzeroDiag(c.A, c.n)
      [] need = "any" -> IF c.cert.kind = "hdh" THEN HDHCertificate(c.A, c.n, c.cert.H, c.cert.dg)
                         ELSE NoPivotDomain(c.base, c.n, c.cert)     \* QR: any non-singular matrix (here: a row permutation of a certified one)
AdmissibleCases == \A need \in {x.need : x \in c.calls} : InNeed(need)
\* the disjoint-cycle construction of the dd family always lands in the pivoted domain, and exactly on its base matrix
ConstructionRestores == c.fam = "dd" => /\ c.adm
                                        /\ ApplyPerm(c.A, c.n, c.n, StaticPivot(c.A, c.n)) = c.base
                                        /\ c.A = ApplyPerm(c.base, c.n, c.n, c.sigma) /\ IsBijectionV(c.sigma, c.n)
\* permutation algebra of the L1 module on the generated permutations (both encodings; unapply undoes apply)
PermAlgebra == (c.nb = 1 /\ c.n <= 17) =>
                 LET p == StaticPivot(c.A, c.n)
                     P == MatrixOfPerm(p, c.n)
                     PA == ApplyPerm(c.A, c.n, c.n, p)
                 IN /\ IsBijectionV(p, c.n) /\ IsBijectionM(P, c.n) /\ PermOfMatrix(P, c.n) = p
                    /\ ApplyPermM(c.A, c.n, c.n, P) = PA
                    /\ UnapplyPerm(PA, c.n, c.n, p) = c.A
                    /\ ApplyPerm(ApplyPerm(c.A, c.n, c.n, c.sigma), c.n, c.n, InversePerm(c.sigma, c.n)) = c.A
NonEmpty == c.calls # {}
Emit == PrintT(<<"PLAN", ToJson([n |-> c.n, fam |-> c.fam, d |-> c.d, v |-> c.v, nb |-> c.nb, sA |-> c.sA, A |-> c.A,
                                  adm |-> c.adm, sigma |-> c.sigma, calls |-> c.calls])>>)
=======================================================================================
