SPECIFICATION Spec
CONSTANTS Kind = "Inverse"
 Sizes = {1, 2, 3, 4, 5, 6, 7, 8, 9, 16, 17, 32, 33, 65}
 WideForms = 0
 BigLean = 1
INVARIANT AdmissibleCases
INVARIANT ConstructionRestores
INVARIANT PermAlgebra
INVARIANT NonEmpty
INVARIANT Emit
CHECK_DEADLOCK FALSE
