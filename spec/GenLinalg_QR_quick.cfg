SPECIFICATION Spec
CONSTANTS Kind = "QR"
 Sizes = {1, 2, 3, 4, 5, 6, 7, 8, 9, 16, 17, 32, 33}
 WideForms = 0
 BigLean = 0
INVARIANT AdmissibleCases
INVARIANT ConstructionRestores
INVARIANT PermAlgebra
INVARIANT NonEmpty
INVARIANT Emit
CHECK_DEADLOCK FALSE
