SPECIFICATION Spec
CONSTANTS Kind = "Solve"
 Sizes = {1, 2, 3, 4, 5, 6, 7, 8, 9, 10, 11, 12, 16, 17, 32, 33, 64, 65}
 WideForms = 1
 BigLean = 0
INVARIANT AdmissibleCases
INVARIANT ConstructionRestores
INVARIANT PermAlgebra
INVARIANT NonEmpty
INVARIANT Emit
CHECK_DEADLOCK FALSE
