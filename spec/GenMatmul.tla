---------------------------------- MODULE GenMatmul ----------------------------------
(* Plan generator for C01 and exhaustive check of the L2 tiling obligations.                    *)
(* Every state is one case (T, kind, form, M, K, N): TLC enumerates the case space as its        *)
(* state graph ("one implementation test per state"), evaluates the design obligations of        *)
(* MatmulDesign in each state for every ISA, and prints the case for the code generator.         *)
EXTENDS MatmulDesign, Sequences, SequencesExt, TLC, Json, IOUtils

CONSTANTS Box,        \* exhaustive box 1..Box for M,K,N
          Dense,      \* 1: full strata product, 0: covering rotation
          Quota       \* keep 1 of Quota (type,form) combinations per box shape (1 = all)
VARIABLES c

Seed == atoi(IOEnv.VERIF_SEED)

TypeSeq == <<"f64", "i32", "f32", "i64", "c64", "c32">>
FormSeq == <<"eager", "t_add", "t_assign", "t_ctor", "t_sub", "t_mul">>

\* ---- strata (DESIGN C01): N relative to every native vector width, M against the row unrolls, K = 1 vs > 1
Widths == {SizeOf(T, Native(isa)) : T \in {"f32", "f64", "i32", "i64"}, isa \in {"sse2", "avx2", "avx512"}} \ {1}
NStrata == UNION { (UNION { {k * V - 1, k * V, k * V + 1} : k \in 1..5 }) \cup {5 * V + (V + 1) \div 2, 6 * V, 6 * V + 1, 9 * V + 3} : V \in Widths }
MSeq == <<1, 2, 3, 4, 5, 6, 7, 8, 9, 10, 11, 12, 13, 19, 20, 21, 24, 25>>
KSeq == <<1, 2, 3, 7>>
NSeq == SetToSortSeq({n \in NStrata : n >= 1 /\ n <= 150}, LAMBDA a, b : a < b)

Hash(a, b, d, e) == (a * 31 + b * 17 + d * 7 + e * 13 + Seed) % 1000003

StrataShapes ==
    IF Dense = 1
    THEN { <<MSeq[mi], KSeq[ki], NSeq[ni]>> : mi \in 1..Len(MSeq), ki \in 1..Len(KSeq), ni \in 1..Len(NSeq) }
    ELSE { <<MSeq[((ni * 5 + r * 7 + Seed) % Len(MSeq)) + 1], KSeq[((ni + r + Seed) % Len(KSeq)) + 1], NSeq[ni]>> :
              ni \in 1..Len(NSeq), r \in 0..3 }
SpecialShapes == { <<m, k, m>> : m \in {2, 3, 4, 8}, k \in {1, 2, 3, 4, 5, 8, 9} }
BoxShapes == (1..Box) \X (1..Box) \X (1..Box)

Kinds(s) == {"mm"} \cup (IF s[3] = 1 THEN {"mv"} ELSE {}) \cup (IF s[1] = 1 THEN {"vm"} ELSE {})

BoxCases ==
    { [T |-> TypeSeq[ti], kind |-> kd, form |-> FormSeq[fi], M |-> s[1], K |-> s[2], N |-> s[3], stratum |-> "box"] :
        s \in BoxShapes, ti \in 1..Len(TypeSeq), fi \in 1..Len(FormSeq), kd \in {"mm", "mv", "vm"} }
\* complex  C += A % B  /  C -= A % B  is rejected by the compiler in every configuration (`beta == 0` on a
\* std::complex in _gemm): not offered by the library, hence outside the property's domain.
\* lazy vector % matrix trips the operand static_assert of the % expression in every configuration (eager matmul(v,B) is offered).
Offered(x) == ~(x.T \in {"c32", "c64"} /\ x.form \in {"t_add", "t_sub"}) /\ (x.kind = "vm" => x.form = "eager")
Keep(x, ti, fi) == Offered(x) /\ x.kind \in Kinds(<<x.M, x.K, x.N>>) /\ (Quota = 1 \/ Hash(x.M * 400 + x.K * 20 + x.N, ti, fi, 0) % Quota = 0)
TI(T) == CHOOSE i \in 1..Len(TypeSeq) : TypeSeq[i] = T
FI(f) == CHOOSE i \in 1..Len(FormSeq) : FormSeq[i] = f

StrataCases ==
    { [T |-> T, kind |-> "mm", form |-> f, M |-> s[1], K |-> s[2], N |-> s[3], stratum |-> "ladder"] :
        s \in StrataShapes \cup SpecialShapes, T \in {"f64", "f32", "i32", "i64"}, f \in {"eager", "t_add", "t_assign"} }
\* Dense = 1 (thorough): the full strata product, of which every shape is kept for two (type, form) combinations (rotating with the
\* shape) and one in ten of the others
StrataKeep(x) == LET h == Hash(x.M * 400 + x.K * 20 + x.N, TI(x.T), FI(x.form), 1) IN
                 IF Dense = 1 THEN h % 10 = 0 \/ (TI(x.T) * 3 + FI(x.form)) % 6 = (x.M + x.K + x.N) % 6
                 ELSE h % 3 = 0 \/ (x.form = "t_add" /\ x.T \in {"f64", "i32"})

Cases == { x \in BoxCases : Keep(x, TI(x.T), FI(x.form)) } \cup { x \in StrataCases : StrataKeep(x) }

Init == c \in Cases
Next == UNCHANGED c
Spec == Init /\ [][Next]_c

\* ---- L2 obligations evaluated in every state, for every ISA and both block-size settings of interest
TilingOK ==
    \A isa \in ISAs :
       LET V == BestSize(c.T, isa, c.N)
           rt == Route(c.T, isa, c.M, c.K, c.N)
       IN rt \in {"base", "base_masked"} =>
            \A blk \in {<<0, 0>>, <<1, 1>>, <<2, 3>>, <<3, 5>>, <<5, 4>>} :
               LET rt2 == RowTiles(c.M, V, blk[1])
                   ct2 == ColTiles(c.N, V, NumCols(c.M, c.N, V, blk[2]), rt = "base_masked")
               IN /\ RowsPartition(c.M, rt2) /\ RowsInside(c.M, rt2)
                  /\ ColsPartition(c.N, ct2) /\ ColsInside(c.N, ct2)
                  /\ (c.M * c.N <= 64 => LET tiles == BaseTiles(c.M, c.N, V, blk[1], blk[2], rt = "base_masked")
                                         IN TilesPartition(c.M, c.N, tiles) /\ TilesInside(c.M, c.N, tiles))

Routes == [isa \in ISAs |-> Route(c.T, isa, c.M, c.K, c.N)]
Emit == PrintT(<<"PLAN", ToJson([T |-> c.T, kind |-> c.kind, form |-> c.form, M |-> c.M, K |-> c.K, N |-> c.N,
                                  stratum |-> c.stratum, routes |-> Routes])>>)
=======================================================================================
