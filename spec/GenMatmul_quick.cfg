SPECIFICATION Spec
CONSTANTS Box = 5
 Dense = 0
 Quota = 6
INVARIANT TilingOK
INVARIANT Emit
CHECK_DEADLOCK FALSE
