SPECIFICATION Spec
CONSTANTS Box = 10
 Dense = 1
 Quota = 4
INVARIANT TilingOK
INVARIANT Emit
CHECK_DEADLOCK FALSE
