SPECIFICATION Spec
CONSTANTS Box = 7
 Dense = 1
 Quota = 3
INVARIANT TilingOK
INVARIANT Emit
CHECK_DEADLOCK FALSE
