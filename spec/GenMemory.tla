--------------------------------- MODULE GenMemory ---------------------------------
(* Plan generator for C07: one TLC state per (operation family, element type, size/shape, placement). *)
(* The misalignment (0..63 bytes) and the side (object flush against the guard page after it / before   *)
(* it) are run-time parameters of each compiled case: every compiled case is executed at every            *)
(* misalignment listed in `mis` on both sides.                                                            *)
EXTENDS Memory, SequencesExt
CONSTANTS Quota
VARIABLE c
Seed == atoi(IOEnv.VERIF_SEED)
Types == {"f64", "f32", "i32"}
VecOps == {"copy", "axpy", "scale_inplace", "sum", "inner", "sqnorm", "min", "max", "view_rev2", "view_write"}
Sizes == (1..20) \cup {31, 32, 33, 35}
VecCases == { [fam |-> "map", op |-> o, T |-> t, N |-> n] : o \in VecOps, t \in Types, n \in Sizes }
MatShapes == {<<m, k, n>> : m \in {1, 2, 3, 5, 8}, k \in {1, 2, 3, 4}, n \in {1, 2, 3, 5, 7, 8, 9, 13, 17}}
MatCases == { [fam |-> "own", op |-> "matmul", T |-> t, M |-> s[1], K |-> s[2], N |-> s[3]] : t \in Types, s \in MatShapes }
            \cup { [fam |-> "own", op |-> "transpose", T |-> t, M |-> s[1], K |-> 1, N |-> s[3]] : t \in {"f64", "f32"}, s \in MatShapes }
            \cup { [fam |-> "own", op |-> "matvec", T |-> t, M |-> s[1], K |-> s[3], N |-> 1] : t \in Types, s \in MatShapes }
IdxCases == { [fam |-> "idx", op |-> "index", T |-> "f64", shape |-> sh] : sh \in {<<7>>, <<3, 5>>, <<2, 3, 4>>} }
H(x) == LET n1 == IF "N" \in DOMAIN x THEN x.N ELSE 3
            m1 == IF "M" \in DOMAIN x THEN x.M ELSE 1
            k1 == IF "K" \in DOMAIN x THEN x.K ELSE 1
        IN (n1 * 31 + m1 * 17 + k1 * 7 + Len(x.op) * 13 + Len(x.T) + Seed) % 997
Cases == {x \in VecCases : H(x) % Quota = 0} \cup {x \in MatCases : H(x) % (Quota * 2) = 0} \cup IdxCases
Init == c \in Cases
Next == UNCHANGED c
Spec == Init /\ [][Next]_c
\* spec-level sanity on every case: the L1 value operators are total on a representative operand
ValueDefined == c.fam # "map" \/ (LET a == [i \in 1..c.N |-> ((i * 3) % 7) - 3] IN Len(Axpy(2, a, a)) = c.N /\ MinOf(a) <= MaxOf(a))
Emit == PrintT(<<"PLAN", ToJson(c)>>)
=====================================================================================
