SPECIFICATION Spec
CONSTANTS Quota = 3
INVARIANT ValueDefined
INVARIANT Emit
CHECK_DEADLOCK FALSE
