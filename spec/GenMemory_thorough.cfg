SPECIFICATION Spec
CONSTANTS Quota = 1
INVARIANT ValueDefined
INVARIANT Emit
CHECK_DEADLOCK FALSE
