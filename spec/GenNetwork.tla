---------------------------------- MODULE GenNetwork ----------------------------------
(* Plan generator for C15: one TLC state per operand network (3 or 4 operands, ranks <= MaxRank,     *)
(* labels 1..5/6, no label more than twice, at least one contraction, result rank >= 0) with an extent  *)
(* assignment and an element type.  Extents are either uniform (so that a wrongly ordered result still     *)
(* has the declared static type) or distinct per label (so that a wrong order changes the extents).       *)
(* Invariants: the network is well formed for Einsum.tla and its L1 result shape is the shape of the      *)
(* declared free labels.                                                                                 *)
EXTENDS NetworkOrder
CONSTANTS MaxRank, Quota, Quota4, Quota4R
VARIABLE c
Seed == atoi(IOEnv.VERIF_SEED)
Labs == 1..5
ListsR == {<<a>> : a \in Labs} \cup {p \in {<<a, b>> : a \in Labs, b \in Labs} : p[1] # p[2]}
          \cup (IF MaxRank >= 3 THEN {p \in {<<a, b, d>> : a \in Labs, b \in Labs, d \in Labs} : p[1] # p[2] /\ p[2] # p[3] /\ p[1] # p[3]} ELSE {})
Cat(ls) == FoldLeft(LAMBDA acc, x : acc \o x, <<>>, ls)
OKNet(ls) == LET L == Cat(ls) IN /\ \A p \in DOMAIN L : Occ(L, L[p]) <= 2
                                 /\ \E p \in DOMAIN L : Occ(L, L[p]) = 2
                                 \* (a network with no free label is a full contraction: the result is a rank-0 tensor)
                                 \* canonical: labels are introduced in increasing order (1 first, then 2, ...)
                                 /\ \A p \in DOMAIN L : \A x \in 1..(L[p] - 1) : \E q \in 1..(p - 1) : L[q] = x
                                 \* no pair of operands contracts to a scalar: a rank-0 intermediate does not compile in any configuration
                                 \* (match_indices_from_end on a zero-length index array) -- not offered
                                 /\ \A a, b \in 1..Len(ls) : a < b => FreeOfLists(<<ls[a], ls[b]>>) # <<>>
HL(ls) == LET L == Cat(ls) IN FoldLeftDomain(LAMBDA acc, p : (acc * 7 + L[p] * (p + 3)) % 9973, Len(ls), L)
Nets3 == {ls \in ListsR \X ListsR \X ListsR : OKNet(ls)}
Lists2 == {<<a>> : a \in Labs} \cup {p \in {<<a, b>> : a \in Labs, b \in Labs} : p[1] # p[2]}
\* 4 operands: additionally no triple may contract to a scalar (same zero-length-index compile error one level down)
NoScalarTriple(ls) == \A a, b, d \in 1..4 : (a < b /\ b < d) => FreeOfLists(<<ls[a], ls[b], ls[d]>>) # <<>>
Nets4 == {ls \in Lists2 \X Lists2 \X Lists2 \X Lists2 : OKNet(ls) /\ NoScalarTriple(ls) /\ (HL(ls) + Seed) % Quota4 = 0}
\* 4 operands with a rank-3 first operand (the smallest networks in which two contraction orders of a triplet can tie while both of its
\* first two operands keep a free index: the cost model's tie-breaking then decides the labelling of the intermediate)
Nets4R == {ls \in {<<1, 2, 3>>} \X Lists2 \X Lists2 \X Lists2 : OKNet(<<ls[1], ls[2], ls[3], ls[4]>>) /\ NoScalarTriple(<<ls[1], ls[2], ls[3], ls[4]>>)
                                                                  /\ Len(FreeOfLists(<<ls[1], ls[2], ls[3], ls[4]>>)) <= 5     \* the judge enumerates arrangements of the free labels
                                                                  /\ (HL(<<ls[1], ls[2], ls[3], ls[4]>>) + Seed) % Quota4R = 0}
\* three-legged stars on six labels, every orientation of the legs (always included)
Leg(x, y, o) == IF o = 0 THEN <<x, y>> ELSE <<y, x>>
Stars == {<<<<1, 2, 3>>, Leg(1, 4, o[1]), Leg(2, 5, o[2]), Leg(3, 6, o[3])>> : o \in [1..3 -> {0, 1}]}
\* five operands (extractor_contract_5): a few topologies -- chain, the branch-selecting example of the library's documentation style
\* (vector, two matrices, a matrix that only carries free labels, a rank-3 closing operand), star with a tail, ring (rank-0 result),
\* interleaved chain, a rank-3 closing operand
Nets5 == { <<<<1, 2>>, <<2, 3>>, <<3, 4>>, <<4, 5>>, <<5, 6>>>>, <<<<1>>, <<1, 2>>, <<2, 3>>, <<4, 5>>, <<3, 4, 6>>>>,
           <<<<1, 2, 3>>, <<1, 4>>, <<2, 5>>, <<3, 6>>, <<6, 7>>>>, <<<<1, 2>>, <<2, 3>>, <<3, 4>>, <<4, 5>>, <<5, 1>>>>,
           <<<<1, 2>>, <<3, 4>>, <<2, 3>>, <<4, 5>>, <<5, 6>>>>, <<<<1, 2>>, <<2, 3>>, <<1, 4>>, <<3, 5>>, <<4, 5, 6>>>> }
ExtOf(mode, x) == CASE mode = "u2" -> 2 [] mode = "u3" -> 3 [] mode = "d" -> <<2, 3, 4, 2, 3>>[x] [] mode = "e" -> <<3, 2, 2, 4, 3>>[x]
Mk(ls, mode, t) == [labels |-> ls, shapes |-> [o \in 1..Len(ls) |-> [a \in 1..Len(ls[o]) |-> ExtOf(mode, ls[o][a])]], mode |-> mode, T |-> t]
Cases == { Mk(ls, m, t) : ls \in {n \in Nets3 : (HL(n) + Seed) % Quota = 0}, m \in {"u2", "u3", "d", "e"}, t \in {"f64", "i32"} }
         \* 4 operands with uniform extents only: with distinct extents some networks are rejected at compile time by the library's own
         \* "dimension mismatch" check on an intermediate whose free labels come out in pairing order (the compile-time face of finding D8)
         \cup { Mk(ls, "u2", "f64") : ls \in Nets4 }
         \cup { Mk(<<ls[1], ls[2], ls[3], ls[4]>>, m, "f64") : ls \in Nets4R, m \in {"u2", "u3"} }
         \cup { Mk(ls, m, "f64") : ls \in Stars, m \in {"u2", "u3"} }
         \cup { Mk(ls, m, "f64") : ls \in Nets5, m \in {"u2", "u3"} }
Keep(x) == x.T = "f64" \/ (HL(x.labels) + Len(x.mode)) % 3 = 0
Init == c \in {x \in Cases : Keep(x)}
Next == UNCHANGED c
Spec == Init /\ [][Next]_c

Ops == [o \in 1..Len(c.labels) |-> [labels |-> c.labels[o], shape |-> c.shapes[o], vals |-> [q \in 1..Prod(c.shapes[o]) |-> 1]]]
WellFormedOK == WellFormed(Ops)
ShapeOK == EinsteinShape(Ops) = ExtentsFor(Ops, FreeLabels(Ops))
SmallOK == Prod(EinsteinShape(Ops)) <= 1024
Emit == PrintT(<<"PLAN", ToJson(c)>>)
=======================================================================================
