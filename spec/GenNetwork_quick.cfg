SPECIFICATION Spec
CONSTANTS MaxRank = 2
 Quota = 3
 Quota4R = 100
 Quota4 = 40
INVARIANT WellFormedOK
INVARIANT ShapeOK
INVARIANT SmallOK
INVARIANT Emit
CHECK_DEADLOCK FALSE
