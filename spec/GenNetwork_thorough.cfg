SPECIFICATION Spec
CONSTANTS MaxRank = 3
 Quota = 2
 Quota4R = 12
 Quota4 = 6
INVARIANT WellFormedOK
INVARIANT ShapeOK
INVARIANT SmallOK
INVARIANT Emit
CHECK_DEADLOCK FALSE
