SPECIFICATION Spec
CONSTANTS MaxRank = 3
 Quota = 14
 Quota4R = 24
 Quota4 = 12
INVARIANT WellFormedOK
INVARIANT ShapeOK
INVARIANT SmallOK
INVARIANT Emit
CHECK_DEADLOCK FALSE
