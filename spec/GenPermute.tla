--------------------------------- MODULE GenPermute ---------------------------------
(* Plan generator for C14 and exhaustive check of the L1 permutation algebra on the enumerated      *)
(* cases: every state is one (fn, perm, shape); invariants: Permuted by p then by p^-1 is the         *)
(* identity (PermInverse at spec level), the result shape is a rearrangement of the input shape.      *)
EXTENDS Permute, SequencesExt
CONSTANTS MaxRank, TBox, Sample
VARIABLE c
Seed == atoi(IOEnv.VERIF_SEED)

Perms(k) == {p \in [1..k -> 1..k] : IsPerm(p)}
\* pairwise distinct extents, containing a multiple and a non-multiple of the common vector widths (4, 8); small products
ShapesOf(k) == CASE k = 2 -> {<<3, 8>>, <<5, 4>>, <<9, 2>>}
                 [] k = 3 -> {<<2, 3, 4>>, <<4, 2, 5>>, <<3, 8, 2>>}
                 [] k = 4 -> {<<2, 3, 4, 5>>, <<4, 2, 3, 8>>}
                 [] k = 5 -> {<<2, 3, 4, 2, 5>>}
                 [] k = 6 -> {<<2, 3, 2, 4, 2, 3>>}
Hash(p, s) == (p[1] * 31 + p[Len(p)] * 17 + s[1] * 7 + Len(p) * 13 + Seed) % 1009
PermCases == { [fn |-> f, perm |-> p, shape |-> s, arg |-> a, T |-> t] :
                 f \in {"permute", "permutation"}, a \in {"tensor", "expr"}, t \in {"f64", "i32", "f32", "c64"},
                 p \in UNION {Perms(k) : k \in 2..MaxRank}, s \in UNION {ShapesOf(k) : k \in 2..MaxRank} }
KeepP(x) == Len(x.perm) = Len(x.shape)
            /\ (x.T = "f64" \/ Hash(x.perm, x.shape) % 4 = 0)
            /\ (x.arg = "tensor" \/ Hash(x.perm, x.shape) % 3 = 1)
            /\ (Len(x.perm) <= 3 \/ Sample = 1 \/ Hash(x.perm, x.shape) % Sample = 0)
TSizes == (1..TBox) \cup {16, 17, 31, 32, 33}
TransCases == { [fn |-> f, perm |-> <<2, 1>>, shape |-> <<m, n>>, arg |-> a, T |-> t] :
                 f \in {"transpose", "trans", "ctrans"}, a \in {"tensor", "expr"}, t \in {"f64", "f32", "c64", "i32"}, m \in TSizes, n \in TSizes }
KeepT(x) == /\ (x.fn = "ctrans" => x.T = "c64")     \* ctrans of a real tensor does not compile in any configuration (conj(double)): not offered
            /\ (x.T \in {"f64", "f32"} \/ (x.shape[1] * 7 + x.shape[2] * 3 + Seed) % 5 = 0)
            /\ (x.arg = "tensor" \/ (x.shape[1] + x.shape[2] * 5 + Seed) % 7 = 0)
            /\ (x.fn = "transpose" \/ (x.shape[1] * 3 + x.shape[2] + Seed) % 3 = 0)
            /\ (Sample = 1 \/ (x.shape[1] <= 9 /\ x.shape[2] <= 9) \/ (x.shape[1] * 11 + x.shape[2] * 5 + Seed) % 4 = 0)
Cases == {x \in PermCases : KeepP(x)} \cup {x \in TransCases : KeepT(x)}

Init == c \in Cases
Next == UNCHANGED c
Spec == Init /\ [][Next]_c

PosData(n) == [q \in 1..n |-> q]
PermInverseL1 == Prod(c.shape) > 400 \/
                 Permuted(Permuted(PosData(Prod(c.shape)), c.shape, c.perm), PermShape(c.shape, c.perm), InvPerm(c.perm)) = PosData(Prod(c.shape))
ShapeIsRearranged == Prod(PermShape(c.shape, c.perm)) = Prod(c.shape)
Emit == PrintT(<<"PLAN", ToJson(c)>>)
=====================================================================================
