SPECIFICATION Spec
CONSTANTS MaxRank = 4
 TBox = 9
 Sample = 3
INVARIANT PermInverseL1
INVARIANT ShapeIsRearranged
INVARIANT Emit
CHECK_DEADLOCK FALSE
