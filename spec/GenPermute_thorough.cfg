SPECIFICATION Spec
CONSTANTS MaxRank = 5
 TBox = 20
 Sample = 1
INVARIANT PermInverseL1
INVARIANT ShapeIsRearranged
INVARIANT Emit
CHECK_DEADLOCK FALSE
