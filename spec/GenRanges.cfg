SPECIFICATION Spec
CONSTANTS NMax = 10
 MaxStep = 3
INVARIANT InBounds
INVARIANT Increasing
INVARIANT NonEmpty
INVARIANT CeilExtent
INVARIANT Emit
CHECK_DEADLOCK FALSE
