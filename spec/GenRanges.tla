---------------------------------- MODULE GenRanges ----------------------------------
(* Exhaustive enumeration of the admissible range encodings of one axis (C04 / C05 thorough tier):  *)
(* one TLC state per (extent n, range record).  For every n in 1..NMax:                                *)
(*   seq / fseq with first, last in every admissible encoding (positive, last-relative last,           *)
(*   both negative) and step 1..MaxStep; iseq (non-negative only); all; every bare integer / fix<i>     *)
(*   including -1.  The invariants restate, on every enumerated range, the L1 facts the judge relies    *)
(*   on: the selected indices are in bounds, strictly increasing by `step`, and their number is          *)
(*   ceil((last-first)/step).                                                                           *)
EXTENDS TensorMachine
CONSTANTS NMax, MaxStep
VARIABLES n, r

Kinds3 == {"seq", "fseq"}
Cand(nn) ==
    { [k |-> kd, f |-> f, l |-> l, s |-> s] : kd \in Kinds3, f \in (0 - nn - 1)..(nn - 1), l \in ((0 - nn - 1)..nn) \ {0}, s \in 1..MaxStep }
    \cup { [k |-> "iseq", f |-> f, l |-> l, s |-> s] : f \in 0..(nn - 1), l \in 1..nn, s \in 1..MaxStep }
    \cup { [k |-> "all"] }
    \cup { [k |-> kd, i |-> i] : kd \in {"int", "fix"}, i \in -1..(nn - 1) }
Init == n \in 1..NMax /\ r \in {x \in Cand(n) : Admissible(x, n)}
Next == UNCHANGED <<n, r>>
Spec == Init /\ [][Next]_<<n, r>>

Ax == AxisIdx(r, n)
InBounds == \A j \in 1..Len(Ax) : Ax[j] >= 0 /\ Ax[j] < n
Increasing == \A j \in 1..(Len(Ax) - 1) : Ax[j + 1] = Ax[j] + Step(r)
NonEmpty == Len(Ax) >= 1
CeilExtent == LET d == RLast(r, n) - RFirst(r, n) IN (Extent(r, n) - 1) * Step(r) < d /\ d <= Extent(r, n) * Step(r)
Emit == PrintT(<<"PLAN", ToJson([n |-> n, r |-> r])>>)
=====================================================================================
