--------------------------------- MODULE GenReduce ---------------------------------
(* Plan generator for C16 and model check of the L1 fold semantics on every generated case.        *)
(* Every TLC state is one case: a function (fn), an element type, an argument kind, a shape, a     *)
(* sign pattern and the concrete integer data (so the data are part of the checked state space,   *)
(* not a by-product of the harness).  Invariants evaluated in every state:                         *)
(*   ExactPre       the exactness preconditions that make "exact equality" a sound judgement        *)
(*   PatternHolds   the data realise the sign / truth pattern the case is named after               *)
(*   FoldTheorems   FoldMin/FoldMax satisfy Min/MaxContract, NoneOf = ~AnyOf, the predicates have   *)
(*                  the truth value the construction intends                                        *)
(*   DetTheorems    Bareiss = Laplace (n <= 5), det A^T = det A, row exchange flips the sign,       *)
(*                  dominant matrices are regular, the logging scale fits 32 bits                   *)
(* Families (field fam):  fold | pred | iseq | issym | isorth | trace | inner | det                 *)
EXTENDS Reduce, FiniteSets

CONSTANTS NMax,       \* rank-1 sizes 1..NMax
          Rate,       \* small families (trace, issym, isorth, det): keep 1 of Rate of the headers outside the canonical strata
          AllPos,     \* TRUE: the single extreme element visits every position (else the vector-width boundary set)
          DetMax,     \* determinant sizes 1..DetMax
          Draws,      \* data draws per determinant header
          Lean,       \* TRUE: thin out the strata that repeat a code path for a second pair of element types (quick tier)
          PosPer,     \* boundary positions of the single extreme element per (fn, T, shape) when ~AllPos
          Extra, PredExtra, IseqExtra      \* numbers of hashed extra headers of the fold / pred / iseq families
VARIABLE c
Seed == atoi(IOEnv.VERIF_SEED)

-----------------------------------------------------------------------------------------
(* hashing (all intermediate values < 2^31):  P prime < 2^15, Mix squares its first argument *)
P == 32749
Mix(a, b) == ((((a % P) * (a % P)) % P) * 31 + (b % P) * 251 + 97) % P
Rnd(key, i, lo, hi) == lo + (Mix(Mix(key + 7 * i, i), key + 3) % (hi - lo + 1))
Idx(s, v) == CHOOSE i \in 1..Len(s) : s[i] = v
NEl(s) == FoldProduct(s)
Pick(s, h) == s[(h % Len(s)) + 1]

TypeSeq == <<"f64", "f32", "i32", "i64">>
Types == {"f64", "f32", "i32", "i64"}
FTypes == {"f64", "f32"}
FnSeq == <<"sum", "product", "min", "max", "norm", "inner", "inner1", "trace", "trace_b", "all_of", "any_of", "none_of",
           "isequal", "issymmetric", "isorthogonal", "determinant", "det", "det_b">>
SignSeq == <<"pos", "neg", "mixed", "xmin", "xmax", "psq", "alltrue", "allfalse", "onetrue", "onefalse",
             "equal", "diff", "sym", "asym", "nonsq", "identity", "sperm", "near", "scaled", "gen", "dom", "swaplast">>
ArgSeq == <<"tensor", "expr", "view", "fview", "member", "tt", "te", "et", "ee", "cmp_s", "cmp_es", "cmp_tt", "bool">>
OpSeq == <<"gt", "lt", "ge", "le", "eq", "ne">>
TI(t) == IF t = "b" THEN 5 ELSE Idx(TypeSeq, t)

\* the uniform case record
Case(fam, fn, T, arg, shape, sign, pos, op, strat, ls, thr, A, B, C, D) ==
    [fam |-> fam, fn |-> fn, T |-> T, arg |-> arg, shape |-> shape, sign |-> sign, pos |-> pos, op |-> op, strat |-> strat,
     ls |-> ls, thr |-> thr, A |-> A, B |-> B, C |-> C, D |-> D]
\* key of a header: everything discrete
HKey(fn, T, arg, shape, sign, pos, x) ==
    Mix(Mix(Mix(Mix(Mix((Seed % P) + Idx(FnSeq, fn), TI(T) * 11 + Idx(ArgSeq, arg)), NEl(shape) * 5 + Len(shape)), Idx(SignSeq, sign) * 67 + pos), x), shape[1])
\* key that ignores the position (to pick exactly one position per canonical case)
HKey0(fn, T, arg, shape, sign) == HKey(fn, T, arg, shape, sign, 0, 0)

Shapes1 == {<<n>> : n \in 1..NMax}
ShapesK == {<<3, 4>>, <<5, 7>>, <<2, 3, 5>>, <<4, 4, 4>>}
\* positions of the single extreme element: first, last, and both sides of every vector-width boundary
\* (widths 2, 4, 8, 16: the last lane of the first vector, the first lane of the second, the last full vector, the scalar tail)
PosSeq(n) == SelectSeq(<<1, n, 2, 3, 4, 5, 8, 9, 16, 17, 32, 33, n - 1, (n \div 2) * 2, (n \div 4) * 4, (n \div 4) * 4 + 1,
                         (n \div 8) * 8, (n \div 8) * 8 + 1, (n \div 16) * 16, (n \div 16) * 16 + 1>>, LAMBDA p : p >= 1 /\ p <= n)

-----------------------------------------------------------------------------------------
(* family fold:  sum product min max norm  on  tensor | a+b | view *)
FoldFns == {"sum", "product", "min", "max", "norm"}
FoldArgs == <<"tensor", "expr", "view", "fview", "member">>      \* member: the Tensor methods A.sum() / A.product() (TensorMethods.h)
MemberOK(f, a) == IF a = "member" /\ f \notin {"sum", "product"} THEN "tensor" ELSE a
FoldSigns == <<"pos", "neg", "mixed", "xmin", "xmax">>
FoldFnSeq == <<"sum", "product", "min", "max", "norm">>
ShapeSeq == [i \in 1..NMax |-> <<i>>] \o <<<<3, 4>>, <<5, 7>>, <<2, 3, 5>>, <<4, 4, 4>>>>
FoldH(f, t, a, s, g, p) == [fn |-> f, T |-> t, arg |-> a, shape |-> s, sign |-> g, pos |-> p]
\* the headers are CONSTRUCTED stratum by stratum (enumerating the full product and filtering by hash is too slow):
FoldHeaders(u) ==
    \* (a) identity-element strata: min / max of all-positive and all-negative tensors, every (T, shape)
    \* (min of positive and max of negative data expose a seed that is not neutral: all T; the two harmless combinations: f64, i32 when Lean)
    { h \in { FoldH(f, t, "tensor", s, g, 0) : f \in {"min", "max"}, t \in Types, s \in Shapes1 \cup ShapesK, g \in {"pos", "neg"} } :
         Lean => (h.fn = "min") = (h.sign = "pos") \/ h.T \in {"f64", "i32"} }
    \* (b) rotation: every (fn, T, shape) with a sign pattern, an argument kind and (for a single extreme) a boundary position
    \cup { LET n == NEl(s)   fi == Idx(FnSeq, f)
               g == Pick(FoldSigns, n + TI(t) + fi)
               a == MemberOK(f, Pick(FoldArgs, n + fi))
               p == IF g \in {"xmin", "xmax"} THEN Pick(PosSeq(n), HKey0(f, t, a, s, g)) ELSE 0
           IN FoldH(f, t, a, s, g, p) : f \in FoldFns, t \in Types, s \in Shapes1 \cup ShapesK }
    \* (c) the single extreme element of min / max: every position (thorough) or PosPer boundary positions (quick)
    \cup UNION { { FoldH(f, t, "tensor", s, IF f = "min" THEN "xmin" ELSE "xmax", p) :
                      p \in IF AllPos THEN 1..NEl(s) ELSE {Pick(PosSeq(NEl(s)), HKey0(f, t, "tensor", s, "xmin") + j) : j \in 1..PosPer} }
                 : f \in {"min", "max"}, t \in (IF AllPos THEN Types ELSE {"f64", "i32"}), s \in Shapes1 \cup ShapesK }
    \* (d) norms that are exact integers
    \cup { FoldH("norm", "f64", a, s, "psq", 0) : a \in {"tensor", "expr"}, s \in Shapes1 \cup ShapesK }
    \* (e) Extra hashed headers over the whole product
    \cup { LET k == Mix((Seed % P) + 1000, j)
               f == Pick(FoldFnSeq, k)   t == Pick(TypeSeq, Mix(k, 1))   a == MemberOK(f, Pick(FoldArgs, Mix(k, 2)))
               s == Pick(ShapeSeq, Mix(k, 3))   g == Pick(FoldSigns, Mix(k, 4))   n == NEl(s)
               p == IF g \in {"xmin", "xmax"} THEN (IF AllPos THEN 1 + (Mix(k, 5) % n) ELSE Pick(PosSeq(n), Mix(k, 5))) ELSE 0
           IN FoldH(f, t, a, s, g, p) : j \in 1..Extra }
FoldOffered(h) ==
    /\ (h.fn = "norm" => h.T \in FTypes)          \* norm of an integer tensor takes an integer square root (truncates): not a fold of the property
    /\ (h.arg \in {"view", "fview"} => Len(h.shape) = 1)     \* views: contiguous window of a longer rank-1 parent
    /\ (h.arg = "member" => h.fn \in {"sum", "product"})
FoldBuild(h) ==
    LET n == NEl(h.shape)
        key == HKey(h.fn, h.T, h.arg, h.shape, h.sign, h.pos, 2)
        m == IF n <= 35 THEN 6 ELSE 4
        g == h.sign
        Base(i) ==
            CASE h.fn = "product" ->
                    LET mag == IF i % 3 = 1 THEN 2 ELSE 1
                        sg == CASE g = "pos" -> 1 [] g = "neg" -> 0 - 1 [] OTHER -> 2 * Rnd(key, i, 0, 1) - 1
                    IN sg * mag
              [] h.fn = "norm" ->
                    (CASE g = "pos" -> Rnd(key, i, 1, m) [] g = "neg" -> 0 - Rnd(key, i, 1, m) [] OTHER -> Rnd(key, i, 0 - m, m))
              [] OTHER ->
                    (CASE g = "pos" -> Rnd(key, i, 1, 9) [] g = "neg" -> 0 - Rnd(key, i, 1, 9) [] OTHER -> Rnd(key, i, 0 - 9, 9))
        Ext == CASE h.fn = "product" -> 7 [] h.fn = "norm" -> 20 [] OTHER -> 1000
        V0 == [i \in 1..n |-> IF i = h.pos THEN (IF g = "xmin" THEN 0 - Ext ELSE Ext) ELSE Base(i)]
        \* psq: the first element completes the sum of squares to a perfect square (when one exists below the bound)
        rest == SumSq([i \in 1..(n - 1) |-> V0[i + 1]])
        fits == {x \in 1..40 : rest + x * x <= NormSMax /\ IsSquare(rest + x * x)}
        V == IF g = "psq" /\ fits # {} THEN [i \in 1..n |-> IF i = 1 THEN CHOOSE x \in fits : \A y \in fits : x <= y ELSE V0[i]] ELSE V0
        Bv == [i \in 1..n |-> Rnd(key + 1, i, 0 - 5, 5)]
    IN IF h.arg = "expr"
       THEN Case("fold", h.fn, h.T, h.arg, h.shape, g, h.pos, "", "", 0, 0, [i \in 1..n |-> V[i] - Bv[i]], Bv, <<>>, <<>>)
       ELSE Case("fold", h.fn, h.T, h.arg, h.shape, g, h.pos, "", "", 0, 0, V, <<>>, <<>>, <<>>)
FoldValue(x) == IF x.B = <<>> THEN x.A ELSE Plus(x.A, x.B)
FoldCases(u) == { x \in { FoldBuild(h) : h \in {h \in FoldHeaders(0) : FoldOffered(h)} } :
                  x.sign = "psq" => IsSquare(SumSq(FoldValue(x))) }        \* drop psq headers for which no completing element exists

-----------------------------------------------------------------------------------------
(* family pred:  all_of any_of none_of  on  x op scalar | (a+b) op scalar | x op y | Tensor<bool> *)
PredSigns == <<"alltrue", "allfalse", "onetrue", "onefalse", "mixed">>
PredArgs == <<"cmp_s", "cmp_es", "cmp_tt", "bool">>
\* Tensor<bool,...> argument: T = "b", the boolean input is  A # 0
PredFnSeq == <<"all_of", "any_of", "none_of">>
PredShapeSeq == [i \in 1..NMax |-> <<i>>] \o <<<<3, 4>>, <<2, 3, 5>>>>
PredH(f, t, a, s, g, p, o) == [fn |-> f, T |-> (IF a = "bool" THEN "b" ELSE t), arg |-> a, shape |-> s, sign |-> g, pos |-> p, op |-> (IF a = "bool" THEN "ne" ELSE o)]
PredP(g, n, k) == IF g \in {"onetrue", "onefalse"} THEN (IF AllPos THEN 1 + (k % n) ELSE Pick(PosSeq(n), k)) ELSE 0
PredHeaders(u) ==
    \* rotation: every (fn, shape)
    { LET n == NEl(s)   fi == Idx(FnSeq, f)   g == Pick(PredSigns, n + fi)   a == Pick(PredArgs, n + fi)
      IN PredH(f, Pick(TypeSeq, n + 2 * fi), a, s, g, PredP(g, n, HKey0(f, "f64", a, s, g)), Pick(OpSeq, n + fi)) :
         f \in {"all_of", "any_of", "none_of"}, s \in Shapes1 \cup {<<3, 4>>, <<2, 3, 5>>} }
    \* the two constant inputs (where none_of / all_of / any_of differ most): every (fn, shape)
    \cup { PredH(f, Pick(TypeSeq, NEl(s)), "cmp_s", s, g, 0, "gt") :
              f \in {"all_of", "any_of", "none_of"}, s \in Shapes1 \cup {<<3, 4>>, <<2, 3, 5>>}, g \in {"alltrue", "allfalse"} }
    \* hashed headers over the whole product
    \cup { LET k == Mix((Seed % P) + 2000, j)
               f == Pick(PredFnSeq, k)   a == Pick(PredArgs, Mix(k, 2))   s == Pick(PredShapeSeq, Mix(k, 3))   g == Pick(PredSigns, Mix(k, 4))
           IN PredH(f, Pick(TypeSeq, Mix(k, 1)), a, s, g, PredP(g, NEl(s), Mix(k, 5)), Pick(OpSeq, Mix(k, 6))) : j \in 1..PredExtra }
PredBuild(h) ==
    LET n == NEl(h.shape)
        key == HKey(h.fn, h.T, h.arg, h.shape, h.sign, h.pos, 3 + Idx(OpSeq, h.op))
        g == h.sign
        want == [i \in 1..n |-> CASE g = "alltrue" -> TRUE [] g = "allfalse" -> FALSE [] g = "onetrue" -> i = h.pos
                                  [] g = "onefalse" -> i # h.pos [] OTHER -> Rnd(key, i, 0, 1) = 1]
        thr == IF h.arg = "bool" THEN 0 ELSE Rnd(key, 0, 0 - 3, 3)
        Y == [i \in 1..n |-> IF h.arg = "cmp_tt" THEN Rnd(key + 2, i, 0 - 3, 3) ELSE thr]
        \* realise want[i] under (op, Y[i]); r = 0 puts the element ON the boundary of the comparison
        X == [i \in 1..n |->
                LET r == Rnd(key + 5, i, 0, 3)   y == Y[i]   w == want[i]
                    s2 == 2 * Rnd(key + 9, i, 0, 1) - 1
                IN IF h.arg = "bool" THEN (IF w THEN 1 ELSE 0)
                   ELSE CASE h.op = "gt" -> IF w THEN y + 1 + r ELSE y - r
                          [] h.op = "lt" -> IF w THEN y - 1 - r ELSE y + r
                          [] h.op = "ge" -> IF w THEN y + r ELSE y - 1 - r
                          [] h.op = "le" -> IF w THEN y - r ELSE y + 1 + r
                          [] h.op = "eq" -> IF w THEN y ELSE y + s2 * (1 + r)
                          [] h.op = "ne" -> IF w THEN y + s2 * (1 + r) ELSE y]
        Bv == [i \in 1..n |-> Rnd(key + 1, i, 0 - 5, 5)]
        Cv == IF h.arg = "cmp_tt" THEN Y ELSE <<>>
    IN IF h.arg = "cmp_es"
       THEN Case("pred", h.fn, h.T, h.arg, h.shape, g, h.pos, h.op, "", 0, thr, [i \in 1..n |-> X[i] - Bv[i]], Bv, Cv, <<>>)
       ELSE Case("pred", h.fn, h.T, h.arg, h.shape, g, h.pos, h.op, "", 0, thr, X, <<>>, Cv, <<>>)
PredCases(u) == { PredBuild(h) : h \in PredHeaders(0) }

-----------------------------------------------------------------------------------------
(* families iseq / inner:  two operands, each a tensor or a lazy sum *)
BinArgs == <<"tt", "te", "et", "ee">>
BinOperands(arg, X, Y, key, n) ==      \* -> <<A, B, C, D>>: first operand = A (+ B), second = C (+ D)
    LET Bv == [i \in 1..n |-> Rnd(key + 11, i, 0 - 5, 5)]
        Dv == [i \in 1..n |-> Rnd(key + 13, i, 0 - 5, 5)]
        e1 == arg \in {"et", "ee"}
        e2 == arg \in {"te", "ee"}
    IN << IF e1 THEN [i \in 1..n |-> X[i] - Bv[i]] ELSE X, IF e1 THEN Bv ELSE <<>>,
          IF e2 THEN [i \in 1..n |-> Y[i] - Dv[i]] ELSE Y, IF e2 THEN Dv ELSE <<>> >>
IseqH(t, a, s, g, p) == [fn |-> "isequal", T |-> t, arg |-> a, shape |-> s, sign |-> g, pos |-> p]
IseqHeaders(u) ==
    \* rotation: every shape with both truth values
    { LET n == NEl(s)   a == Pick(BinArgs, n)   t == Pick(TypeSeq, n \div 2)
      IN IseqH(t, a, s, g, IF g = "diff" THEN Pick(PosSeq(n), HKey0("isequal", t, a, s, g)) ELSE 0) :
         s \in Shapes1 \cup {<<3, 4>>, <<2, 3, 5>>}, g \in {"equal", "diff"} }
    \cup { LET k == Mix((Seed % P) + 3000, j)
               s == Pick(PredShapeSeq, Mix(k, 3))   g == Pick(<<"equal", "diff", "diff">>, Mix(k, 4))   n == NEl(s)
           IN IseqH(Pick(TypeSeq, Mix(k, 1)), Pick(BinArgs, Mix(k, 2)), s, g,
                    IF g = "diff" THEN (IF AllPos THEN 1 + (Mix(k, 5) % n) ELSE Pick(PosSeq(n), Mix(k, 5))) ELSE 0) : j \in 1..IseqExtra }
IseqBuild(h) ==
    LET n == NEl(h.shape)
        key == HKey(h.fn, h.T, h.arg, h.shape, h.sign, h.pos, 5)
        X == [i \in 1..n |-> Rnd(key, i, 0 - 9, 9)]
        Y == [i \in 1..n |-> IF i = h.pos THEN X[i] + 2 * Rnd(key, 77, 0, 1) - 1 ELSE X[i]]       \* near miss: one element off by one
        o == BinOperands(h.arg, X, Y, key, n)
    IN Case("iseq", h.fn, h.T, h.arg, h.shape, h.sign, h.pos, "", "", 0, 0, o[1], o[2], o[3], o[4])
IseqCases(u) == { IseqBuild(h) : h \in IseqHeaders(0) }

InnerHeaders(u) ==
    { [fn |-> "inner", T |-> t, arg |-> a, shape |-> s, sign |-> g, pos |-> 0] :
         t \in Types, a \in {"tt", "te", "et", "ee"}, g \in {"pos", "neg", "mixed"}, s \in Shapes1 \cup ShapesK }
InnerKeep(h) ==
    LET n == NEl(h.shape)
        k == HKey(h.fn, h.T, h.arg, h.shape, h.sign, h.pos, 6)
    IN \/ (h.arg = "tt" /\ h.sign = Pick(<<"pos", "neg", "mixed">>, n + TI(h.T)))                       \* every (T, n)
       \/ (h.arg = Pick(BinArgs, n + TI(h.T)) /\ h.sign = "mixed" /\ (Lean => h.T \in {"f64", "i32"}))
       \/ k % (2 * Rate) = 0
InnerBuild(h) ==
    LET n == NEl(h.shape)
        key == HKey(h.fn, h.T, h.arg, h.shape, h.sign, h.pos, 7)
        g == h.sign
        X == [i \in 1..n |-> CASE g = "pos" -> Rnd(key, i, 1, 9) [] g = "neg" -> 0 - Rnd(key, i, 1, 9) [] OTHER -> Rnd(key, i, 0 - 9, 9)]
        Y == [i \in 1..n |-> IF g = "mixed" THEN Rnd(key + 3, i, 0 - 9, 9) ELSE Rnd(key + 3, i, 1, 9)]
        o == BinOperands(h.arg, X, Y, key, n)
    IN Case("inner", h.fn, h.T, h.arg, h.shape, g, 0, "", "", 0, 0, o[1], o[2], o[3], o[4])
InnerCases(u) == { InnerBuild(h) : h \in {h \in InnerHeaders(0) : InnerKeep(h)} }

-----------------------------------------------------------------------------------------
(* family trace:  trace (n x n), trace of a batch <<b, n, n>>, inner(a) of a uniform rank-k tensor *)
TraceShapes == {<<n, n>> : n \in 1..12}
BatchShapes == {<<2, 2, 2>>, <<3, 2, 2>>, <<2, 3, 3>>, <<3, 4, 4>>}
Inner1Shapes == {<<1>>, <<5>>, <<9>>, <<1, 1>>, <<2, 2>>, <<3, 3>>, <<4, 4>>, <<5, 5>>, <<2, 2, 2>>, <<3, 3, 3>>, <<2, 2, 2, 2>>}
TraceHeaders(u) ==
    { [fn |-> "trace", T |-> t, arg |-> a, shape |-> s, sign |-> g, pos |-> 0] : t \in Types, a \in {"tensor", "expr"}, g \in {"pos", "neg", "mixed"}, s \in TraceShapes }
    \cup { [fn |-> "trace_b", T |-> t, arg |-> "tensor", shape |-> s, sign |-> "mixed", pos |-> 0] : t \in Types, s \in BatchShapes }   \* batch form takes tensors only
    \cup { [fn |-> "inner1", T |-> t, arg |-> a, shape |-> s, sign |-> "mixed", pos |-> 0] : t \in Types, a \in {"tensor", "expr"}, s \in Inner1Shapes }
TraceKeep(h) ==
    LET k == HKey(h.fn, h.T, h.arg, h.shape, h.sign, h.pos, 8)
    IN \/ (h.fn = "trace" /\ h.sign = Pick(<<"pos", "neg", "mixed">>, h.shape[1] + TI(h.T)) /\ h.arg = Pick(<<"tensor", "expr">>, h.shape[1] + TI(h.T) \div 2))
       \/ (h.fn # "trace" /\ (h.arg = "tensor" \/ k % 2 = 0) /\ (h.T \in {"f64", "i32"} \/ k % 3 = 0))
       \/ k % Rate = 0
TraceBuild(h) ==
    LET n == NEl(h.shape)
        key == HKey(h.fn, h.T, h.arg, h.shape, h.sign, h.pos, 9)
        g == h.sign
        V == [i \in 1..n |-> CASE g = "pos" -> Rnd(key, i, 1, 9) [] g = "neg" -> 0 - Rnd(key, i, 1, 9) [] OTHER -> Rnd(key, i, 0 - 9, 9)]
        Bv == [i \in 1..n |-> Rnd(key + 1, i, 0 - 5, 5)]
    IN IF h.arg = "expr"
       THEN Case("trace", h.fn, h.T, h.arg, h.shape, g, 0, "", "", 0, 0, [i \in 1..n |-> V[i] - Bv[i]], Bv, <<>>, <<>>)
       ELSE Case("trace", h.fn, h.T, h.arg, h.shape, g, 0, "", "", 0, 0, V, <<>>, <<>>, <<>>)
TraceCases(u) == { TraceBuild(h) : h \in {h \in TraceHeaders(0) : TraceKeep(h)} }

-----------------------------------------------------------------------------------------
(* family issym / isorth: exactly representable matrices and their one-element near misses *)
SymShapes == {<<n, n>> : n \in 1..9} \cup {<<2, 3>>, <<3, 2>>, <<4, 5>>}
UpperPos(n) == UNION { {(i - 1) * n + j : j \in (i + 1)..n} : i \in 1..n }     \* flat positions with i < j
SymHeaders(u) ==
    UNION { { [fn |-> "issymmetric", T |-> t, arg |-> a, shape |-> s, sign |-> g, pos |-> p] :
                 t \in Types, a \in {"tensor", "expr"}, g \in {"sym", "asym", "nonsq"}, p \in {0} \cup (IF s[1] = s[2] THEN UpperPos(s[1]) ELSE {}) }
            : s \in SymShapes }
SymKeep(h) ==
    LET k == HKey(h.fn, h.T, h.arg, h.shape, h.sign, h.pos, 10)
        k0 == HKey0(h.fn, h.T, h.arg, h.shape, h.sign)
        n == h.shape[1]
        up == SetToSortSeq(UpperPos(n), LAMBDA a, b : a < b)
    IN /\ (h.sign = "nonsq") = (h.shape[1] # h.shape[2])
       /\ (h.sign = "asym") = (h.pos > 0)
       /\ (h.pos = 0 \/ h.pos = Pick(up, k0) \/ (AllPos /\ k % 3 = 0))
       /\ \/ h.arg = Pick(<<"tensor", "expr">>, n + TI(h.T))            \* every (T, shape, truth value)
          \/ k % Rate = 0
SymBuild(h) ==
    LET m == h.shape[1]   n == h.shape[2]
        key == HKey(h.fn, h.T, h.arg, h.shape, h.sign, h.pos, 11)
        V == [p \in 1..(m * n) |->
                LET i == ((p - 1) \div n) + 1   j == ((p - 1) % n) + 1
                    lo == IF i < j THEN i ELSE j   hi == IF i < j THEN j ELSE i
                IN IF m = n THEN Rnd(key, lo * 16 + hi, 0 - 9, 9) + (IF p = h.pos THEN 1 ELSE 0) ELSE Rnd(key, p, 0 - 9, 9)]
        Bv == [p \in 1..(m * n) |-> Rnd(key + 1, p, 0 - 5, 5)]
    IN IF h.arg = "expr"
       THEN Case("issym", h.fn, h.T, h.arg, h.shape, h.sign, h.pos, "", "", 0, 0, [p \in 1..(m * n) |-> V[p] - Bv[p]], Bv, <<>>, <<>>)
       ELSE Case("issym", h.fn, h.T, h.arg, h.shape, h.sign, h.pos, "", "", 0, 0, V, <<>>, <<>>, <<>>)
SymCases(u) == { SymBuild(h) : h \in {h \in SymHeaders(0) : SymKeep(h)} }

RECURSIVE Gcd(_, _)
Gcd(a, b) == IF b = 0 THEN a ELSE Gcd(b, a % b)
OrthHeaders(u) ==
    UNION { { [fn |-> "isorthogonal", T |-> t, arg |-> a, shape |-> <<n, n>>, sign |-> g, pos |-> p] :
                 t \in Types, a \in {"tensor", "expr"}, g \in {"identity", "sperm", "near", "scaled"}, p \in 0..(n * n) } : n \in 1..8 }
OrthKeep(h) ==
    LET k == HKey(h.fn, h.T, h.arg, h.shape, h.sign, h.pos, 12)
        k0 == HKey0(h.fn, h.T, h.arg, h.shape, h.sign)
        n == h.shape[1]
    IN /\ (h.sign = "near") = (h.pos > 0)
       /\ (h.pos = 0 \/ h.pos = (k0 % (n * n)) + 1 \/ (AllPos /\ k % 7 = 0))
       /\ \/ (h.T \in FTypes /\ h.arg = Pick(<<"tensor", "expr">>, n + TI(h.T) + Idx(SignSeq, h.sign)))      \* every (float T, n, pattern)
          \/ (h.T \in {"i32", "i64"} /\ h.arg = "tensor" /\ n \in {2, 5} /\ h.sign \in {"sperm", "near"})
          \/ k % (2 * Rate) = 0
OrthBuild(h) ==
    LET n == h.shape[1]
        key == HKey(h.fn, h.T, h.arg, h.shape, h.sign, 0, 13)             \* the near miss perturbs the same matrix as its exact twin
        units == SetToSortSeq({a \in 1..n : Gcd(a, n) = 1}, LAMBDA a, b : a < b)
        mul == IF h.sign = "identity" THEN 1 ELSE Pick(units, key)
        off == IF h.sign = "identity" THEN 0 ELSE Rnd(key, 1, 0, n - 1)
        Sigma(i) == ((mul * (i - 1) + off) % n) + 1                        \* a permutation of 1..n  (mul is a unit mod n)
        Sg(i) == IF h.sign = "identity" THEN 1 ELSE 2 * Rnd(key, 10 + i, 0, 1) - 1
        Q == [p \in 1..(n * n) |-> LET i == ((p - 1) \div n) + 1   j == ((p - 1) % n) + 1 IN IF Sigma(i) = j THEN Sg(i) ELSE 0]
        V == [p \in 1..(n * n) |->
                CASE h.sign = "scaled" -> 2 * Q[p]
                  [] h.sign = "near" /\ p = h.pos -> (IF Q[p] = 0 THEN 2 * Rnd(key, 99, 0, 1) - 1 ELSE (IF Rnd(key, 98, 0, 1) = 0 THEN 0 ELSE 2 * Q[p]))
                  [] OTHER -> Q[p]]
        Bv == [p \in 1..(n * n) |-> Rnd(key + 1, p, 0 - 3, 3)]
    IN IF h.arg = "expr"
       THEN Case("isorth", h.fn, h.T, h.arg, h.shape, h.sign, h.pos, "", "", 0, 0, [p \in 1..(n * n) |-> V[p] - Bv[p]], Bv, <<>>, <<>>)
       ELSE Case("isorth", h.fn, h.T, h.arg, h.shape, h.sign, h.pos, "", "", 0, 0, V, <<>>, <<>>, <<>>)
OrthCases(u) == { OrthBuild(h) : h \in {h \in OrthHeaders(0) : OrthKeep(h)} }

-----------------------------------------------------------------------------------------
(* family det.  strat: simple | lu | qr (DetCompType).  Matrix families:                            *)
(*   gen       entries -5..5 (draw 3: two equal rows, determinant 0 by cancellation) -- closed forms *)
(*   dom       strictly row diagonally dominant, diagonal +-3/+-4 of mixed sign, <= 2 off-diagonal   *)
(*             entries +-1 per row -- the domain on which the factorisation routes are accurate      *)
(*   swaplast  dom with the last two rows exchanged (the library's static pre-pivot restores them;   *)
(*             the determinant changes sign)                                                         *)
(* The closed forms (simple, n <= 4) are judged exactly, the factorisation routes by DetWithin.      *)
DetExact(strat, n) == strat = "simple" /\ n <= 4
DetHeaders(u) ==
    { [fn |-> f, T |-> t, arg |-> a, shape |-> <<n, n>>, sign |-> g, pos |-> d, strat |-> st] :
         f \in {"determinant", "det"}, t \in Types, a \in {"tensor", "expr"}, n \in 1..DetMax, g \in {"gen", "dom", "swaplast"},
         d \in 1..Draws, st \in {"simple", "lu", "qr"} }
    \cup { [fn |-> "det_b", T |-> t, arg |-> "tensor", shape |-> <<b, n, n>>, sign |-> "gen", pos |-> 1, strat |-> "simple"] :
              t \in Types, b \in 2..3, n \in 2..4 }
DetOffered(h) ==
    LET n == h.shape[Len(h.shape)]
    IN IF h.fn = "det_b" THEN TRUE
       ELSE /\ ~(h.strat = "simple" /\ n = 1)            \* determinant(Tensor<T,1,1>) has no kernel: does not compile in any configuration
            /\ IF DetExact(h.strat, n) THEN h.sign = "gen"
               ELSE /\ h.T \in FTypes                    \* LU / QR of an integer tensor divides in integers: not a determinant
                    /\ h.sign \in {"dom", "swaplast"} /\ (h.sign = "swaplast" => n >= 2)
DetKeep(h) ==
    LET k == HKey(h.fn, h.T, h.arg, h.shape, h.sign, h.pos, Idx(<<"simple", "lu", "qr">>, h.strat))
        n == h.shape[Len(h.shape)]
    IN \/ h.fn = "det_b" /\ (h.T \in {"f64", "i32"} \/ k % Rate = 0)
       \/ (h.fn = "determinant" /\ h.arg = "tensor" /\ (h.T \in {"f64", "i32"} \/ (n + h.pos) % 2 = 0))
       \/ (h.fn = "determinant" /\ h.arg = "expr" /\ h.pos = 1 /\ (n + TI(h.T)) % 2 = 0)
       \/ (h.fn = "det" /\ h.pos = 1 /\ (n + TI(h.T) + Idx(ArgSeq, h.arg)) % 3 = 0)                   \* the det() alias
       \/ (h.fn # "det_b" /\ k % Rate = 0)
DetMatrix(fam, n, key, d) ==
    LET Gen == [p \in 1..(n * n) |->
                  LET i == ((p - 1) \div n) + 1   j == ((p - 1) % n) + 1
                  IN IF d = 3 /\ i = 2 THEN Rnd(key, j, 0 - 5, 5) ELSE Rnd(key, p, 0 - 5, 5)]          \* draw 3: row 2 = row 1
        c1(i) == (((i - 1) + 1 + Rnd(key, 40 + i, 0, n - 2)) % n) + 1                                   \* an off-diagonal column (n >= 2)
        c2(i) == (((i - 1) + 1 + Rnd(key, 80 + i, 0, n - 2)) % n) + 1
        Dom == [p \in 1..(n * n) |->
                  LET i == ((p - 1) \div n) + 1   j == ((p - 1) % n) + 1
                  IN IF i = j THEN (2 * Rnd(key, 20 + i, 0, 1) - 1) * Rnd(key, 30 + i, 3, 4)
                     ELSE IF n >= 2 /\ j = c1(i) THEN 2 * Rnd(key, 50 + i, 0, 1) - 1
                     ELSE IF n >= 3 /\ j = c2(i) /\ Rnd(key, 60 + i, 0, 2) > 0 THEN 2 * Rnd(key, 70 + i, 0, 1) - 1
                     ELSE 0]
    IN CASE fam = "gen" -> Gen [] fam = "dom" -> Dom [] fam = "swaplast" -> SwapRows(Dom, n, n - 1, n)
LogScale(D) == CHOOSE k \in 0..10 : Pow2(k) * Abs(D) < 268435456 /\ (k = 10 \/ Pow2(k + 1) * Abs(D) >= 268435456)
DetBuild(h) ==
    LET n == h.shape[Len(h.shape)]
        nb == IF h.fn = "det_b" THEN h.shape[1] ELSE 1
        key == HKey(h.fn, h.T, h.arg, h.shape, h.sign, h.pos, 14 + Idx(<<"simple", "lu", "qr">>, h.strat))
        V == IF h.fn = "det_b"
             THEN [p \in 1..(nb * n * n) |-> DetMatrix("gen", n, key + 17 * ((p - 1) \div (n * n)), 1 + ((p - 1) \div (n * n)))[((p - 1) % (n * n)) + 1]]
             ELSE DetMatrix(h.sign, n, key, h.pos)
        Ve == TLCEval(V)
        Bv == [p \in 1..(nb * n * n) |-> Rnd(key + 1, p, 0 - 2, 2)]
        ls == IF h.fn = "det_b" \/ DetExact(h.strat, n) THEN 0 ELSE LogScale(DetBareiss(Ve, n))
    IN IF h.arg = "expr"
       THEN Case("det", h.fn, h.T, h.arg, h.shape, h.sign, h.pos, "", h.strat, ls, 0, [p \in 1..(nb * n * n) |-> Ve[p] - Bv[p]], Bv, <<>>, <<>>)
       ELSE Case("det", h.fn, h.T, h.arg, h.shape, h.sign, h.pos, "", h.strat, ls, 0, Ve, <<>>, <<>>, <<>>)
DetCases(u) == { DetBuild(h) : h \in {h \in DetHeaders(0) : DetOffered(h) /\ DetKeep(h)} }

-----------------------------------------------------------------------------------------
\* VERIF_FAM selects one family (the driver runs the families as parallel TLC processes); unset or "all" = every family
FamSel == IF "VERIF_FAM" \in DOMAIN IOEnv THEN IOEnv.VERIF_FAM ELSE "all"
\* (the family sets take a dummy parameter so that TLC does not precompute all of them as constants at start-up)
Want(f) == FamSel \in {"all", f}
Cases == (IF Want("fold") THEN FoldCases(0) ELSE {}) \cup (IF Want("pred") THEN PredCases(0) ELSE {})
         \cup (IF Want("iseq") THEN IseqCases(0) ELSE {}) \cup (IF Want("inner") THEN InnerCases(0) ELSE {})
         \cup (IF Want("trace") THEN TraceCases(0) ELSE {}) \cup (IF Want("issym") THEN SymCases(0) ELSE {})
         \cup (IF Want("isorth") THEN OrthCases(0) ELSE {}) \cup (IF Want("det") THEN DetCases(0) ELSE {})

Init == c \in Cases
Next == UNCHANGED c
Spec == Init /\ [][Next]_c

-----------------------------------------------------------------------------------------
(* obligations checked in every state *)
N == NEl(c.shape)
X1 == IF c.B = <<>> THEN c.A ELSE Plus(c.A, c.B)          \* value of the first (or only) argument
X2 == IF c.D = <<>> THEN c.C ELSE Plus(c.C, c.D)          \* value of the second argument
AbsSum(x) == FoldSum([i \in 1..Len(x) |-> Abs(x[i])])
AbsProd(x) == FoldProduct([i \in 1..Len(x) |-> Abs(x[i])])
Lim24 == 16777216
\* the predicate's boolean input
Y2 == IF c.arg = "cmp_tt" THEN c.C ELSE [i \in 1..N |-> c.thr]
BSeq == CmpSeq(c.op, X1, Y2)
MatN == c.shape[Len(c.shape)]

\* every partial result of every evaluation order is an integer below 2^24 (exact in float) and every logged value is below 10^9
ExactPre ==
    /\ Len(c.A) = N /\ (c.B = <<>> \/ Len(c.B) = N) /\ (c.D = <<>> \/ Len(c.D) = N)
    /\ \A i \in 1..N : Abs(c.A[i]) < 2000
    /\ CASE c.fn \in {"sum", "min", "max", "trace", "trace_b", "inner1"} -> AbsSum(X1) < Lim24
         [] c.fn = "product" -> AbsProd(X1) < 1000000000 /\ \A i \in 1..N : Abs(X1[i]) \in {1, 2, 7}      \* +-2^k or +-7*2^k: exact at any magnitude
         [] c.fn = "norm" -> SumSq(X1) <= NormSMax
         [] c.fn = "inner" -> Len(X2) = N /\ FoldSum([i \in 1..N |-> Abs(X1[i] * X2[i])]) < Lim24
         [] c.fn = "isorthogonal" -> SumSq(X1) < Lim24
         [] c.fn \in {"determinant", "det", "det_b"} ->
               \* closed forms: n! products of n entries, each partial sum below 2^24
               (c.fn = "det_b" \/ DetExact(c.strat, MatN)) => 24 * Pow(FoldLeft(Greater, 0, [i \in 1..N |-> Abs(X1[i])]), MatN) < Lim24
         [] OTHER -> TRUE

PatternHolds ==
    CASE c.sign = "pos" -> \A i \in 1..N : X1[i] > 0
      [] c.sign = "neg" -> \A i \in 1..N : X1[i] < 0
      [] c.sign = "xmin" -> \A i \in 1..N : i # c.pos => X1[i] > X1[c.pos]
      [] c.sign = "xmax" -> \A i \in 1..N : i # c.pos => X1[i] < X1[c.pos]
      [] c.sign = "alltrue" -> AllOf(BSeq)
      [] c.sign = "allfalse" -> NoneOf(BSeq)
      [] c.sign = "onetrue" -> \A i \in 1..N : BSeq[i] = (i = c.pos)
      [] c.sign = "onefalse" -> \A i \in 1..N : BSeq[i] = (i # c.pos)
      [] c.sign = "equal" -> IsEqual(X1, X2)
      [] c.sign = "diff" -> ~IsEqual(X1, X2) /\ \A i \in 1..N : i # c.pos => X1[i] = X2[i]
      [] c.sign = "sym" -> IsSymmetric(X1, c.shape[1], c.shape[2])
      [] c.sign \in {"asym", "nonsq"} -> ~IsSymmetric(X1, c.shape[1], c.shape[2])
      [] c.sign \in {"identity", "sperm"} -> IsOrthogonal(X1, MatN)
      [] c.sign \in {"near", "scaled"} -> ~IsOrthogonal(X1, MatN)
      [] c.sign = "dom" -> IsDominant(X1, MatN)
      [] c.sign = "swaplast" -> IsDominant(SwapRows(X1, MatN, MatN - 1, MatN), MatN)
      [] OTHER -> TRUE

FoldTheorems ==
    /\ c.fam = "fold" => /\ MinContract(FoldMin(X1), X1) /\ MaxContract(FoldMax(X1), X1)
                         /\ FoldMin(X1) <= FoldMax(X1)
                         /\ (c.sign = "xmin" => FoldMin(X1) = X1[c.pos]) /\ (c.sign = "xmax" => FoldMax(X1) = X1[c.pos])
                         /\ (c.sign = "psq" => IsSquare(SumSq(X1)))
                         /\ c.fn = "norm" =>        \* the bracket is satisfiable, has slack of one unit only, and pins the sum of squares
                               LET S == SumSq(X1)   q0 == ISqrt(NormScale * NormScale * S)
                               IN /\ NormBracket(q0, S) /\ NormBracket(q0 + 1, S) /\ ~NormBracket(q0 + 3, S) /\ (q0 >= 3 => ~NormBracket(q0 - 2, S))
                                  /\ ~NormBracket(q0, S + 1) /\ (S >= 1 => ~NormBracket(q0 + 1, S - 1))
    /\ c.fam = "pred" => /\ NoneOf(BSeq) = ~AnyOf(BSeq)
                         /\ (AllOf(BSeq) => AnyOf(BSeq))                     \* N >= 1
                         /\ (c.sign = "onefalse" /\ N >= 2 => AnyOf(BSeq) /\ ~AllOf(BSeq))
    /\ c.fam = "trace" /\ c.fn = "trace" => Trace(X1, MatN) = DiagSum(X1, MatN, 2)
    /\ c.fam = "inner" => Inner(X1, X2) = Inner(X2, X1) /\ SumSq(X1) = Inner(X1, X1)

DetTheorems ==
    c.fam = "det" /\ c.fn # "det_b" =>
       LET n == MatN
           D == DetBareiss(X1, n)
       IN /\ (n <= 5 => D = DetLaplace(X1, n))
          /\ D = DetBareiss(Transposed(X1, n), n)
          /\ (n >= 2 => DetBareiss(SwapRows(X1, n, 1, n), n) = 0 - D)
          /\ (c.sign \in {"dom", "swaplast"} => D # 0)
          /\ (c.sign = "gen" /\ c.pos = 3 /\ n >= 2 => D = 0)
          /\ Pow2(c.ls) * Abs(D) < 536870912
          /\ (c.sign \in {"dom", "swaplast"} =>
                LET Ad == IF c.sign = "swaplast" THEN SwapRows(X1, n, n - 1, n) ELSE X1
                IN DetTol("f32", n, Pow2(c.ls) * Abs(D), RowNorm(Ad, n), Margin(Ad, n)) < 1000000)

Emit == PrintT(<<"PLAN", ToJson(c)>>)
=====================================================================================
