SPECIFICATION Spec
CONSTANTS NMax = 35
 Rate = 40
 AllPos = FALSE
 DetMax = 6
 Draws = 3
 Lean = TRUE
 PosPer = 2
 Extra = 250
 PredExtra = 120
 IseqExtra = 60
INVARIANT ExactPre
INVARIANT PatternHolds
INVARIANT FoldTheorems
INVARIANT DetTheorems
INVARIANT Emit
CHECK_DEADLOCK FALSE
