SPECIFICATION Spec
CONSTANTS NMax = 35
 Rate = 40
 AllPos = FALSE
 DetMax = 6
 Draws = 3
 PosPer = 2
 Extra = 400
 PredExtra = 250
 IseqExtra = 60
INVARIANT ExactPre
INVARIANT PatternHolds
INVARIANT FoldTheorems
INVARIANT DetTheorems
INVARIANT Emit
CHECK_DEADLOCK FALSE
