SPECIFICATION Spec
CONSTANTS NMax = 35
 Rate = 6
 AllPos = TRUE
 DetMax = 8
 Draws = 4
INVARIANT ExactPre
INVARIANT PatternHolds
INVARIANT FoldTheorems
INVARIANT DetTheorems
INVARIANT Emit
CHECK_DEADLOCK FALSE
