SPECIFICATION Spec
CONSTANTS NMax = 35
 Rate = 6
 AllPos = TRUE
 DetMax = 8
 Draws = 4
 Lean = FALSE
 PosPer = 2
 Extra = 4000
 PredExtra = 3000
 IseqExtra = 600
INVARIANT ExactPre
INVARIANT PatternHolds
INVARIANT FoldTheorems
INVARIANT DetTheorems
INVARIANT Emit
CHECK_DEADLOCK FALSE
