---------------------------------- MODULE GenSimd ----------------------------------
(* Plan generator for C08 and bounded check of the L1 lane algebra (Simd.tla, Word.tla).            *)
(* Every state is one case (element type, ABI, operation, form, value mode, scale); the C++ recorder *)
(* expands a case into its draws / element offsets / masks.  In every state TLC also evaluates the   *)
(* spec-level obligations below on vectors derived from the case (so the run is a model check of     *)
(* the lane algebra, not only a printer).                                                            *)
(*                                                                                                  *)
(* Which (T, ABI) pairs exist depends on the ISA build: scalar and fixed_size<n> (the generic T[n]   *)
(* implementation) everywhere, sse from SSE2, avx from AVX, avx512 from AVX-512.  The driver emits a *)
(* case only into the configurations whose ISA provides the ABI (a wider ABI silently falls back to  *)
(* the generic implementation otherwise, which the fixed_size cases already cover).                  *)
EXTENDS Simd
CONSTANTS Tier          \* "quick" | "thorough"
VARIABLE c
MK == INSTANCE Mask            \* L2 model of the mask pipeline: its table of declared mask widths travels with the plan (drift report)
Seed == atoi(IOEnv.VERIF_SEED)
Quick == Tier = "quick"

RealT == {"f32", "f64", "i32", "i64"}
CxT == {"c32", "c64"}
IsCxT(T) == T \in CxT
FixedN(T) == IF Quick THEN (CASE T = "f32" -> {8, 16} [] T = "f64" -> {4} [] T = "i32" -> {4, 16} [] T = "i64" -> {2, 8} [] OTHER -> {})
             ELSE (IF T \in RealT THEN {2, 3, 4, 8, 16} ELSE {})
\* SIMDVector<std::complex<R>, fixed_size<n>> is ambiguous (two partial specialisations of get_simd_vector_size match)
\* in every configuration: not offered
Pairs == { <<T, abi, 0>> : T \in RealT \cup CxT, abi \in {"scalar", "sse", "avx", "avx512"} } \cup
         UNION { { <<T, "fixed", n>> : n \in FixedN(T) } : T \in RealT }

\* ---- operations and forms -------------------------------------------------------------------
ArithOps == {"add", "sub", "mul", "div"}
CmpOps == {"eq", "ne", "lt", "gt", "le", "ge"}
FmaOps == {"fmadd", "fmsub", "fnmadd"}
OpForms ==
    (ArithOps \X {"vv", "vs", "sv", "ipv", "ips", "vr", "rv", "ipr"}) \cup
    ({"neg", "pos", "abs", "sqrt", "rcp", "rsqrt", "crcp", "conj", "real", "imag", "norm", "reverse", "sum", "product", "dot", "minimum", "maximum",
      "ctor0", "ctor_b", "asg_b", "set1", "setn", "setseq", "bcast_ptr", "copy", "asg_v", "index", "aload", "astore"} \X {"-"}) \cup
    (FmaOps \X {"-"}) \cup ({"min", "max"} \X {"vv", "vs", "sv"}) \cup (CmpOps \X {"vv", "vs", "sv"}) \cup
    ({"ctor_ld", "load", "store"} \X {"u", "a", "d"}) \cup ({"mload"} \X {"zu", "pu", "pa", "pd", "gp"}) \cup ({"mstore"} \X {"u", "a", "d", "gp"}) \cup
    ({"index"} \X {"b"}) \cup ({"cast"} \X {"f32", "f64", "i32", "i64"})

\* What the library offers (established by compiling every form for every pair under SSE2, AVX2+FMA and AVX-512: a
\* form listed as absent does not compile in ANY configuration that provides the ABI).
Offered(T, abi, N, op, f) ==
    LET cx == IsCxT(T)  int == IsIntT(T)  sc == abi = "scalar" IN
    /\ (f \in {"vr", "rv", "ipr"} => cx)                                   \* complex (op) real-scalar forms
    /\ (op \in {"sqrt", "rcp", "rsqrt"} => IsFloatT(T))                    \* integer vectors have no sqrt/rcp/rsqrt; complex sqrt/rsqrt are `= delete`
    /\ (op \in {"crcp", "conj", "real", "imag", "norm"} => cx)
    /\ (op \in {"abs", "min", "max", "minimum", "maximum", "setseq", "aload", "astore", "cast"} => ~cx)
           \* complex: abs() returns the magnitude in a complex vector, minimum()/maximum() are magnitude based and only
           \* declared for avx/avx512, no set_sequential/aligned_load/aligned_store, no operator< (min/max, ordering)
    /\ (op \in {"lt", "gt", "le", "ge"} => ~cx)
    /\ (op = "bcast_ptr" => (IsFloatT(T) /\ abi # "fixed") \/ (int /\ sc))  \* broadcast(const T*) exists only there
    /\ (op = "cast" => abi = "fixed" /\ f # T)                              \* cast<U>() exists only in the generic implementation
    /\ (op = "index" => (f = "b") = cx)                                    \* complex vectors have operator[] but no operator()
    /\ (op = "product" => ~(T = "i32" /\ abi = "avx"))                     \* SIMDVector<int32_t,avx>::product() does not compile (reported for C06)
    /\ (op \in {"mload", "mstore"} => (abi = "fixed" => N \in {2, 4, 8, 16}) /\ ~(sc /\ f \in {"pd", "d"}))
           \* generic masks need mask_to_array (n = 2,4,8,16); the scalar ABI has no default for `Aligned`
    /\ (cx /\ sc => /\ op \notin {"asg_b", "dot", "eq", "ne", "index", "neg", "bcast_ptr"}
                    /\ ~(op \in {"load", "store"} /\ f = "d"))
           \* SIMDVector<std::complex<R>,scalar>: these members/operators do not compile (operator= / operator[] return a real, ...)

\* ---- value modes ----------------------------------------------------------------------------
\* small/1, small/4 (quarters, float types only), bits (boundary values and random bit patterns)
TableOps == ArithOps \cup CmpOps \cup {"neg", "pos", "abs", "sqrt", "min", "max", "reverse", "ctor_b", "set1", "setn", "copy", "ctor_ld", "load", "index"}
IntWordOps == TableOps \cup FmaOps \cup {"sum", "product", "dot", "minimum", "maximum"}
Modes(T, op, f) ==
    LET q == IF IsIntT(T) \/ op \in {"div", "sqrt", "product", "setseq", "crcp", "store", "astore", "mstore", "rcp", "rsqrt"} THEN {} ELSE {<<"small", 4>>}
        b == IF (IsIntT(T) /\ op \in IntWordOps) \/ (IsFloatT(T) /\ op \in TableOps) THEN {<<"bits", 1>>} ELSE {}
    IN IF op \in {"rcp", "rsqrt"} THEN {<<"bits", 1>>}
       ELSE {<<"small", 1>>} \cup (IF f \in {"vv", "-", "u", "pu", "zu"} \/ op \in {"add", "mul", "cast"} THEN q \cup b ELSE {})

\* data generator of the recorder (c08::Gen) and value range
GenOf(T, op, f, mode) ==
    CASE op = "div" -> (IF IsIntT(T) THEN 1 ELSE IF mode = "bits" THEN 0 ELSE IF f = "sv" THEN 3 ELSE IF f = "rv" THEN 10 ELSE 2)
      [] op = "sqrt" -> (IF mode = "bits" THEN 0 ELSE 4)
      [] op = "product" -> (IF mode = "bits" THEN 0 ELSE 5)
      [] op = "rsqrt" -> 6 [] op = "rcp" -> 7 [] op = "crcp" -> 9
      \* horizontal minimum / maximum on small data: draw d carries its unique extreme in lane d mod N (with N draws every lane holds it once)
      [] op \in {"minimum", "maximum"} /\ mode = "small" -> 11
      [] OTHER -> 0
RangeOf(op, f) == CASE op \in {"mul", "dot", "norm"} \cup FmaOps -> 30 [] op = "div" -> 100 [] OTHER -> 1000
IterOf(op, f) == CASE op \in {"mload", "mstore"} /\ f = "gp" -> 3      \* remainder masks 2^r - 1, r = 0..N, with lanes >= r inside a PROT_NONE page
                   [] op \in {"mload", "mstore"} -> 2 [] op \in {"ctor_ld", "load", "store"} /\ f = "u" -> 1 [] OTHER -> 0
AlignedOf(op, f) == IF f \in {"a", "d", "pa"} /\ op \in {"ctor_ld", "load", "store", "mload", "mstore"} /\ ~(op \in {"mload", "mstore"} /\ f \in {"d"}) THEN 1
                    ELSE IF op \in {"aload", "astore"} THEN 1 ELSE 0
UsesOf(op, f) == CASE op \in {"mload", "mstore"} -> "mask" [] IterOf(op, f) = 1 -> "off" [] OTHER -> "none"
NDraw(op, f, mode) == IF IterOf(op, f) # 0 THEN (IF Quick THEN 1 ELSE 2) ELSE IF mode = "bits" THEN (IF Quick THEN 2 ELSE 6) ELSE (IF Quick THEN 3 ELSE 8)

\* masks: every mask for up to 8 lanes; for 16 lanes the two trivial masks, every remainder mask 2^r - 1 (what the
\* kernels build) and hash-sampled ones up to 64.  Secondary forms of 8-lane vectors take a sample in the quick tier.
MHash(k, salt) == (k * 40503 + Seed * 7919 + salt * 104729) % 65536
AllMasks(N) == 0..((2 ^ N) - 1)
Prefix(N) == {(2 ^ r) - 1 : r \in 0..N}
MaskSet(N, f, salt) ==
    IF N <= 4 \/ (N = 8 /\ (~Quick \/ f \in {"pu", "u"})) THEN AllMasks(N)
    ELSE IF N = 8 THEN Prefix(8) \cup {MHash(k, salt) % 256 : k \in 1..24}
    ELSE Prefix(16) \cup {MHash(k, salt) : k \in 1..(IF Quick /\ f \notin {"pu", "u"} THEN 16 ELSE 47)}
Salt(T, abi, f) == (CHOOSE i \in 1..6 : <<"f32", "f64", "i32", "i64", "c32", "c64">>[i] = T) * 11 +
                   (CHOOSE i \in 1..5 : <<"scalar", "sse", "avx", "avx512", "fixed">>[i] = abi) * 3 +
                   (CHOOSE i \in 1..8 : <<"zu", "pu", "pa", "pd", "u", "a", "d", "gp">>[i] = f)

Cases ==
    UNION { UNION { { [T |-> p[1], abi |-> p[2], n |-> p[3], N |-> LaneCount(p[1], p[2], p[3]), op |-> of[1], form |-> of[2], mode |-> m[1], sc |-> m[2],
                       osc |-> OutScale(of[1], m[2]), gen |-> GenOf(p[1], of[1], of[2], m[1]), range |-> RangeOf(of[1], of[2]),
                       \* generic / fixed_size vectors: mask type chosen from the lane count (uint8_t up to 8 lanes, then uint16_t, uint32_t, uint64_t)
                       mbits |-> (IF p[2] \in {"sse", "avx", "avx512"} THEN MK!DeclBits(p[1], p[2])
                                  ELSE LET nl == LaneCount(p[1], p[2], p[3]) IN IF nl <= 8 THEN 8 ELSE IF nl <= 16 THEN 16 ELSE IF nl <= 32 THEN 32 ELSE 64),
                       ndraw |-> (IF of[1] \in {"minimum", "maximum"} /\ m[1] = "small" THEN LaneCount(p[1], p[2], p[3]) ELSE NDraw(of[1], of[2], m[1])), iter |-> IterOf(of[1], of[2]), aligned |-> AlignedOf(of[1], of[2]),
                       masks |-> IF of[1] \in {"mload", "mstore"} /\ of[2] # "gp"
                                 THEN SetToSortSeq(MaskSet(LaneCount(p[1], p[2], p[3]), of[2], Salt(p[1], p[2], of[2])), LAMBDA x, y : x < y) ELSE <<>>]
                     : m \in Modes(p[1], of[1], of[2]) }
                   : of \in {x \in OpForms : Offered(p[1], p[2], LaneCount(p[1], p[2], p[3]), x[1], x[2])} }
          : p \in Pairs }

\* native full-range sweeps (thorough tier): all 2^32 bit patterns of the unary operations on the 32-bit element types; the recorder
\* hands only the vectors with a lane that differs from the scalar operation to the judge (ordinary events of form "-")
SweepCases == IF Quick THEN {} ELSE { x \in
    { [T |-> p[1], abi |-> p[2], n |-> p[3], N |-> LaneCount(p[1], p[2], p[3]), op |-> o, form |-> "sweep", mode |-> "bits", sc |-> 1, osc |-> 1, gen |-> 0,
       range |-> 0, mbits |-> 8, ndraw |-> 1, iter |-> 0, aligned |-> 0, masks |-> <<>>]
      : p \in {<<"f32", "sse", 0>>, <<"f32", "avx", 0>>, <<"f32", "avx512", 0>>, <<"f32", "fixed", 8>>, <<"i32", "sse", 0>>, <<"i32", "avx", 0>>, <<"i32", "avx512", 0>>, <<"i32", "fixed", 4>>},
        o \in {"neg", "abs", "sqrt"} } : ~(x.T = "i32" /\ x.op = "sqrt") }

Init == c \in Cases \cup SweepCases
Next == UNCHANGED c
Spec == Init /\ [][Next]_c

\* ---- spec-level obligations, evaluated in every state ------------------------------------------
\* sample vectors derived from the case (small values; complex where the type is)
Cx == IsCxT(c.T)
H(i, salt) == ((i * 37 + salt * 101 + c.N * 13 + Seed) % 41) - 20
Val(i, salt) == IF Cx THEN <<H(i, salt), H(i + 7, salt + 3)>> ELSE H(i, salt)
VA == TLCEval([i \in 1..c.N |-> Val(i, 1)])
VB == TLCEval([i \in 1..c.N |-> Val(i, 2)])
MM == TLCEval([j \in 1..(2 * c.N) |-> Val(j, 5)])
ZeroV == Zero(Cx)
MasksToCheck == IF c.masks = <<>> THEN {0, (2 ^ c.N) - 1, 1, (2 ^ (c.N - 1))}
                ELSE {c.masks[k] : k \in {j \in 1..Len(c.masks) : j % ((Len(c.masks) \div 12) + 1) = 0 \/ j = 1 \/ j = Len(c.masks)}}
AllMasksInRange == \A k \in 1..Len(c.masks) : c.masks[k] >= 0 /\ c.masks[k] < 2 ^ c.N
Offs == 0..(c.N - 1)

ScaleOK == AllMasksInRange /\ c.osc = OutScale(c.op, c.sc) /\ c.N = LaneCount(c.T, c.abi, c.n) /\ c.N >= 1
PermAlgebra == /\ Rev(Rev(VA)) = VA /\ SetArgs(SetArgs(VA)) = VA
               /\ \A i \in 1..c.N : Rev(VA)[i] = VA[c.N + 1 - i]
               /\ HSum(Rev(VA), Cx) = HSum(VA, Cx) /\ HProd(Bcast(Val(1, 1), 1), Cx) = Val(1, 1)
               /\ HDot(VA, VB, Cx) = HDot(VB, VA, Cx)
\* (the memory and mask obligations depend only on (T, N, masks): evaluated in the states of the memory operations)
MemAlgebra == c.op \notin {"load", "store", "ctor_ld"} \/ \A off \in Offs :
               LET st == TLCEval(Store(MM, off, VA)) IN
               /\ Load(st, off, c.N) = VA
               /\ Load(MM, off, c.N) = SubSeq(MM, off + 1, off + c.N)
               /\ \A j \in 1..(2 * c.N) : (j <= off \/ j > off + c.N) => st[j] = MM[j]
MaskAlgebra == c.op \notin {"mload", "mstore"} \/ \A off \in {0, c.N - 1}, m \in MasksToCheck :
               LET ms == TLCEval(MaskStore(MM, off, VA, m)) IN
               /\ m < 2 ^ c.N
               /\ MaskStore(MM, off, VA, (2 ^ c.N) - 1) = Store(MM, off, VA) /\ MaskStore(MM, off, VA, 0) = MM
               /\ \A j \in 1..(2 * c.N) : ms[j] # MM[j] => (j > off /\ j <= off + c.N /\ Enabled(m, j - off))       \* frame
               /\ \A i \in 1..c.N : Enabled(m, i) => ms[off + i] = VA[i]
               /\ MaskLoadOK([i \in 1..c.N |-> IF Enabled(m, i) THEN MM[off + i] ELSE VB[i]], MM, off, m, VB, ZeroV)
               /\ MaskLoadOK([i \in 1..c.N |-> IF Enabled(m, i) THEN MM[off + i] ELSE ZeroV], MM, off, m, VB, ZeroV)
MinMaxAlgebra == Cx \/ ( /\ IsElem(HMin(VA), VA) /\ IsElem(HMax(VA), VA)
                        /\ \A i \in 1..c.N : HMin(VA) <= VA[i] /\ VA[i] <= HMax(VA) )
\* the word domain agrees with integer arithmetic wherever both are defined
WordRefinesInt == Cx \/ LET nl == NLimbs(c.T) IN \A i \in 1..c.N :
                    LET x == VA[i] * 997  y == VB[i] * 1009 IN
                    /\ WAdd(FromInt(x, nl), FromInt(y, nl)) = FromInt(x + y, nl)
                    /\ WSub(FromInt(x, nl), FromInt(y, nl)) = FromInt(x - y, nl)
                    /\ WMul(FromInt(x, nl), FromInt(y, nl)) = FromInt(x * y, nl)
                    /\ WNeg(FromInt(x, nl)) = FromInt(0 - x, nl) /\ WAbs(FromInt(x, nl)) = FromInt(AbsI(x), nl)
                    /\ SLess(FromInt(x, nl), FromInt(y, nl)) = (x < y)
                    /\ WMin(FromInt(x, nl), FromInt(y, nl)) = FromInt(MinI(x, y), nl)
DivAlgebra == \A i \in 1..c.N : LET p == IF Cx THEN VA[i][1] ELSE VA[i]  q == IF Cx THEN VB[i][1] ELSE VB[i] IN
                 q = 0 \/ (TruncDiv(p, q) * q + (p - TruncDiv(p, q) * q) = p /\ AbsI(p - TruncDiv(p, q) * q) < AbsI(q) /\ TruncDiv(p * q, q) = p)

Emit == PrintT(<<"PLAN", ToJson(c)>>)
=====================================================================================
