SPECIFICATION Spec
CONSTANTS Tier = "thorough"
INVARIANT ScaleOK
INVARIANT PermAlgebra
INVARIANT MemAlgebra
INVARIANT MaskAlgebra
INVARIANT MinMaxAlgebra
INVARIANT WordRefinesInt
INVARIANT DivAlgebra
INVARIANT Emit
CHECK_DEADLOCK FALSE
