--------------------------------- MODULE GenTmatmul ---------------------------------
(* Plan generator for C17 (triangular matrix product) and, on every generated case, a check of    *)
(* the spec-level obligations: every state is one case                                           *)
(*      (T, kind, form, LhsTag, RhsTag, M, K, N)                                                 *)
(* TLC enumerates the case set as its state graph, evaluates in each state                        *)
(*   - the L1 lemma the clipping rests on (SupportLemma, on concrete triangular operands),        *)
(*   - the L2 obligations of TmatmulClip for the case's shape under EVERY ISA                     *)
(*     (clipped range contains the support; blocks partition the result; ones-refinement),        *)
(* and prints the case, with the kernel each ISA takes and the (uo,ui) pairs find_kfirst/klast    *)
(* are instantiated with (the harness logs their constexpr values for exactly these).             *)
EXTENDS TmatmulClip, SequencesExt

CONSTANTS Box,       \* exhaustive box 1..Box for M, K, N  (x 9 tag pairs)
          Quota,     \* keep 1 of Quota (shape, tags) combinations of the box          (1 = all)
          EQuota,    \* keep 1 of EQuota combinations of the edge stratum
          MQuota     \* keep 1 of MQuota combinations of the masked-kernel stratum
VARIABLE c

Seed == atoi(IOEnv.VERIF_SEED)

TagSeq  == <<"General", "Lower", "Upper">>
TypeSeq == <<"f64", "f32", "i32", "i64">>
TI(t) == CHOOSE i \in 1..3 : TagSeq[i] = t

\* sampling hash: a square modulo a prime on top of a linear form (a linear form alone makes  % Quota  periodic in M,K,N)
Lin(s, lt, rt) == s[1] * 7919 + s[2] * 104729 + s[3] * 1299709 + TI(lt) * 611953 + TI(rt) * 15485863 + (Seed % 10007) * 104723
H(s, lt, rt, salt) == LET a == ((Lin(s, lt, rt) % 1000003) + (salt * 7907)) % 46337 IN (((a * a) % 1000003) + a) % 10007

\* ---- case constructor: type, kind and API form rotate with the hash, so that over the box every type / form
\* meets every tag pair and every residue of the shape against the block sizes
\* kind: mm  tmatmul(Tensor<T,M,K>, Tensor<T,K,N>);  mv  tmatmul(Tensor<T,M,K>, Tensor<T,K>) (N = 1);
\*       vm  tmatmul(Tensor<T,K>, Tensor<T,K,N>) (M = 1)
\* form: api      C = tmatmul<L,R>(A, B)                 (returns by value)
\*       backend  _tmatmul<T,M,K,N,L,R>(a, b, out)       (the backend the API forwards to, writing into a
\*                                                        sentinel-filled guarded destination: "every element written")
\*       expr_l / expr_r / expr_lr   tmatmul<L,R>(A + 0, B) / (A, B + 0) / (A + 0, B + 0)   (expression overloads)
KindOf(s, h) == IF s[3] = 1 /\ h % 2 = 0 THEN "mv" ELSE IF s[1] = 1 /\ h % 3 # 0 THEN "vm" ELSE "mm"
FormOf(kind, h) == LET f == h % 8 IN
                   IF f = 0 THEN "expr_l" ELSE IF f = 1 THEN "expr_r" ELSE IF f = 2 THEN "expr_lr"
                   ELSE IF f \in {3, 4} \/ kind # "mm" THEN "api" ELSE "backend"
Case(s, lt, rt, T, stratum) ==
    LET kind == KindOf(s, H(s, lt, rt, 1)) IN
    [T |-> T, kind |-> kind, form |-> FormOf(kind, H(s, lt, rt, 2)), lt |-> lt, rt |-> rt,
     M |-> s[1], K |-> s[2], N |-> s[3], stratum |-> stratum]
\* the element type of a (shape, tags) combination; one in 11 becomes complex<double> (element-wise kernel, exact clip)
TypeOf(s, lt, rt) == IF H(s, lt, rt, 3) % 11 = 0 THEN "c64" ELSE TypeSeq[(H(s, lt, rt, 4) % 4) + 1]

\* ---- stratum 1: the box (trapezoidal shapes included: M, K, N vary independently)
BoxCases == { Case(s, lt, rt, TypeOf(s, lt, rt), "box") :
                 s \in { s \in (1..Box) \X (1..Box) \X (1..Box) : TRUE }, lt \in Tags, rt \in Tags }
KeepBox(x) == Quota = 1 \/ H(<<x.M, x.K, x.N>>, x.lt, x.rt, 5) % Quota = 0

\* ---- stratum 2: edges {16,17,24,25} (multiples of every vector width and of the 4/8/12-row blocks, and one more),
\* alone and mixed with small extents
Edge  == {16, 17, 24, 25}
Small == {1, 3, 5, 8, 12, 13}
\* wide-vector remainders of the unmasked kernel: V = 8 / 16 with N % V <= 1 and a row class m1 (M >= 2V, M mod 8 in 4..7)
WideShapes == UNION { { <<m, 5, n>>, <<m, m, n>>, <<m, n + 2, n>> } : m \in {20, 23, 36, 39}, n \in {9, 17, 25, 33} }
EdgeShapes == { s \in (Edge \cup Small) \X (Edge \cup Small) \X (Edge \cup Small) : s[1] \in Edge \/ s[2] \in Edge \/ s[3] \in Edge }
              \cup WideShapes
EdgeCases == { Case(s, lt, rt, TypeSeq[(H(s, lt, rt, 4) % 4) + 1], "edge") : s \in EdgeShapes, lt \in Tags, rt \in Tags }
KeepEdge(x) == EQuota = 1 \/ H(<<x.M, x.K, x.N>>, x.lt, x.rt, 6) % EQuota = 0

\* ---- stratum 3: shapes that reach CLIPPED blocks of the masked kernel (AVX2 / AVX-512 only).  They need
\* N % V > 1 and a row class m1 (M >= 2V with M mod 8 in 4..7), which the box and the edges do not contain for V >= 8.
\* The model decides membership: a candidate is kept only if some AVX2/AVX-512 configuration clips a masked block.
MaskM == {13, 15, 20, 23, 36, 39}
MaskN == {3, 5, 6, 7, 11, 13, 19, 22, 27}
MaskShapes == UNION { { <<m, 5, n>>, <<m, m, n>>, <<m, m + 3, n>>, <<m, n, n>>, <<m, n + 2, n>> } : m \in MaskM, n \in MaskN }
ReachesMaskedClip(T, M, N) == \E isa \in {"avx2", "avx512"} :
                                 LET V == BestSize(T, isa, N) IN TMasked(isa, N, V) /\ HasClippedBlock(M, N, V, TRUE)
MaskCases == { x \in { Case(s, lt, rt, T, "masked") : s \in MaskShapes, lt \in Tags, rt \in Tags, T \in {"f64", "f32", "i32", "i64"} } :
                 ReachesMaskedClip(x.T, x.M, x.N) }
KeepMask(x) == MQuota = 1 \/ H(<<x.M + (CHOOSE i \in 1..4 : TypeSeq[i] = x.T), x.K, x.N>>, x.lt, x.rt, 7) % MQuota = 0

\* ---- stratum 4: three-vector column blocks (numSIMDCols = 3: N % 3V = 0, M % 3V = 0, N > 24)
Nc3Shapes == UNION { { <<s[1], 7, s[2]>>, <<s[1], s[1] + 1, s[2]>>, <<s[1], s[2], s[2]>> } :
                        s \in { <<6, 30>>, <<12, 30>>, <<12, 36>>, <<24, 48>>, <<48, 48>> } }
\* 24 x 25 x 48 in double has three-vector blocks under SSE2 (V=2), AVX2 (V=4) and AVX-512 (V=8): always kept, all tag pairs
Nc3Cases == { Case(s, lt, rt, TypeSeq[(H(s, lt, rt, 4) % 4) + 1], "nc3") : s \in Nc3Shapes, lt \in Tags, rt \in Tags }
            \cup { Case(<<24, 25, 48>>, lt, rt, "f64", "nc3") : lt \in Tags, rt \in Tags }
KeepNc3(x) == MQuota = 1 \/ (x.T = "f64" /\ x.M = 24 /\ x.K = 25) \/ H(<<x.M, x.K, x.N>>, x.lt, x.rt, 8) % (2 * MQuota) = 0

Cases == { x \in BoxCases : KeepBox(x) } \cup { x \in EdgeCases : KeepEdge(x) }
         \cup { x \in MaskCases : KeepMask(x) } \cup { x \in Nc3Cases : KeepNc3(x) }

Init == c \in Cases
Next == UNCHANGED c
Spec == Init /\ [][Next]_c

\* ---- what each ISA does with the case (L2)
VOf(isa) == BestSize(c.T, isa, c.N)
MaskedOf(isa) == TMasked(isa, c.N, VOf(isa))
Routes == [isa \in ISAs |-> TRoute(c.T, isa, c.N)]
Clips == [isa \in ISAs |-> IF Prim(c.T) THEN ClipParams(c.M, c.N, VOf(isa), MaskedOf(isa)) ELSE { <<1, 1>> }]
\* clipped-or-not block classes reached (coverage accounting by the driver)
Classes == [isa \in ISAs |->
              IF ~Prim(c.T) THEN {"elementwise"}
              ELSE { (IF MaskedOf(isa) THEN "masked/" ELSE "base/") \o RowClass(c.M, VOf(isa), r) \o "/" \o ColClass(c.M, c.N, VOf(isa), cc) :
                       r \in RowTiles(c.M, VOf(isa), 0),
                       cc \in ColTiles(c.N, VOf(isa), NumCols(c.M, c.N, VOf(isa), 0), MaskedOf(isa)) }]

\* ---- obligations evaluated in every state
\* L2: for every ISA the clipped ranges of all blocks contain the support, and the blocks partition the result
ClipOK == \A isa \in ISAs :
             IF Prim(c.T) THEN /\ ClipContainsSupport(c.M, c.K, c.N, c.lt, c.rt, VOf(isa), MaskedOf(isa))
                               /\ EveryElementStored(c.M, c.N, VOf(isa), MaskedOf(isa))
             ELSE NonPrimExact(c.M, c.K, c.N, c.lt, c.rt)
\* L2 => L1 on the all-ones triangular operands (cell by cell; bounded for cost)
RefineOK == c.M * c.K * c.N > 600 \/ ~Prim(c.T) \/
            \A isa \in {"sse2", "avx2", "avx512"} : OnesRefinement(c.M, c.K, c.N, c.lt, c.rt, VOf(isa), MaskedOf(isa))
\* L1: on concrete operands (position revealing, cut to the tagged triangle) the terms outside the support vanish,
\* and an operand cut to its triangle keeps the promise
PosData(n, off) == [q \in 1..n |-> q + off]
LemmaOK == c.M * c.K * c.N > 400 \/
           LET A == TLCEval(TriPart(PosData(c.M * c.K, 0), c.M, c.K, c.lt, FALSE))
               B == TLCEval(TriPart(PosData(c.K * c.N, 3), c.K, c.N, c.rt, FALSE))
           IN Promise(A, B, c.M, c.K, c.N, c.lt, c.rt, FALSE) /\ SupportLemma(A, B, c.M, c.K, c.N, c.lt, c.rt, FALSE)

Emit == PrintT(<<"PLAN", ToJson([T |-> c.T, kind |-> c.kind, form |-> c.form, lt |-> c.lt, rt |-> c.rt,
                                  M |-> c.M, K |-> c.K, N |-> c.N, stratum |-> c.stratum,
                                  routes |-> Routes, clips |-> Clips, classes |-> Classes])>>)

\* ---- coverage obligation on the plan as a whole (evaluated once): the clipped block classes of both kernels are
\* reached for the three natively executed ISAs; in particular the masked kernel's clipped blocks under AVX2 and AVX-512
ClassesOf(x, isa) ==
    LET V == BestSize(x.T, isa, x.N)
        mk == TMasked(isa, x.N, V)
    IN { <<mk, RowClass(x.M, V, r), ColClass(x.M, x.N, V, cc)>> :
           r \in RowTiles(x.M, V, 0), cc \in ColTiles(x.N, V, NumCols(x.M, x.N, V, 0), mk) }
Wanted(isa) == { <<FALSE, rc, cc>> : rc \in {"m0", "m1"}, cc \in {"n0", "n1", "scalar"} }
               \cup (IF isa = "sse2" THEN {} ELSE { <<TRUE, "m1", cc>> : cc \in {"n1", "mask"} })
ASSUME PlanReachesEveryClippedClass ==
    \A isa \in {"sse2", "avx2", "avx512"} :
        Wanted(isa) \subseteq UNION { ClassesOf(x, isa) : x \in { y \in Cases : Prim(y.T) } }
ASSUME PlanReachesThreeVectorBlocks ==
    \A isa \in {"sse2", "avx2", "avx512"}, lt \in Tags, rt \in Tags :
        \E x \in Cases : Prim(x.T) /\ x.lt = lt /\ x.rt = rt /\ NumCols(x.M, x.N, BestSize(x.T, isa, x.N), 0) = 3
=======================================================================================
