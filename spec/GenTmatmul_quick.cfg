SPECIFICATION Spec
CONSTANTS Box = 7
 Quota = 3
 EQuota = 24
 MQuota = 30
INVARIANT ClipOK
INVARIANT RefineOK
INVARIANT LemmaOK
INVARIANT Emit
CHECK_DEADLOCK FALSE
