SPECIFICATION Spec
CONSTANTS Box = 13
 Quota = 10
 EQuota = 10
 MQuota = 10
INVARIANT ClipOK
INVARIANT RefineOK
INVARIANT LemmaOK
INVARIANT Emit
CHECK_DEADLOCK FALSE
