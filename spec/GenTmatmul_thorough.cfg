SPECIFICATION Spec
CONSTANTS Box = 13
 Quota = 5
 EQuota = 6
 MQuota = 4
INVARIANT ClipOK
INVARIANT RefineOK
INVARIANT LemmaOK
INVARIANT Emit
CHECK_DEADLOCK FALSE
