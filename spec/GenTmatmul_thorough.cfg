SPECIFICATION Spec
CONSTANTS Box = 13
 Quota = 6
 EQuota = 6
 MQuota = 6
INVARIANT ClipOK
INVARIANT RefineOK
INVARIANT LemmaOK
INVARIANT Emit
CHECK_DEADLOCK FALSE
