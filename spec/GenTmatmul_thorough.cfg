SPECIFICATION Spec
CONSTANTS Box = 13
 Quota = 8
 EQuota = 8
 MQuota = 8
INVARIANT ClipOK
INVARIANT RefineOK
INVARIANT LemmaOK
INVARIANT Emit
CHECK_DEADLOCK FALSE
