---------------------------------- MODULE GenViews ----------------------------------
(* Behaviour generator for the tensor machine (C04, C05, C18, C19, C20).                         *)
(* A behaviour is a sequence of API calls on a fixed arena; `tlc -generate` walks the machine,    *)
(* every step is chosen in two micro-steps (Choose: draw a call into `pend`; Apply: check the     *)
(* property's domain on the CURRENT memory and execute it with the L1 action), so that the        *)
(* recorded call and the executed call are the same value.  The history is printed as JSON and    *)
(* turned into C++ statements on the real library; TraceViews judges the recorded run with the    *)
(* same L1 operators.                                                                             *)
EXTENDS TensorMachine, Randomization

CONSTANTS Mode,        \* "write" (C05) | "read" (C04) | "alias" (C18) | "index" (C19) | "maps" (C20)
          MaxSteps,
          Cx           \* FALSE real element type, TRUE complex
VARIABLES mem, hist, pend

\* ---- arena: name |-> [b (index for the initial pattern), shape]
Arena == [A1 |-> [b |-> 1, shape |-> <<40>>],
          A2 |-> [b |-> 2, shape |-> <<3, 37>>],
          A3 |-> [b |-> 3, shape |-> <<2, 3, 19>>],
          A4 |-> [b |-> 4, shape |-> <<2, 2, 3, 17>>],
          B1 |-> [b |-> 5, shape |-> <<40>>],
          B2 |-> [b |-> 6, shape |-> <<3, 37>>],
          Q1 |-> [b |-> 7, shape |-> <<1, 6, 1, 4>>]]
Names == DOMAIN Arena
ShapeOf(h) == Arena[h].shape
InitMem == [h \in Names |-> InitBlock(Arena[h].b, Prod(ShapeOf(h)), Cx)]

Pick(S) == RandomElement(S)
PickSeq(s) == s[Pick(1..Len(s))]
Lim == 2000000                          \* keeps every value exactly representable in float as well
SmallV(v) == IF Cx THEN v[1] > -Lim /\ v[1] < Lim /\ v[2] > -Lim /\ v[2] < Lim ELSE v > -Lim /\ v < Lim
SmallBlk(blk) == \A p \in 1..Len(blk) : SmallV(blk[p])
Val(a) == IF Cx THEN <<a, ((a * 3) % 5) - 2>> ELSE a

\* ---- drawing one admissible range on an axis of extent n, stratified by extent class (DESIGN 11.1)
ExtClasses(n) == { c \in {<<1, 1>>, <<2, 3>>, <<4, 7>>, <<8, 15>>, <<16, 31>>, <<32, 64>>} : c[1] <= n }
DrawRange(n, kinds) ==
    LET k   == Pick(kinds)
        s   == PickSeq(<<1, 1, 1, 2, 3>>)
        c   == Pick(ExtClasses(n))
        hi  == IF c[2] < n THEN c[2] ELSE n
        e0  == Pick(c[1]..hi)
        e   == IF (e0 - 1) * s + 1 <= n THEN e0 ELSE ((n - 1) \div s) + 1          \* extent
        sp  == (e - 1) * s + 1                                                    \* span touched
        f   == Pick(0..(n - sp))
        lmx == IF f + e * s <= n THEN f + e * s ELSE n
        l   == Pick((f + sp)..lmx)                                                 \* any last with the same ceil
        enc == Pick({"pp", "pn", "nn"})
        ff  == IF enc = "nn" THEN f - n - 1 ELSE f
        ll  == IF enc = "pp" THEN l ELSE l - n - 1
    IN CASE k \in {"seq", "fseq"} -> [k |-> k, f |-> ff, l |-> ll, s |-> s]
         [] k = "iseq" -> [k |-> k, f |-> f, l |-> l, s |-> s]
         [] k = "all" -> [k |-> "all"]
         [] k \in {"int", "fix"} -> [k |-> k, i |-> IF f = n - 1 /\ enc # "pp" THEN -1 ELSE f]

\* one slice of `shape`: a dynamic one (seq / all / bare integers with at least one seq) or a fixed one (fseq / all / fix)
DrawSliceStyle(shape, style) ==
    LET rk    == Len(shape)
        main  == Pick(1..rk)
    IN [a \in 1..rk |->
          IF style = "dyn"
          THEN DrawRange(shape[a], IF a = main \/ rk = 1 THEN {"seq"} ELSE {"seq", "seq", "all", "int"})
          ELSE DrawRange(shape[a], IF a = main THEN {"fseq"} ELSE {"fseq", "fseq", "all", "fix"})]
DrawSlice(shape, allowfixed) ==
    LET style == IF allowfixed THEN PickSeq(<<"dyn", "dyn", "fix">>) ELSE "dyn"
        rk    == Len(shape)
        main  == Pick(1..rk)                       \* this axis is always a genuine range
    IN [a \in 1..rk |->
          IF style = "dyn"
          THEN DrawRange(shape[a], IF a = main \/ rk = 1 THEN {"seq"} ELSE {"seq", "seq", "all", "int"})
          ELSE DrawRange(shape[a], IF a = main THEN {"fseq"} ELSE {"fseq", "fseq", "all", "fix"})]
\* a slice of `shape` whose extents equal `ext` (source for view = view)
\* (vk: "seq" dynamic or "fseq" compile-time ranges -- the same for every axis of the source)
DrawSliceExtK(shape, ext, vk) ==
    [a \in 1..Len(shape) |->
        LET n == shape[a]  e == ext[a]
            smax == IF e = 1 THEN 3 ELSE (n - 1) \div (e - 1)
            s == Pick(1..(IF smax > 3 THEN 3 ELSE smax))
            sp == (e - 1) * s + 1
            f == Pick(0..(n - sp))
            enc == Pick({"pp", "pn"})
        IN [k |-> vk, f |-> f, l |-> IF enc = "pp" THEN f + sp ELSE f + sp - n - 1, s |-> s]]
DrawSliceExt(shape, ext) == DrawSliceExtK(shape, ext, PickSeq(<<"seq", "seq", "fseq">>))

SameRank(h) == {g \in Names : Len(ShapeOf(g)) = Len(ShapeOf(h))}
Fits(shape, ext) == \A a \in 1..Len(shape) : ext[a] <= shape[a]

Aops == <<"set", "set", "add", "sub", "mul", "div">>
DrawRhs(h, ext, n, sameBuf) ==
    LET kind == IF sameBuf THEN PickSeq(<<"vw", "vw", "ex">>) ELSE PickSeq(<<"sc", "tn", "vw", "vw", "ex", "ex2">>)
        g == IF sameBuf THEN h ELSE Pick({x \in SameRank(h) : Fits(ShapeOf(x), ext)})
    IN CASE kind = "sc" -> [k |-> "sc", v |-> Val(Pick({-3, -2, -1, 1, 2, 3}))]
         [] kind = "tn" -> [k |-> "tn", vals |-> [q \in 1..n |-> Val(((q * 5 + Pick(0..6)) % 7) - 3)]]
         [] kind = "vw" -> [k |-> "vw", buf |-> g, shape |-> ShapeOf(g), r |-> DrawSliceExt(ShapeOf(g), ext)]
         [] kind = "ex" -> [k |-> "ex", buf |-> g, shape |-> ShapeOf(g), r |-> DrawSliceExt(ShapeOf(g), ext),
                            m |-> Val(Pick({-2, 2, 3})), c |-> Val(Pick({-1, 1, 4}))]
         [] kind = "ex2" -> [k |-> "ex2", buf |-> g, shape |-> ShapeOf(g), r |-> DrawSliceExt(ShapeOf(g), ext),
                             vals |-> [q \in 1..n |-> Val(((q * 3 + Pick(0..4)) % 5) - 2)]]

\* ---- domain predicates of the properties, evaluated on the current memory
NonZero(v) == IF Cx THEN v # <<0, 0>> ELSE v # 0
Divides(v, d) == IF Cx THEN FALSE ELSE d % (IF v < 0 THEN 0 - v ELSE v) = 0
DivOK(blk, sel, src) == \A q \in 1..Len(sel) : NonZero(src[q]) /\ Divides(src[q], Cell(blk, sel[q]))
RhsSel(rhs) == IF rhs.k \in {"vw", "ex", "ex2"} THEN Sel(rhs.shape, rhs.r) ELSE <<>>
\* C18: with noalias any overlap is allowed; without it only identical or disjoint selections
OverlapOK(c) == \/ c.na = 1
                \/ ~(c.rhs.k \in {"vw", "ex", "ex2"} /\ c.rhs.buf = c.buf)
                \/ Sel(c.shape, c.r) = RhsSel(c.rhs)
                \/ ToSetOf(Sel(c.shape, c.r)) \cap ToSetOf(RhsSel(c.rhs)) = {}

\* ---- Choose: draw a call
ChooseWrite(sameBuf, t) ==
    LET h   == Pick(Names)
        shp == ShapeOf(h)
        r   == DrawSlice(shp, TRUE)
        ext == SliceShape(shp, r)
        n   == Prod(ext)
        aop == PickSeq(Aops)
        rhs0 == DrawRhs(h, ext, n, sameBuf)
        \* a compile-time slice that covers the whole tensor IS the tensor, and Tensor<complex> op= complex-scalar is not offered
        \* (the scalar overloads of the in-place operators are restricted to arithmetic types): a tensor right-hand side is used instead
        wholeFixed == \A a \in 1..Len(shp) : r[a].k \in {"all", "fseq"} /\ Extent(r[a], shp[a]) = shp[a]
        rhs == IF Cx /\ wholeFixed /\ rhs0.k = "sc" /\ aop # "set"
               THEN [k |-> "tn", vals |-> [q \in 1..n |-> Val(((q * 5 + 3) % 7) - 3)]] ELSE rhs0
    IN [e |-> "SliceWrite", buf |-> h, shape |-> shp, r |-> r, aop |-> aop,
        na |-> IF sameBuf THEN PickSeq(<<1, 1, 0>>) ELSE PickSeq(<<0, 0, 0, 1>>),
        rhs |-> rhs]
\* the same view OBJECT used for two consecutive assignments (C18: repeated application on the same view object):
\*   auto v = H(ranges);  v[.noalias()] op1= rhs1;  v[.noalias()] op2= rhs2;
ChooseWrite2(t) ==
    LET h   == Pick(Names)
        shp == ShapeOf(h)
        r   == DrawSlice(shp, TRUE)
        ext == SliceShape(shp, r)
        n   == Prod(ext)
    IN [e |-> "SliceWrite2", buf |-> h, shape |-> shp, r |-> r,
        aop1 |-> PickSeq(<<"set", "add", "sub", "mul">>), na1 |-> 1, rhs1 |-> DrawRhs(h, ext, n, TRUE),
        aop2 |-> PickSeq(<<"set", "add", "sub", "mul">>), na2 |-> PickSeq(<<1, 1, 0>>), rhs2 |-> DrawRhs(h, ext, n, Pick(1..2) = 1)]
ChooseRead(t) ==
    LET h   == Pick(Names)
        shp == ShapeOf(h)
        \* ctor: Tensor R = slice;  expr: Tensor R = m*slice+c;  assign / addassign / assignexpr: the same into an EXISTING tensor
        \* (R = slice; R += slice on zeros; R = m*slice+c) -- construction and assignment take different evaluation routes
        \* cassign / cctor: the same reads through a CONST reference to the parent (the const view classes are separate code)
        \* caddassign / cexpr / cassignexpr: += and expression reads through a const parent (flat, scalar eval_s(idx) route of the const views)
        form == PickSeq(<<"ctor", "expr", "iseq", "assign", "assign", "addassign", "assignexpr", "cassign", "cctor",
                          "caddassign", "cexpr", "cassignexpr", "caddassign">>)
        \* a const tensor offers fewer mixed overloads (no (all, seq) / (fseq, seq) forms): const reads use seq on every axis, or a fixed view
        r   == IF form = "iseq" THEN [a \in 1..Len(shp) |-> DrawRange(shp[a], {"iseq"})]
               ELSE IF form \in {"cassign", "cctor", "caddassign", "cexpr", "cassignexpr"}
                    THEN (IF Pick(1..2) = 1 THEN DrawSliceStyle(shp, "fix") ELSE [a \in 1..Len(shp) |-> DrawRange(shp[a], {"seq"})])
                    ELSE DrawSlice(shp, TRUE)
    IN [e |-> "SliceRead", buf |-> h, shape |-> shp, r |-> r, form |-> form, m |-> Val(Pick({2, -3})), c |-> Val(Pick({1, -2}))]
ChooseScalar(write, t) ==
    LET h   == Pick(Names)
        shp == ShapeOf(h)
        idx == [a \in 1..Len(shp) |-> IF Pick(1..3) = 1 THEN Pick((0 - shp[a])..-1) ELSE Pick(0..(shp[a] - 1))]
    IN IF write THEN [e |-> "ScalarWrite", buf |-> h, shape |-> shp, idx |-> idx, aop |-> PickSeq(<<"set", "add", "sub", "mul">>), v |-> Val(Pick({-3, -2, 2, 3}))]
       ELSE [e |-> "ScalarRead", buf |-> h, shape |-> shp, idx |-> idx]

\* ---- index-tensor and mask views (C19)
Perm(S, salt) == SetToSortSeq(S, LAMBDA a, b : ((a * 7919 + salt) % 1009) * 1000 + a < ((b * 7919 + salt) % 1009) * 1000 + b)
DrawIdx(size, n, distinct, t) ==
    IF distinct THEN Perm(RandomSubset(n, 0..(size - 1)), Pick(0..1000)) ELSE [q \in 1..n |-> Pick(0..(size - 1))]
\* tx: a lazy element-wise expression; mm: an expression that is evaluated into a temporary first (matrix product)
TxRhs(n) == [k |-> "tx", vals |-> [q \in 1..n |-> Val(((q * 5 + Pick(0..6)) % 7) - 3)], m |-> Val(Pick({-2, 2, 3})), c |-> Val(Pick({-1, 1, 2}))]
MmRhs(rows, cols) == [k |-> "mm", rows |-> rows, cols |-> cols, a |-> [q \in 1..(2 * rows) |-> Val(((q * 3 + Pick(0..4)) % 5) - 2)],
                      b |-> [q \in 1..(2 * cols) |-> Val(((q * 7 + Pick(0..2)) % 3) - 1)]]
IdxRhs(h, n, sameBuf, sel, t) ==
    LET kind == IF sameBuf THEN "rv" ELSE PickSeq(<<"sc", "tn", "tn", "rv", "tx", "mm">>)
    IN CASE kind = "sc" -> [k |-> "sc", v |-> Val(Pick({-3, -2, 2, 3}))]
         [] kind = "tx" -> TxRhs(n)
         [] kind = "mm" -> IF Len(ShapeOf(h)) = 1 THEN MmRhs(n, 1) ELSE TxRhs(n)
         [] kind = "tn" -> [k |-> "tn", vals |-> [q \in 1..n |-> Val(((q * 5 + Pick(0..6)) % 7) - 3)]]
         [] kind = "rv" -> [k |-> "rv", buf |-> h, sel |-> [q \in 1..n |-> Pick(0..(Prod(ShapeOf(h)) - 1))]]
\* forms:  flat (index tensor of flat offsets, any rank)  |  pair / it_int / int_it / it_fseq / fseq_it (rank 2)
ChooseIndex(write, t) ==
    LET form == PickSeq(<<"flat", "flat", "pair", "it_int", "int_it", "it_fseq", "fseq_it">>)
        h    == IF form = "flat" THEN Pick(Names) ELSE Pick({"A2", "B2"})
        shp  == ShapeOf(h)
        size == Prod(shp)
        aop  == PickSeq(<<"set", "set", "add", "sub", "mul">>)
        ity  == PickSeq(<<"int", "int", "std::int64_t", "size_t">>)
        na   == IF write THEN PickSeq(<<0, 0, 1>>) ELSE 0
    IN IF form = "flat"
       THEN LET n == Pick(1..(IF size > 24 THEN 24 ELSE size))
                sel == DrawIdx(size, n, write, t)
                \* result shape: rank 1 for a rank-1 parent, otherwise a same-rank shape <<1,..,1,n>>
                rsh == [a \in 1..Len(shp) |-> IF a = Len(shp) THEN n ELSE 1]
            IN [e |-> IF write THEN "IndexWrite" ELSE "IndexRead", buf |-> h, shape |-> shp, form |-> "flat", sel |-> sel, rshape |-> rsh,
                cp |-> IF write THEN 0 ELSE Pick(0..1),          \* reads: through a const reference to the parent (separate view class)
                ity |-> ity, aop |-> aop, na |-> na, rhs |-> IdxRhs(IF na = 1 THEN h ELSE Pick(SameRank(h)), n, na = 1, sel, t)]
       ELSE LET r0 == IF form \in {"pair", "it_int", "it_fseq"} THEN [k |-> "it", idx |-> DrawIdx(shp[1], Pick(1..shp[1]), write, t)]
                      ELSE IF form = "int_it" THEN [k |-> "int", i |-> Pick(0..(shp[1] - 1))]
                      ELSE DrawRange(shp[1], {"fseq"})
                r1 == IF form \in {"pair", "int_it", "fseq_it"} THEN [k |-> "it", idx |-> DrawIdx(shp[2], Pick(1..9), write, t)]
                      ELSE IF form = "it_int" THEN [k |-> "int", i |-> Pick(0..(shp[2] - 1))]
                      ELSE DrawRange(shp[2], {"fseq"})
                axes == <<r0, r1>>
                sel == IdxSel(shp, axes)
                n == Len(sel)
                rsh == <<Len(PerAxisIdx(r0, shp[1])), Len(PerAxisIdx(r1, shp[2]))>>
            IN [e |-> IF write THEN "IndexWrite" ELSE "IndexRead", buf |-> h, shape |-> shp, form |-> form, axes |-> axes, sel |-> sel, rshape |-> rsh,
                cp |-> IF write THEN 0 ELSE Pick(0..1),
                ity |-> ity, aop |-> aop, na |-> na, rhs |-> IdxRhs(IF na = 1 THEN h ELSE Pick(SameRank(h)), n, na = 1, sel, t)]
ChooseMask(t) ==
    LET h    == Pick(Names)
        shp  == ShapeOf(h)
        size == Prod(shp)
        dens == Pick(1..4)
        kind == PickSeq(<<"sc", "tn", "tx", "mm">>)
    IN [e |-> "MaskWrite", buf |-> h, shape |-> shp, mask |-> [p \in 1..size |-> IF Pick(1..4) <= dens THEN 1 ELSE 0],
        aop |-> PickSeq(<<"set", "set", "add", "sub", "mul", "sub">>),
        rhs |-> CASE kind = "sc" -> [k |-> "sc", v |-> Val(Pick({-3, -2, 2, 3}))]
                  [] kind = "tx" -> TxRhs(size)
                  [] kind = "mm" /\ Len(shp) = 1 -> MmRhs(size, 1)
                  [] kind = "mm" /\ Len(shp) = 2 -> MmRhs(shp[1], shp[2])
                  [] OTHER -> [k |-> "tn", vals |-> [q \in 1..size |-> Val(((q * 3 + Pick(0..4)) % 5) - 2)]]]

\* ---- maps, reshape, flatten, squeeze, layout conversion, constructors (C20)
Divs(n) == {d \in 1..n : n % d = 0}
SameSizeShapes(n) == {<<n>>} \cup {<<a, n \div a>> : a \in Divs(n)}
                     \cup UNION {{<<a, b, n \div (a * b)>> : b \in {x \in Divs(n) : n % (a * x) = 0}} : a \in Divs(n)}
                     \cup UNION {{<<a, b, 2, n \div (2 * a * b)>> : b \in {x \in Divs(n) : n % (2 * a * x) = 0}} : a \in Divs(n)}
Squeezed(shp) == SelectSeq(shp, LAMBDA x : x # 1)
ChooseMap(t) ==
    LET h    == Pick(Names)
        own  == ShapeOf(h)
        via  == IF h = "Q1" THEN PickSeq(<<"squeeze", "squeeze", "map", "owner">>) ELSE PickSeq(<<"map", "reshape", "reshape", "flatten", "owner">>)
        shp  == CASE via = "owner" -> own
                  [] via = "flatten" -> <<Prod(own)>>
                  [] via = "squeeze" -> Squeezed(own)
                  [] OTHER -> Pick(SameSizeShapes(Prod(own)))
        op   == PickSeq(<<"slice", "slice", "whole", "scalar", "read", "sread">>)
        \* dynamic seq views of a rank-1/rank-2 TensorMap do not compile in any configuration (the alias branch of the nd view builds
        \* a TensorViewExpr<Tensor,1|2> from an array of seq): not offered, so aliases of rank <= 2 get compile-time views only
        r    == IF via # "owner" /\ Len(shp) <= 2 THEN DrawSliceStyle(shp, "fix") ELSE DrawSlice(shp, TRUE)
        rall == [a \in 1..Len(shp) |-> [k |-> "all"]]
        ext  == SliceShape(shp, r)
        idx  == [a \in 1..Len(shp) |-> IF Pick(1..3) = 1 THEN Pick((0 - shp[a])..-1) ELSE Pick(0..(shp[a] - 1))]
        other == Pick(Names \ {h})
        rk0  == PickSeq(<<"sc", "tn", "tn", "fl", "mp", "mp">>)
        rk   == IF rk0 = "sc" /\ via # "owner" /\ op = "whole" THEN "tn"                \* TensorMap has no operator=(scalar)
                ELSE IF rk0 = "mp" /\ op # "whole" THEN "tn" ELSE rk0
        \* mp: a bare map of a whole buffer as right-hand side of a whole-handle assignment -- the SAME storage as the destination
        \* (x += flatten(x): perfect overlap) or the equally sized twin buffer
        twin == CASE h = "A1" -> "B1" [] h = "B1" -> "A1" [] h = "A2" -> "B2" [] h = "B2" -> "A2" [] OTHER -> h
        mpbuf == IF Pick(1..3) <= 2 THEN h ELSE twin
        rhsOf(n) == CASE rk = "sc" -> [k |-> "sc", v |-> Val(Pick({-3, -2, 2, 3}))]
                      [] rk = "tn" -> [k |-> "tn", vals |-> [q \in 1..n |-> Val(((q * 5 + Pick(0..6)) % 7) - 3)]]
                      [] rk = "mp" -> [k |-> "mp", buf |-> mpbuf, shape |-> shp, via |-> IF Len(shp) = 1 THEN PickSeq(<<"flatten", "map", "reshape">>) ELSE PickSeq(<<"map", "reshape">>)]
                      \* the first n cells of another buffer seen through flatten(): a map as right-hand side
                      [] rk = "fl" -> IF n <= Prod(ShapeOf(other)) /\ Len(shp) = 1
                                      THEN [k |-> "vw", buf |-> other, shape |-> <<Prod(ShapeOf(other))>>, r |-> <<[k |-> "seq", f |-> 0, l |-> n, s |-> 1]>>, via |-> "flatten"]
                                      ELSE [k |-> "tn", vals |-> [q \in 1..n |-> Val(((q * 3 + Pick(0..4)) % 5) - 2)]]
    IN CASE op = "slice" -> [e |-> "SliceWrite", buf |-> h, shape |-> shp, via |-> via, r |-> r, aop |-> PickSeq(Aops), na |-> 0, rhs |-> rhsOf(Prod(ext))]
         \* (map = map is C++ copy assignment of the handle: it rebinds the pointer and copies nothing -- not an element assignment)
         [] op = "whole" -> [e |-> "SliceWrite", buf |-> h, shape |-> shp, via |-> via, whole |-> 1, r |-> rall,
                             aop |-> LET a == PickSeq(Aops) IN IF rk = "mp" /\ via # "owner" /\ a = "set" THEN "add" ELSE a, na |-> 0, rhs |-> rhsOf(Prod(shp))]
         [] op = "scalar" -> [e |-> "ScalarWrite", buf |-> h, shape |-> shp, via |-> via, idx |-> idx, aop |-> PickSeq(<<"set", "add", "sub", "mul">>), v |-> Val(Pick({-3, -2, 2, 3}))]
         [] op = "read" -> [e |-> "SliceRead", buf |-> h, shape |-> shp, via |-> via, r |-> r, form |-> PickSeq(<<"ctor", "expr">>), m |-> Val(Pick({2, -3})), c |-> Val(Pick({1, -2}))]
         [] op = "sread" -> [e |-> "ScalarRead", buf |-> h, shape |-> shp, via |-> via, idx |-> idx]
ChooseLayout(t) ==
    LET rk  == Pick(1..5)
        shp == [a \in 1..rk |-> Pick(1..4)]
        n   == Prod(shp)
    IN IF Pick(1..2) = 1
       THEN [e |-> "Layout", shape |-> shp, vals |-> [q \in 1..n |-> Val(q)]]
       ELSE [e |-> "Ctor", kind |-> PickSeq(<<"ptr_row", "ptr_col", "arr", "arr_col", "vec", "vec_col", "ilist">>), shape |-> IF rk = 5 THEN SubSeq(shp, 1, 4) ELSE shp,
             vals |-> [q \in 1..(IF rk = 5 THEN Prod(SubSeq(shp, 1, 4)) ELSE n) |-> Val(((q * 7) % 23) - 11)]]

Draw(t) == CASE Mode = "write" -> IF Pick(1..6) = 1 THEN ChooseScalar(TRUE, t) ELSE ChooseWrite(FALSE, t)
             [] Mode = "read"  -> IF Pick(1..5) = 1 THEN ChooseScalar(FALSE, t) ELSE IF Pick(1..4) = 1 THEN ChooseWrite(FALSE, t) ELSE ChooseRead(t)
             [] Mode = "index" -> IF Pick(1..5) = 1 THEN ChooseMask(t) ELSE IF Pick(1..3) = 1 THEN ChooseIndex(FALSE, t) ELSE ChooseIndex(TRUE, t)
             [] Mode = "maps" -> IF Pick(1..5) = 1 THEN ChooseLayout(t) ELSE ChooseMap(t)
             [] Mode = "alias" -> IF Pick(1..5) = 1 THEN ChooseWrite(FALSE, t) ELSE IF Pick(1..4) = 1 THEN ChooseWrite2(t) ELSE ChooseWrite(TRUE, t)

\* ---- Apply: domain check on the current memory, then the L1 action
InDomain(c) ==
    CASE c.e = "SliceWrite" ->
            /\ \A a \in 1..Len(c.shape) : Admissible(c.r[a], c.shape[a])
            /\ OverlapOK(c)
            /\ LET sel == Sel(c.shape, c.r)
                   src == EvalRhs(mem, c.rhs, Len(sel), Cx)
               IN /\ (c.aop = "div" => DivOK(mem[c.buf], sel, src))
                  /\ SmallBlk(SliceWrite(mem, c.buf, c.shape, c.r, c.aop, c.rhs, Cx)[c.buf])
      [] c.e = "SliceWrite2" ->
            LET c1 == [buf |-> c.buf, shape |-> c.shape, r |-> c.r, na |-> c.na1, rhs |-> c.rhs1]
                c2 == [buf |-> c.buf, shape |-> c.shape, r |-> c.r, na |-> c.na2, rhs |-> c.rhs2]
                m1 == SliceWrite(mem, c.buf, c.shape, c.r, c.aop1, c.rhs1, Cx)
            IN /\ \A a \in 1..Len(c.shape) : Admissible(c.r[a], c.shape[a])
               /\ OverlapOK(c1) /\ OverlapOK(c2)
               /\ SmallBlk(m1[c.buf]) /\ SmallBlk(SliceWrite(m1, c.buf, c.shape, c.r, c.aop2, c.rhs2, Cx)[c.buf])
      [] c.e = "SliceRead" -> \A a \in 1..Len(c.shape) : Admissible(c.r[a], c.shape[a])
      [] c.e = "ScalarWrite" -> SmallV(CombD(c.aop, Cell(mem[c.buf], ScalarOff(c.shape, c.idx)), c.v, Cx))
      [] c.e = "ScalarRead" -> TRUE
      [] c.e = "IndexRead" -> TRUE
      [] c.e \in {"Layout", "Ctor"} -> TRUE
      [] c.e = "IndexWrite" -> /\ DupFree(c.sel)
                               /\ \/ c.na = 1 \/ c.rhs.k # "rv" \/ c.rhs.buf # c.buf \/ c.rhs.sel = c.sel
                                  \/ ToSetOf(c.rhs.sel) \cap ToSetOf(c.sel) = {}
                               /\ SmallBlk(AssignSel(mem, c.buf, c.sel, c.aop, c.rhs, Cx)[c.buf])
      [] c.e = "MaskWrite" -> SmallBlk(MaskAssign(mem, c.buf, c.mask, c.aop, c.rhs, Prod(c.shape), Cx)[c.buf])
Effect(c) ==
    CASE c.e = "SliceWrite" -> SliceWrite(mem, c.buf, c.shape, c.r, c.aop, c.rhs, Cx)
      [] c.e = "SliceWrite2" -> SliceWrite(SliceWrite(mem, c.buf, c.shape, c.r, c.aop1, c.rhs1, Cx), c.buf, c.shape, c.r, c.aop2, c.rhs2, Cx)
      [] c.e = "ScalarWrite" -> AssignSel(mem, c.buf, <<ScalarOff(c.shape, c.idx)>>, c.aop, [k |-> "sc", v |-> c.v], Cx)
      [] c.e = "IndexWrite" -> AssignSel(mem, c.buf, c.sel, c.aop, c.rhs, Cx)
      [] c.e = "MaskWrite" -> MaskAssign(mem, c.buf, c.mask, c.aop, c.rhs, Prod(c.shape), Cx)
      [] OTHER -> mem

None == [e |-> "none"]
Init == mem = InitMem /\ hist = <<>> /\ pend = None
Choose == /\ pend = None /\ Len(hist) < MaxSteps
          /\ pend' = Draw(Len(hist))
          /\ UNCHANGED <<mem, hist>>
Apply == /\ pend # None
         /\ IF InDomain(pend)
            THEN mem' = Effect(pend) /\ hist' = Append(hist, pend)
            ELSE UNCHANGED <<mem, hist>>
         /\ pend' = None
Next == Choose \/ Apply
Spec == Init /\ [][Next]_<<mem, hist, pend>>

\* invariants of the machine itself, checked while generating
GuardsAlways == \A h \in Names : GuardsIntact(mem[h], Cx)
Emit == (Len(hist) < MaxSteps) \/ (pend # None) \/ PrintT(<<"PLAN", ToJson(hist)>>)
=======================================================================================
