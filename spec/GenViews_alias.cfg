SPECIFICATION Spec
CONSTANTS Mode = "alias"
 MaxSteps = 5
 Cx = FALSE
INVARIANT GuardsAlways
INVARIANT Emit
CHECK_DEADLOCK FALSE
