SPECIFICATION Spec
CONSTANTS Mode = "alias"
 MaxSteps = 5
 Cx = TRUE
INVARIANT GuardsAlways
INVARIANT Emit
CHECK_DEADLOCK FALSE
