SPECIFICATION Spec
CONSTANTS Mode = "index"
 MaxSteps = 5
 Cx = FALSE
INVARIANT GuardsAlways
INVARIANT Emit
CHECK_DEADLOCK FALSE
