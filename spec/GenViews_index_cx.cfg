SPECIFICATION Spec
CONSTANTS Mode = "index"
 MaxSteps = 5
 Cx = TRUE
INVARIANT GuardsAlways
INVARIANT Emit
CHECK_DEADLOCK FALSE
