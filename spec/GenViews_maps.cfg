SPECIFICATION Spec
CONSTANTS Mode = "maps"
 MaxSteps = 5
 Cx = FALSE
INVARIANT GuardsAlways
INVARIANT Emit
CHECK_DEADLOCK FALSE
