SPECIFICATION Spec
CONSTANTS Mode = "maps"
 MaxSteps = 5
 Cx = TRUE
INVARIANT GuardsAlways
INVARIANT Emit
CHECK_DEADLOCK FALSE
