SPECIFICATION Spec
CONSTANTS Mode = "read"
 MaxSteps = 5
 Cx = FALSE
INVARIANT GuardsAlways
INVARIANT Emit
CHECK_DEADLOCK FALSE
