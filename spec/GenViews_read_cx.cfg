SPECIFICATION Spec
CONSTANTS Mode = "read"
 MaxSteps = 5
 Cx = TRUE
INVARIANT GuardsAlways
INVARIANT Emit
CHECK_DEADLOCK FALSE
