SPECIFICATION Spec
CONSTANTS Mode = "write"
 MaxSteps = 5
 Cx = FALSE
INVARIANT GuardsAlways
INVARIANT Emit
CHECK_DEADLOCK FALSE
