SPECIFICATION Spec
CONSTANTS Mode = "write"
 MaxSteps = 5
 Cx = TRUE
INVARIANT GuardsAlways
INVARIANT Emit
CHECK_DEADLOCK FALSE
