---------------------------------- MODULE LazyExpr ----------------------------------
(* L1 semantics of expressions that mix element-wise arithmetic with the evaluation-requiring       *)
(* (lazy) linear-algebra operators (C09): % (matrix product), trans, inv, adj, cof, det, trace.     *)
(* All operands are n x n integer matrices (row-major sequences), so that element-wise and matrix    *)
(* nodes compose freely; inverses are only taken of unimodular matrices (det = +-1), whose inverse is *)
(* the exact integer matrix det * adj.  The property: assigning the lazy form equals assigning the     *)
(* value of the expression computed on the ORIGINAL operands -- also when the destination D is an      *)
(* element-wise operand of the right-hand side.                                                        *)
(*   leaf [k |-> "t", n]   scalar [k |-> "s", v]                                                       *)
(*   [k |-> "add"|"sub"|"mul", l, r]  element-wise        [k |-> "mm", l, r]  matrix product            *)
(*   [k |-> "trans"|"inv"|"adj"|"cof", x]   matrix-valued   [k |-> "sdet"|"strace", x, y]  det(x)*y, trace(x)*y  *)
EXTENDS VT, FiniteSets

Idx(n, i, j) == (i - 1) * n + j                      \* 1-based (i,j) -> flat position
MatMul(a, b, n) == [p \in 1..(n * n) |->
    LET i == ((p - 1) \div n) + 1  j == ((p - 1) % n) + 1
    IN SumTo(LAMBDA k : a[Idx(n, i, k)] * b[Idx(n, k, j)], n, FALSE)]
Transp(a, n) == [p \in 1..(n * n) |-> LET i == ((p - 1) \div n) + 1  j == ((p - 1) % n) + 1 IN a[Idx(n, j, i)]]
Det2(a) == a[1] * a[4] - a[2] * a[3]
Det3(a) == a[1] * (a[5] * a[9] - a[6] * a[8]) - a[2] * (a[4] * a[9] - a[6] * a[7]) + a[3] * (a[4] * a[8] - a[5] * a[7])
Det(a, n) == CASE n = 1 -> a[1] [] n = 2 -> Det2(a) [] n = 3 -> Det3(a)
Others(i) == CASE i = 1 -> <<2, 3>> [] i = 2 -> <<1, 3>> [] i = 3 -> <<1, 2>>
\* minor of a 3x3 matrix: determinant after deleting row i and column j
Minor3(a, i, j) == LET rs == Others(i)  cs == Others(j)
                   IN a[Idx(3, rs[1], cs[1])] * a[Idx(3, rs[2], cs[2])] - a[Idx(3, rs[1], cs[2])] * a[Idx(3, rs[2], cs[1])]
Sign(i, j) == IF (i + j) % 2 = 0 THEN 1 ELSE -1
Cof(a, n) == CASE n = 1 -> <<1>>
               [] n = 2 -> <<a[4], 0 - a[3], 0 - a[2], a[1]>>
               [] n = 3 -> [p \in 1..9 |-> LET i == ((p - 1) \div 3) + 1  j == ((p - 1) % 3) + 1 IN Sign(i, j) * Minor3(a, i, j)]
Adj(a, n) == Transp(Cof(a, n), n)
Unimodular(a, n) == Det(a, n) \in {1, -1}
Inv(a, n) == LET d == Det(a, n) IN [p \in 1..(n * n) |-> d * Adj(a, n)[p]]          \* valid iff Unimodular
Trace(a, n) == SumTo(LAMBDA k : a[Idx(n, k, k)], n, FALSE)
EW(op, a, b) == [p \in 1..Len(a) |-> CASE op = "add" -> a[p] + b[p] [] op = "sub" -> a[p] - b[p] [] op = "mul" -> a[p] * b[p]]
Scale(s, a) == [p \in 1..Len(a) |-> s * a[p]]

RECURSIVE Den(_, _, _)
Den(e, env, n) == TLCEval(
    CASE e.k = "t" -> env[e.n]
      [] e.k = "s" -> [p \in 1..(n * n) |-> e.v]                    \* an arithmetic scalar, broadcast
      [] e.k \in {"add", "sub", "mul"} -> EW(e.k, Den(e.l, env, n), Den(e.r, env, n))
      [] e.k = "mm" -> MatMul(Den(e.l, env, n), Den(e.r, env, n), n)
      [] e.k = "trans" -> Transp(Den(e.x, env, n), n)
      [] e.k = "inv" -> Inv(Den(e.x, env, n), n)
      [] e.k = "adj" -> Adj(Den(e.x, env, n), n)
      [] e.k = "cof" -> Cof(Den(e.x, env, n), n)
      [] e.k = "sdet" -> Scale(Det(Den(e.x, env, n), n), Den(e.y, env, n))
      [] e.k = "strace" -> Scale(Trace(Den(e.x, env, n), n), Den(e.y, env, n)))

\* exactness domain: every inverted sub-expression is unimodular
RECURSIVE Dom(_, _, _)
Dom(e, env, n) == CASE e.k \in {"t", "s"} -> TRUE
                    [] e.k \in {"add", "sub", "mul", "mm"} -> Dom(e.l, env, n) /\ Dom(e.r, env, n)
                    [] e.k = "inv" -> Dom(e.x, env, n) /\ Unimodular(Den(e.x, env, n), n)
                    [] e.k \in {"trans", "adj", "cof"} -> Dom(e.x, env, n)
                    [] e.k \in {"sdet", "strace"} -> Dom(e.x, env, n) /\ Dom(e.y, env, n)

Comb2(x, d, v) == CASE x = "set" -> v [] x = "add" -> EW("add", d, v) [] x = "sub" -> EW("sub", d, v) [] x = "mul" -> EW("mul", d, v)
\* LazyEqEager at L1: the destination after  D x= e
Expected(x, e, env, n) == Comb2(x, env["D"], Den(e, env, n))

\* requires_evaluation_v: the tree contains an evaluation-requiring node
RECURSIVE Req(_)
Req(e) == CASE e.k \in {"t", "s"} -> FALSE
            [] e.k \in {"add", "sub", "mul"} -> Req(e.l) \/ Req(e.r)
            [] OTHER -> TRUE
RECURSIVE Alias(_)
Alias(e) == CASE e.k = "t" -> e.n = "D"
              [] e.k = "s" -> FALSE
              [] e.k \in {"add", "sub", "mul", "mm"} -> Alias(e.l) \/ Alias(e.r)
              [] e.k \in {"sdet", "strace"} -> Alias(e.x) \/ Alias(e.y)
              [] OTHER -> Alias(e.x)
=====================================================================================
