----------------------------------- MODULE Linalg -----------------------------------
(* L1 semantics of the dense factorisation routines (C10 inverse, C11 LU, C12 solve, C13 QR).     *)
(*                                                                                                *)
(* What this module can and cannot say (DESIGN 0, C10-C13).  TLA+ has integers only.  So the       *)
(* contract of a factorisation is split in two:                                                   *)
(*  (1) everything discrete is DECIDED here, exactly: shapes; the triangular structure of the       *)
(*      factors (exact zeros, unit diagonal) on a faithful integer image of the floating result;    *)
(*      that a returned permutation is a bijection, in the vector and in the 0/1-matrix encoding;   *)
(*      what applying / undoing a pivot means on integer data; and, whenever a floating result      *)
(*      happens to be a small dyadic (the harness logs it as integers together with its scale),     *)
(*      the defining identity  A*X = I,  L*U = P*A,  A*x = b,  Q*R = P*A,  Q'Q = I  re-verified in   *)
(*      exact integer arithmetic with Matmul!Product;                                               *)
(*  (2) the rounding bound  resid <= C * n * eps * cond-or-norm  is only JUDGED here: a routine that *)
(*      does not depend on the library measures  ratio_milli = ceil(1000*resid/(n*eps*scale))  in     *)
(*      extended precision, and the specification accepts iff  ratio_milli <= 1000*C.                *)
(* A floating result is never required to be exact: (1) is used as  exact => (identity <=> ratio=0), *)
(* i.e. as a cross-check of the measuring arithmetic against TLC's own.                             *)
(*                                                                                                *)
(* Matrices are row-major flat sequences of integers, 0-based (i,j) at position i*m + j + 1.        *)
(* An input matrix stands for  A / 2^sA  (sA = 0 except for the unit-triangular family).             *)
(* Permutation vectors hold 0-based row numbers, as the library's Tensor<size_t,M> does.            *)
EXTENDS Matmul, FiniteSets, SequencesExt

At(A, m, i, j) == A[i * m + j + 1]
Abs(x) == IF x < 0 THEN 0 - x ELSE x
Identity(n) == [q \in 1..(n * n) |-> IF (q - 1) \div n = (q - 1) % n THEN 1 ELSE 0]
Scaled(c, A) == [q \in 1..Len(A) |-> c * A[q]]
Transposed(A, n, m) == [q \in 1..(n * m) |-> A[((q - 1) % n) * m + ((q - 1) \div n) + 1]]     \* n x m  ->  m x n
Prod(A, B, n, k, m) == Product(A, B, n, k, m, FALSE)
SumOver(f(_), n) == SumTo(f, n, FALSE)
NormInf(A, n, m) == LET rs == [i \in 0..(n - 1) |-> SumOver(LAMBDA j : Abs(At(A, m, i, j - 1)), m)]
                    IN CHOOSE v \in {rs[i] : i \in 0..(n - 1)} : \A i \in 0..(n - 1) : rs[i] <= v

-----------------------------------------------------------------------------------------------------
(* Structure of a floating factor, decided on its entry classes:                                    *)
(*   0 exactly zero   1 exactly one   2 any other finite value   3 NaN or Inf                        *)
ZERO == 0
ONE == 1
BAD == 3
AllFinite(C) == \A q \in 1..Len(C) : C[q] # BAD
ExactZeros(C, n, where(_, _)) == \A i, j \in 0..(n - 1) : where(i, j) => At(C, n, i, j) = ZERO
UnitLower(C, n) == /\ Len(C) = n * n /\ AllFinite(C)
                   /\ ExactZeros(C, n, LAMBDA i, j : j > i)
                   /\ \A i \in 0..(n - 1) : At(C, n, i, i) = ONE
Upper(C, n) == /\ Len(C) = n * n /\ AllFinite(C)
               /\ ExactZeros(C, n, LAMBDA i, j : j < i)
\* the same predicates on integer matrices (generator side: certificates, triangular inputs)
IsUnitLowerInt(L, n, one) == \A i, j \in 0..(n - 1) : (j > i => At(L, n, i, j) = 0) /\ (i = j => At(L, n, i, j) = one)
IsUpperInt(U, n) == \A i, j \in 0..(n - 1) : j < i => At(U, n, i, j) = 0
NonzeroDiag(U, n) == \A i \in 0..(n - 1) : At(U, n, i, i) # 0

-----------------------------------------------------------------------------------------------------
(* Permutations.  Vector encoding: p[i+1] = row of A that becomes row i of P*A.                     *)
(* Matrix encoding: P(i, p(i)) = 1, everything else 0, so that P*A is the ordinary matrix product.  *)
Iota(n) == [i \in 1..n |-> i - 1]
IsBijectionV(p, n) == Len(p) = n /\ {p[i] : i \in 1..n} = 0..(n - 1)
IsBijectionM(P, n) == /\ Len(P) = n * n
                      /\ \A q \in 1..(n * n) : P[q] \in {0, 1}
                      /\ \A i \in 0..(n - 1) : Cardinality({j \in 0..(n - 1) : At(P, n, i, j) = 1}) = 1
                      /\ \A j \in 0..(n - 1) : Cardinality({i \in 0..(n - 1) : At(P, n, i, j) = 1}) = 1
\* enc = "V": Tensor<size_t,n> holding row numbers;  enc = "M": the n x n 0/1 matrix
IsBijection(P, n, enc) == IF enc = "V" THEN IsBijectionV(P, n) ELSE IsBijectionM(P, n)
PermOfMatrix(P, n) == [i \in 1..n |-> CHOOSE j \in 0..(n - 1) : At(P, n, i - 1, j) = 1]
MatrixOfPerm(p, n) == [q \in 1..(n * n) |-> IF p[(q - 1) \div n + 1] = (q - 1) % n THEN 1 ELSE 0]
InversePerm(p, n) == [i \in 1..n |-> (CHOOSE k \in 1..n : p[k] = i - 1) - 1]
\* (P A)[i] = A[p(i)]                 -- apply_pivot
ApplyPerm(A, n, m, p) == [q \in 1..(n * m) |-> A[p[(q - 1) \div m + 1] * m + ((q - 1) % m) + 1]]
\* the B with (P B) = A, i.e. B[p(i)] = A[i]   -- reconstruct
UnapplyPerm(A, n, m, p) == ApplyPerm(A, n, m, InversePerm(p, n))
\* matrix encoding: the product P*A
ApplyPermM(A, n, m, P) == Prod(P, A, n, n, m)
\* column form (A Pi)(:,j) = A(:,p(j))
ApplyPermCols(A, n, m, p) == [q \in 1..(n * m) |-> A[((q - 1) \div m) * m + p[((q - 1) % m) + 1] + 1]]

-----------------------------------------------------------------------------------------------------
(* The library's pivot is a STATIC PRE-PIVOT (unary_piv_op.h: pivot / pivot_inplace), transcribed:   *)
(*    perm = iota;  for j = 0..n-1:  max_index = j;                                                  *)
(*                                   for i = j..n-1: if |A(i,j)| > |A(max_index,j)| max_index = i;   *)
(*                                   if j != max_index: swap(perm(j), perm(max_index))               *)
(* The scan reads the ORIGINAL matrix (no row exchange during the scan), strict >, first maximum.     *)
(* It is used to CHOOSE inputs on which the pivoted strategies are defined (generator), never to       *)
(* judge an output: another pivoting rule would be just as correct.                                    *)
MaxIndex(A, n, j) == FoldLeft(LAMBDA mx, i : IF Abs(At(A, n, i, j)) > Abs(At(A, n, mx, j)) THEN i ELSE mx,
                              j, [t \in 1..(n - j) |-> j + t - 1])
SwapAt(p, a, b) == [p EXCEPT ![a + 1] = p[b + 1], ![b + 1] = p[a + 1]]
StaticPivot(A, n) == FoldLeft(LAMBDA p, j : LET mx == MaxIndex(A, n, j) IN IF mx = j THEN p ELSE SwapAt(p, j, mx),
                              Iota(n), Iota(n))

(* Domain of the factorisations WITHOUT pivoting: all leading blocks non-singular (and, for the bound  *)
(* to be meaningful, well conditioned).  Two sufficient conditions are decidable exactly on integers:   *)
(*  - strict diagonal dominance by rows and by columns;                                               *)
(*  - an explicit LU certificate  B = L0*U0, L0 unit lower, U0 upper with non-zero diagonal (every      *)
(*    leading minor is then the product of the leading diagonal entries of U0).                         *)
OffRowSum(B, n, i) == SumOver(LAMBDA j : IF j - 1 = i THEN 0 ELSE Abs(At(B, n, i, j - 1)), n)
OffColSum(B, n, j) == SumOver(LAMBDA i : IF i - 1 = j THEN 0 ELSE Abs(At(B, n, i - 1, j)), n)
DiagDominant(B, n) == \A i \in 0..(n - 1) : Abs(At(B, n, i, i)) > OffRowSum(B, n, i) /\ Abs(At(B, n, i, i)) > OffColSum(B, n, i)
LUCertificate(B, n, L0, U0) == /\ IsUnitLowerInt(L0, n, 1) /\ IsUpperInt(U0, n) /\ NonzeroDiag(U0, n)
                               /\ Prod(L0, U0, n, n, n) = B
\* non-singularity certificate of A = H diag(dg) H:  H H is a positive diagonal matrix (H is invertible) and no dg[i] is zero
HDHCertificate(A, n, H, dg) == /\ LET HH == Prod(H, H, n, n, n) IN \A i, j \in 0..(n - 1) : IF i = j THEN At(HH, n, i, j) > 0 ELSE At(HH, n, i, j) = 0
                               /\ \A i \in 0..(n - 1) : dg[i] # 0
                               /\ A = Prod([q \in 1..(n * n) |-> H[q] * dg[(q - 1) % n]], H, n, n, n)
\* cert = [kind |-> "dd"] or [kind |-> "lu", L0 |-> .., U0 |-> ..]
NoPivotDomain(B, n, cert) == IF cert.kind = "dd" THEN DiagDominant(B, n) ELSE LUCertificate(B, n, cert.L0, cert.U0)
(* Domain of the PIVOTED strategies: the row-pre-pivoted matrix is in the no-pivot domain.               *)
Admissible(A, n, cert) == LET p == StaticPivot(A, n)
                          IN IsBijectionV(p, n) /\ NoPivotDomain(ApplyPerm(A, n, n, p), n, cert)

-----------------------------------------------------------------------------------------------------
(* Bound judgement.  C = 16: ratios measured on the unchanged tree are 0.008 .. 0.25, an algorithmic   *)
(* error gives >= 10^6 (the logged value saturates at 10^9 - 1).                                       *)
CBound == 16
JudgeRatio(ratio_milli, C) == ratio_milli >= 0 /\ ratio_milli <= 1000 * C
(* Domain thresholds of the properties ("well conditioned", "growth below a threshold"): a case whose    *)
(* measured condition number or no-pivot growth exceeds them is counted and skipped, never failed.        *)
CondMax == 10000                 \* cond_inf(A)
GrowthMax == 16                  \* || |L||U| ||_inf / ||A||_inf of the reference (no-pivot) factors of the pivoted input
InDomain(cond_milli, growth_milli) == cond_milli <= 1000 * CondMax /\ growth_milli <= 1000 * GrowthMax
\* QR (C13: "condition number up to a moderate limit"): eps cond <= about 2e-8 in double (cond <= 1e8), as above in float.
\* cond_k = ceil(cond_inf / 1000) (the milli scale saturates at cond = 1e6)
QRCondMaxK(T) == IF T = "f64" THEN 100000 ELSE CondMax \div 1000
QRInDomain(T, cond_k) == cond_k <= QRCondMaxK(T)

-----------------------------------------------------------------------------------------------------
(* Exact identities on dyadic images.  X = Xs / 2^xs etc.; A stands for A / 2^sA.                      *)
InverseExact(A, sA, Xs, xs, n) == LET I2 == Scaled(2 ^ (sA + xs), Identity(n))
                                  IN Prod(A, Xs, n, n, n) = I2 /\ Prod(Xs, A, n, n, n) = I2
LUExact(PA, sA, Ls, ls, Us, us, n) == Scaled(2 ^ sA, Prod(Ls, Us, n, n, n)) = Scaled(2 ^ (ls + us), PA)
SolveExact(A, sA, Xs, xs, B, n, k) == Prod(A, Xs, n, n, k) = Scaled(2 ^ (sA + xs), B)
QRExact(PA, sA, Qs, qs, Rs, rs, n) == /\ Scaled(2 ^ sA, Prod(Qs, Rs, n, n, n)) = Scaled(2 ^ (qs + rs), PA)
                                      /\ Prod(Transposed(Qs, n, n), Qs, n, n, n) = Scaled(2 ^ (2 * qs), Identity(n))
DiagProduct(Rs, n) == FoldLeft(LAMBDA acc, i : acc * At(Rs, n, i, i), 1, Iota(n))
\* exact => (identity <=> measured residual is zero): the two arithmetics must agree
Consistent(exact, identity, ratio_milli) == exact = 1 => (identity <=> ratio_milli = 0)
=====================================================================================
