SPECIFICATION Spec
CONSTANTS MaxN = 260
INVARIANT InvOneClass
INVARIANT InvSplits
INVARIANT InvTiling
INVARIANT LUOneClass
INVARIANT LUSplits
INVARIANT LUTiling
INVARIANT Examples
CHECK_DEADLOCK FALSE
