SPECIFICATION MCSpec
CONSTANTS FullRank = 3
 HiKeep = 1
 V1Keep = 1
 CKeep = 1
 XKeep = 1
 MoreTypes = 0
 TKeep = 1
 I32Both = 1
 Budget = 5000
INVARIANT AllRoutesRefineL1
INVARIANT OneOverload
INVARIANT AllOffered
CHECK_DEADLOCK FALSE
