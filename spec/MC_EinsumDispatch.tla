------------------------------ MODULE MC_EinsumDispatch ------------------------------
(* Bounded exhaustive check of the L2 model EinsumDispatch against the L1 operator (Einsum):          *)
(* every pair of index lists of ranks 1..FullRank (no label more than twice, offered patterns), the     *)
(* forms einsum<I,J> and contraction<I,J>, element types f64 / i32, UNIFORM extents 4 (2 when there       *)
(* are more than four labels) -- so that every pattern whose last label qualifies is vectorised --         *)
(* and both vector settings (scalar build, SIMD build).                                                   *)
(*   INVARIANT AllRoutesRefineL1  the selected back end executes exactly the terms of the Einstein sum (no exemption;       *)
(*                                on the originally pinned tree TLC violated it with contraction<Index<0>,Index<1,1>>, see     *)
(*                                the history note in EinsumDispatch)                                                         *)
(*   INVARIANT OneOverload        the classifiers never select two back ends at once                                         *)
(*   INVARIANT AllOffered         no classifier evaluation indexes out of bounds (every pattern compiles)                     *)
EXTENDS GenEinsum

Uniform(labs, e) == [k \in 1..Len(labs) |-> e]
MCCase(form, T, p) ==
    LET e == IF NoOfUnique(p.la \o p.lb) <= 4 THEN 4 ELSE 2
    IN [form |-> form, T |-> T, la |-> p.la, lb |-> p.lb, sa |-> Uniform(p.la, e), sb |-> Uniform(p.lb, e), out |-> <<>>, v |-> 0]
MCCases == { MCCase(f, T, p) : f \in {"einsum", "contraction"}, T \in {"f64", "i32"}, p \in {p \in PairPats : IsFull(p)} }
MCInit == c \in MCCases
MCSpec == MCInit /\ [][Next]_c

AllRoutesRefineL1 ==
    LET ops == OpsOf(c)  r == RouteOfCase(c)
    IN \A isa \in {"scalar", "sse2"} : RouteRefinesL1(r, ops[1], ops[2], VecStride(c.T, isa, c.la, c.lb, c.sb))
\* at most one of the enable_if conditions of the einsum<I,J>(a,b) overload set holds (otherwise the call would be ambiguous)
AllOffered == \A p \in PairPats : Offered(p.la, p.lb)          \* all ranks 1..4
OneOverload ==
    LET pr == IsPairReduction(c.la, c.lb)  mv == IsMatVec(c.la, c.lb)  vm == IsVecMat(c.la, c.lb)  mm == MatMat(c.la, c.lb) = "t"
    IN Cardinality({k \in 1..4 : <<pr, mv, vm, mm>>[k]}) <= 1
=====================================================================================
