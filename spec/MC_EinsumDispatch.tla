------------------------------ MODULE MC_EinsumDispatch ------------------------------
(* Bounded exhaustive check of the L2 model EinsumDispatch against the L1 operator (Einsum):          *)
(* every pair of index lists of ranks 1..FullRank (no label more than twice, offered patterns), the     *)
(* forms einsum<I,J> and contraction<I,J>, element types f64 / i32, UNIFORM extents 4 (2 when there       *)
(* are more than four labels) -- so that every pattern whose last label qualifies is vectorised --         *)
(* and both vector settings (scalar build, SIMD build).                                                   *)
(*   MC_EinsumDispatch.cfg        INVARIANT AllRoutesRefineL1    -- no exemption: EXPECTED TO BE VIOLATED.   *)
(*        TLC finds by itself a call whose back end does not execute the terms of the Einstein sum          *)
(*        (defect classes trace_vectorised / trace_in_flat_route of EinsumDispatch, reported as findings).   *)
(*   MC_EinsumDispatch_sound.cfg  INVARIANT SoundRoutesRefineL1  -- outside the two classes the obligation    *)
(*        holds, and the classifiers never select two back ends at once.                                     *)
EXTENDS GenEinsum

Uniform(labs, e) == [k \in 1..Len(labs) |-> e]
MCCase(form, T, p) ==
    LET e == IF NoOfUnique(p.la \o p.lb) <= 4 THEN 4 ELSE 2
    IN [form |-> form, T |-> T, la |-> p.la, lb |-> p.lb, sa |-> Uniform(p.la, e), sb |-> Uniform(p.lb, e), out |-> <<>>, v |-> 0]
MCCases == { MCCase(f, T, p) : f \in {"einsum", "contraction"}, T \in {"f64", "i32"},
                               p \in {p \in PairPats : IsFull(p) /\ Offered(p.la, p.lb)} }
MCInit == c \in MCCases
MCSpec == MCInit /\ [][Next]_c

AllRoutesRefineL1 ==
    LET ops == OpsOf(c)  r == RouteOfCase(c)
    IN \A isa \in {"scalar", "sse2"} : RouteRefinesL1(r, ops[1], ops[2], VecStride(c.T, isa, c.la, c.lb, c.sb))
SoundRoutesRefineL1 == DispatchRefinesL1
\* at most one of the enable_if conditions of the einsum<I,J>(a,b) overload set holds (otherwise the call would be ambiguous)
OneOverload ==
    LET pr == IsPairReduction(c.la, c.lb)  mv == IsMatVec(c.la, c.lb)  vm == IsVecMat(c.la, c.lb)  mm == MatMat(c.la, c.lb) = "t"
    IN Cardinality({k \in 1..4 : <<pr, mv, vm, mm>>[k]}) <= 1
=====================================================================================
