SPECIFICATION Spec
INVARIANT RemainderExact
INVARIANT FallbackSameLanes
INVARIANT FallbackSameOnRemainder
INVARIANT Avx2Exact
INVARIANT ComplexSplitExact
INVARIANT WidthSuffices
CHECK_DEADLOCK FALSE
