---------------------------------- MODULE MC_Mask ----------------------------------
(* Exhaustive check of the Mask obligations: every element type x {sse, avx, avx512} x every remainder  *)
(* 0..Size, and every mask value (up to 2^8; for 16 lanes every value that survives the parameter type). *)
EXTENDS Mask
VARIABLES T, abi, rem
Init == T \in Types /\ abi \in Abis /\ rem \in 0..16 /\ rem <= Size(T, abi)
Next == UNCHANGED <<T, abi, rem>>
Spec == Init /\ [][Next]_<<T, abi, rem>>
N == Size(T, abi)
M == Passed(ArrayToMask(Maska(N, rem), N), T, abi)

\* L2 => L1: after array_to_mask and the conversion to the declared parameter type exactly the lanes 0..rem-1 are enabled
RemainderExact == LanesK(M, N) = Prefix(rem)
\* the fallback (mask_to_array) enables the same lanes as the AVX-512 instruction, for every mask value
FallbackSameLanes == \A m \in 0..((2 ^ (IF N <= 8 THEN N ELSE 8)) - 1) : LanesFallback(m, N) = LanesK(m, N)
FallbackSameOnRemainder == LanesFallback(M, N) = Prefix(rem)
\* AVX2 builds bypass the integer mask: maskload/maskstore build the vector mask from maska directly
Avx2Exact == LanesAvx2(Maska(N, rem), N) = Prefix(rem)
\* complex vectors: the two half masks enable exactly the real and imaginary element of every enabled complex lane
ComplexSplitExact == ~IsCxM(T) \/ N < 2 \/ (ElemsSplit(M, N) = ElemsOfLanes(Prefix(rem)) /\ ElemsAvx2Cx(Maska(N, rem), N) = ElemsOfLanes(Prefix(rem)))
\* the declared parameter type can address every lane
WidthSuffices == DeclBits(T, abi) >= N
=====================================================================================
