SPECIFICATION Spec
CONSTANT MaxRank = 2
INVARIANT CostMinimal
INVARIANT TieGoesToSecond
INVARIANT LaterOnlyIfStrictlyCheaper
CHECK_DEADLOCK FALSE
