------------------------------- MODULE MC_NetworkCost -------------------------------
(* Exhaustive check of the cost-model transcription (NetworkOrder!CostVariant) over all 3-operand       *)
(* index patterns of rank <= 3 on labels 1..5 (no label more than twice, at least one contraction)        *)
(* and all extent assignments in {2,3,4}: the chosen variant always has minimal cost, a tie between the     *)
(* first two candidates goes to the second (meta_argmin<m,n> = (m<n)?0:1), a later candidate wins only     *)
(* when strictly cheaper, and the single-loop-nest variant (3) is never cheaper than all pairwise orders   *)
(* when every extent is at least 2 and some label is contracted.                                           *)
EXTENDS NetworkOrder
CONSTANT MaxRank          \* 2 (quick: 128 canonical patterns) or 3 (thorough: 2021 canonical patterns, about 7 minutes)
VARIABLES i0, i1, i2, E
Labs == 1..5
Lists == {<<a>> : a \in Labs} \cup {p \in {<<a, b>> : a \in Labs, b \in Labs} : p[1] # p[2]}
         \cup (IF MaxRank >= 3 THEN {p \in {<<a, b, d>> : a \in Labs, b \in Labs, d \in Labs} : p[1] # p[2] /\ p[2] # p[3] /\ p[1] # p[3]} ELSE {})
OK(a, b, c) == LET L == a \o b \o c IN (\A p \in DOMAIN L : Occ(L, L[p]) <= 2) /\ (\E p \in DOMAIN L : Occ(L, L[p]) = 2)
                                     \* canonical labelling: labels are introduced in increasing order
                                     /\ \A p \in DOMAIN L : \A x \in 1..(L[p] - 1) : \E q \in 1..(p - 1) : L[q] = x
Init == i0 \in Lists /\ i1 \in Lists /\ i2 \in Lists /\ OK(i0, i1, i2) /\ E \in [Labs -> {2, 3, 4}]
Next == UNCHANGED <<i0, i1, i2, E>>
Spec == Init /\ [][Next]_<<i0, i1, i2, E>>
C == TripletCosts(i0, i1, i2, E)
V == CostVariant(i0, i1, i2, E)
MinC == Min2(Min2(C[1], C[2]), Min2(C[3], C[4]))
CostMinimal == V \in 0..3 /\ C[V + 1] = MinC
TieGoesToSecond == (C[1] = C[2] /\ C[1] = MinC) => V = 1
LaterOnlyIfStrictlyCheaper == /\ (V = 2 => C[3] < Min2(C[1], C[2]))
                              /\ (V = 3 => C[4] < Min2(Min2(C[1], C[2]), C[3]))
=======================================================================================
