SPECIFICATION Spec
CONSTANT MaxRank = 3
INVARIANT CostMinimal
INVARIANT TieGoesToSecond
INVARIANT LaterOnlyIfStrictlyCheaper
CHECK_DEADLOCK FALSE
