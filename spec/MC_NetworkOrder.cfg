SPECIFICATION Spec
INVARIANT SameLabelSet
CHECK_DEADLOCK FALSE
