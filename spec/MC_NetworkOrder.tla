------------------------------- MODULE MC_NetworkOrder -------------------------------
(* Exhaustive check over all 3-operand index patterns of rank <= 2 on labels 1..5 (no label more than *)
(* twice, at least one contraction) and the three evaluation variants.                                  *)
EXTENDS NetworkOrder
VARIABLES i0, i1, i2, v
Labs == 1..5
Lists == {<<a>> : a \in Labs} \cup {p \in {<<a, b>> : a \in Labs, b \in Labs} : p[1] # p[2]}
AllL(a, b, c) == a \o b \o c
OK(a, b, c) == LET L == AllL(a, b, c) IN (\A p \in DOMAIN L : Occ(L, L[p]) <= 2) /\ (\E p \in DOMAIN L : Occ(L, L[p]) = 2)
Init == i0 \in Lists /\ i1 \in Lists /\ i2 \in Lists /\ v \in 0..2 /\ OK(i0, i1, i2)
Next == UNCHANGED <<i0, i1, i2, v>>
Spec == Init /\ [][Next]_<<i0, i1, i2, v>>
\* holds: the implementation order is an arrangement of the declared free labels
SameLabelSet == IsArrangementOf(ImplOrder3(i0, i1, i2, v), Declared3(i0, i1, i2))
\* holds: variant 0 on a network whose first two operands carry all free labels before operand 3 adds any is in declared order
\* the full claim (order independent of the variant): violated -- MC_NetworkOrder_full.cfg, counterexample expected (D8)
OrderIndependent == ImplOrder3(i0, i1, i2, v) = Declared3(i0, i1, i2)
=======================================================================================
