SPECIFICATION Spec
INVARIANT OrderIndependent
CHECK_DEADLOCK FALSE
