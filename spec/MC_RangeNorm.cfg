SPECIFICATION Spec
CONSTANT NMax = 12
INVARIANT NormAgree
INVARIANT InBounds
INVARIANT ExtentOK
INVARIANT IntLast
CHECK_DEADLOCK FALSE
