--------------------------------- MODULE MC_RangeNorm ---------------------------------
(* L2 design model RangeNorm: the three-way negative-bound handling of the view constructors      *)
(* (tensor_views_2d.h / _nd.h), the two-way form of the 1-D constructor, `to_positive` for         *)
(* compile-time ranges and seq::size()'s truncating division.  Obligation (exhaustive for axis     *)
(* extents n <= NMax): on every ADMISSIBLE encoding each of them equals the documented meaning      *)
(* (TensorMachine!RFirst/RLast/Extent), the normalised range is inside the axis, and the extent is   *)
(* ceil((last-first)/step).  One state per (n, f, l, s).                                            *)
EXTENDS TensorMachine
CONSTANT NMax
VARIABLES n, f, l, s

\* view constructors of rank >= 2 (and to_positive): three cases
Ctor3(ff, ll, nn) == IF ll < 0 /\ ff >= 0 THEN <<ff, ll + nn + 1>>
                     ELSE IF ll = 0 /\ ff = -1 THEN <<nn - 1, nn>>
                     ELSE IF ll < 0 /\ ff < 0 THEN <<ff + nn + 1, ll + nn + 1>>
                     ELSE <<ff, ll>>
\* rank-1 constructor: two independent cases
Ctor1(ff, ll, nn) == <<IF ff < 0 THEN ff + nn + 1 ELSE ff, IF ll < 0 THEN ll + nn + 1 ELSE ll>>
\* seq::size(): C++ truncating division
SeqSize(ff, ll, ss) == LET rg == ll - ff IN IF rg % ss = 0 THEN rg \div ss ELSE (rg \div ss) + 1

Init == n \in 1..NMax /\ f \in (0 - NMax - 1)..NMax /\ l \in (0 - NMax - 1)..NMax /\ s \in 1..4
Next == UNCHANGED <<n, f, l, s>>
Spec == Init /\ [][Next]_<<n, f, l, s>>

R == [k |-> "seq", f |-> f, l |-> l, s |-> s]
Adm == Admissible(R, n)
NormAgree == Adm => /\ Ctor3(f, l, n) = <<RFirst(R, n), RLast(R, n)>>
                    /\ Ctor1(f, l, n) = <<RFirst(R, n), RLast(R, n)>>
InBounds  == Adm => LET c == Ctor3(f, l, n) IN c[1] >= 0 /\ c[1] < c[2] /\ c[2] <= n
ExtentOK  == Adm => LET c == Ctor3(f, l, n) IN
                      /\ SeqSize(c[1], c[2], s) = Extent(R, n)
                      /\ (Extent(R, n) - 1) * s + c[1] < c[2]                  \* last selected index inside the range
                      /\ Extent(R, n) * s + c[1] >= c[2]                        \* and no further index fits
\* bare integer -1 in a slice: seq(-1) = (first -1, last 0) -> the last element
IntLast == Ctor3(-1, 0, n) = <<n - 1, n>>
=========================================================================================
