SPECIFICATION Spec
CONSTANTS NSmall = 4
 NBig = 34
 BigStep = 4
INVARIANT Refines
INVARIANT SeedAbsorbed
INVARIANT MinMaxLeak
INVARIANT LadderTiles
CHECK_DEADLOCK FALSE
