------------------------------- MODULE MC_ReduceDesign -------------------------------
(* L2 design model of the library's reduction scheme (AbstractTensorFunctions.h sum / product /    *)
(* min / max, TensorMethods.h sum() / product(), norm.h / unary_norm_op.h):                          *)
(*     V lane accumulators seeded with `seed`, one per SIMD lane, combined with the full blocks       *)
(*     x[0..V), x[V..2V), ...;  a scalar accumulator seeded with `seed` for the tail                  *)
(*     x[ROUND_DOWN(n,V)..n);  a horizontal step over the lanes;  result = op(horizontal, tail).      *)
(* Obligations, checked exhaustively for the bounded domain below (one state per (op, V, x)):         *)
(*   Refines        with the NEUTRAL seed of op on the value domain (0, 1, top, bottom) the scheme    *)
(*                  equals the L1 fold of Reduce for every n, every V and every residue n mod V        *)
(*   SeedAbsorbed   for any seed s the scheme computes the fold of x WITH s mixed in:                  *)
(*                  min/max: op(s, fold x);  sum: fold x + (V+1) s;  product: fold x * s^(V+1)          *)
(*                  -- so a seed that is not neutral (0 for min, the smallest positive float or 0 for   *)
(*                  max: finding D3) returns a value that is NOT an element of the input exactly when   *)
(*                  every element is on the wrong side of it (MinMaxLeak)                               *)
(*   LadderTiles    the unrolled ladder of the norm kernels (strides 8V [AVX-512 only], 4V, 2V, V, 1)   *)
(*                  visits every index exactly once                                                     *)
(* A mismatch between this model and the code is MODEL-DRIFT, never a violation: the judge is L1.      *)
EXTENDS Reduce, FiniteSets
CONSTANTS NSmall,     \* all value vectors over Dom for n <= NSmall
          NBig,       \* single-distinguished-element vectors for n <= NBig ...
          BigStep     \* ... with n = 1 mod BigStep or n a vector width (1 = every n)
VARIABLES op, V, x

Dom == {0 - 2, 0 - 1, 1, 2}
Top == 3              \* numeric_limits<T>::max() of the bounded value domain
Bot == 0 - 3          \* numeric_limits<T>::lowest()
Ops == {"sum", "product", "min", "max"}
Widths == {1, 2, 4, 8, 16}

Op(o, a, b) == CASE o = "sum" -> a + b [] o = "product" -> a * b [] o = "min" -> Lesser(a, b) [] o = "max" -> Greater(a, b)
L1(o, y) == CASE o = "sum" -> FoldSum(y) [] o = "product" -> FoldProduct(y) [] o = "min" -> FoldMin(y) [] o = "max" -> FoldMax(y)
Neutral(o) == CASE o = "sum" -> 0 [] o = "product" -> 1 [] o = "min" -> Top [] o = "max" -> Bot

RoundDown(n, w) == (n \div w) * w
\* lane j after all full blocks
Lane(o, seed, y, w, j) == FoldLeft(LAMBDA acc, b : Op(o, acc, y[(b - 1) * w + j]), seed, [b \in 1..(Len(y) \div w) |-> b])
ScalarTail(o, seed, y, w) == FoldLeft(LAMBDA acc, i : Op(o, acc, y[i]), seed,
                                      [k \in 1..(Len(y) - RoundDown(Len(y), w)) |-> RoundDown(Len(y), w) + k])
\* horizontal step: fold of op over the lanes (the per-ABI helpers of extintrin.h / SIMDVector::sum, product, minimum, maximum)
Horizontal(o, lanes) == FoldLeft(LAMBDA acc, v : Op(o, acc, v), lanes[1], SubSeq(lanes, 2, Len(lanes)))
Scheme(o, seed, y, w) == Op(o, Horizontal(o, [j \in 1..w |-> Lane(o, seed, y, w, j)]), ScalarTail(o, seed, y, w))
\* Tensor::sum() / product() return _data[0] for one-element tensors and run the scheme otherwise
Member(o, y, w) == IF Len(y) = 1 THEN y[1] ELSE Scheme(o, Neutral(o), y, w)

\* the norm ladder: chunks <<start, width>> (0-based start) in the order the loops produce them
RECURSIVE Ladder(_, _, _)
Ladder(i, n, strides) == IF strides = <<>> THEN <<>>
                         ELSE LET s == strides[1]
                              IN IF i + s <= RoundDown(n, s) THEN <<<<i, s>>>> \o Ladder(i + s, n, strides)
                                 ELSE Ladder(i, n, SubSeq(strides, 2, Len(strides)))
Covered(chunks, n) == [q \in 0..(n - 1) |-> Cardinality({c \in 1..Len(chunks) : chunks[c][1] <= q /\ q < chunks[c][1] + chunks[c][2]})]

SmallVectors == UNION { [1..n -> Dom] : n \in 1..NSmall }
BigVectors == UNION { { [i \in 1..n |-> IF i = p THEN e ELSE g] : p \in 1..n, e \in {0 - 1, 2}, g \in {0 - 1, 2} } : n \in {m \in (NSmall + 1)..NBig : m % BigStep = 1 % BigStep \/ m \in Widths \/ m - 1 \in Widths} }
Init == op \in Ops /\ V \in Widths /\ x \in SmallVectors \cup BigVectors
Next == UNCHANGED <<op, V, x>>
Spec == Init /\ [][Next]_<<op, V, x>>

Fits == op = "product" => Len(x) <= 12          \* 32-bit TLC integers: |product| * seed^(V+1) < 2^31
Refines == Fits => /\ Scheme(op, Neutral(op), x, V) = L1(op, x)
                   /\ (op \in {"sum", "product"} => Member(op, x, V) = L1(op, x))
SeedAbsorbed ==
    Fits => \A s \in {0 - 1, 0, 1, 2} :
       Scheme(op, s, x, V) = CASE op \in {"min", "max"} -> Op(op, s, L1(op, x))
                               [] op = "sum" -> L1(op, x) + (V + 1) * s
                               [] op = "product" -> L1(op, x) * Pow(s, V + 1)
\* the characterisation of D3: with seed 0 the result is not an element of the input iff all elements are positive (min) / negative (max)
MinMaxLeak == op \in {"min", "max"} =>
                 (IsElementOf(Scheme(op, 0, x, V), x) <=> ~(\A i \in 1..Len(x) : IF op = "min" THEN x[i] > 0 ELSE x[i] < 0))
LadderTiles == \A strides \in {<<8 * V, 4 * V, 2 * V, V, 1>>, <<4 * V, 2 * V, V, 1>>, <<V, 1>>} :
                  \A q \in 0..(Len(x) - 1) : Covered(Ladder(0, Len(x), strides), Len(x))[q] = 1
=========================================================================================
