SPECIFICATION Spec
CONSTANTS NSmall = 6
 NBig = 34
 BigStep = 1
INVARIANT Refines
INVARIANT SeedAbsorbed
INVARIANT MinMaxLeak
INVARIANT LadderTiles
CHECK_DEADLOCK FALSE
