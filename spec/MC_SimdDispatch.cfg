SPECIFICATION Spec
INVARIANT SizeOK
INVARIANT FractionOK
CHECK_DEADLOCK FALSE
