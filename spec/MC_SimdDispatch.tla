-------------------------------- MODULE MC_SimdDispatch --------------------------------
(* Exhaustive check of the SimdDispatch obligations over  types x ISAs x N in 1..80.           *)
(* One state per (T, isa, N) so that the state count is the number of dispatch decisions.      *)
EXTENDS SimdDispatch
VARIABLES T, isa, N
Init == T \in Types /\ isa \in ISAs /\ N \in 1..80
Next == UNCHANGED <<T, isa, N>>
Spec == Init /\ [][Next]_<<T, isa, N>>
SizeOK  == BestSize(T, isa, N) >= 1 /\ BestSize(T, isa, N) <= SizeOf(T, Native(isa))
\* a fraction type is a half or a quarter of the native register (8 \div 3 = 2 counts as "half": N = 3 floats under
\* AVX get the 4-lane SSE type -- integer division in is_exact_multiple_of_smaller_simd, harmless since 4 >= 3)
FractionOK == LET b == SizeOf(T, BestAbi(T, isa, N))  n == SizeOf(T, Native(isa)) IN b = n \/ 2 * b = n \/ 4 * b = n
=========================================================================================
