SPECIFICATION Spec
INVARIANT RefinesWithoutAlias
INVARIANT RefinesTensorSet
INVARIANT RefinesMulForms
CHECK_DEADLOCK FALSE
