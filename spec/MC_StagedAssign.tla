------------------------------- MODULE MC_StagedAssign -------------------------------
(* Exhaustive check of the staged-assignment design model against L1 on 2x2 integer matrices:        *)
(* every tree of depth <= 2 over leaves A, B, C, D and nodes + - * (element-wise), % and trans,         *)
(* every operator, both destination kinds.  One state per (operator, tree, destination kind).           *)
EXTENDS StagedAssign
VARIABLES x, e, dest
Lf(nm) == [k |-> "t", n |-> nm]
Bn(k, l, r) == [k |-> k, l |-> l, r |-> r]
T0 == {Lf("A"), Lf("B"), Lf("D")}
Ops2 == {"add", "sub", "mul", "mm"}
T1 == T0 \cup {Bn(k, l, r) : k \in Ops2, l \in T0, r \in T0} \cup {[k |-> "trans", x |-> l] : l \in T0}
T2 == T1 \cup {Bn(k, l, r) : k \in {"add", "sub", "mul"}, l \in T1, r \in T1}
Env0 == [A |-> <<1, 2, 3, 5>>, B |-> <<2, -1, 1, 3>>, D |-> <<3, 1, -1, 2>>]
\* the property's domain: D may appear as an ELEMENT-WISE operand only (never inside % or trans)
RECURSIVE DElementwiseOnly(_)
DElementwiseOnly(t) == CASE t.k = "t" -> TRUE
                         [] t.k \in {"add", "sub", "mul"} -> DElementwiseOnly(t.l) /\ DElementwiseOnly(t.r)
                         [] t.k = "mm" -> ~Alias(t)
                         [] OTHER -> ~Alias(t)
Init == x \in {"set", "add", "sub", "mul"} /\ e \in {t \in T2 : DElementwiseOnly(t)} /\ dest \in {"tensor", "map"}
Next == UNCHANGED <<x, e, dest>>
Spec == Init /\ [][Next]_<<x, e, dest>>

Refines == Staged(x, e, Env0, 2, dest) = Expected(x, e, Env0, 2)
\* obligations that hold (checked in MC_StagedAssign.cfg)
RefinesWithoutAlias == ~Alias(e) => Refines
RefinesTensorSet    == (x = "set" /\ dest = "tensor") => Refines
RefinesMulForms     == x = "mul" => Refines
\* the full claim (LazyEqEager at design level): violated -- checked in MC_StagedAssign_full.cfg, counterexample expected
LazyEqEager == Refines
=======================================================================================
