SPECIFICATION Spec
INVARIANT LazyEqEager
CHECK_DEADLOCK FALSE
