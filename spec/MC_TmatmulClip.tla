-------------------------------- MODULE MC_TmatmulClip --------------------------------
(* Exhaustive bounded check of the TmatmulClip obligations: one state per                        *)
(*    (M, K, N, LhsTag, RhsTag, (V, masked))        M, K, N in Dims, all 9 tag pairs,        *)
(* where (V, masked) ranges over every (vector width, kernel) pair that some primitive element    *)
(* type reaches for this N under some ISA (SimdDispatch!BestSize, TmatmulClip!TMasked).           *)
EXTENDS TmatmulClip
CONSTANTS Dims, Refine      \* Refine = 1: also evaluate OnesRefinement (cell by cell) when M*K*N <= RefineMax
VARIABLES M, K, N, lt, rt, vm

DimsQuick == (1..13) \cup {16, 17, 24}
DimsThorough == 1..24
PrimTypes == {"f32", "f64", "i32", "i64"}
VMs(n) == { <<BestSize(T, isa, n), TMasked(isa, n, BestSize(T, isa, n))>> : T \in PrimTypes, isa \in ISAs }

\* Two levels so that TLC's workers share the load (initial states are evaluated by one thread): the 0-th level
\* fixes (M, K) with N = 0 (no case yet), the step chooses N, the tags and the (V, kernel) pair.
Init == /\ M \in Dims /\ K \in Dims /\ N = 0
        /\ lt = "General" /\ rt = "General" /\ vm = <<1, FALSE>>
Next == /\ N = 0
        /\ N' \in Dims /\ lt' \in Tags /\ rt' \in Tags
        /\ vm' \in VMs(N')
        /\ UNCHANGED <<M, K>>
Spec == Init /\ [][Next]_<<M, K, N, lt, rt, vm>>

ClipOK   == N = 0 \/ ClipContainsSupport(M, K, N, lt, rt, vm[1], vm[2])
StoredOK == N = 0 \/ EveryElementStored(M, N, vm[1], vm[2])
NonPrimOK == N = 0 \/ vm # <<1, FALSE>> \/ NonPrimExact(M, K, N, lt, rt)     \* evaluated once per (M,K,N,tags)
RefineOK == N = 0 \/ Refine = 0 \/ M * K * N > 1000 \/ OnesRefinement(M, K, N, lt, rt, vm[1], vm[2])
=========================================================================================
