SPECIFICATION Spec
CONSTANTS Dims <- DimsQuick
 Refine = 0
INVARIANT ClipOK
INVARIANT StoredOK
INVARIANT NonPrimOK
INVARIANT RefineOK
CHECK_DEADLOCK FALSE
