SPECIFICATION Spec
CONSTANTS Dims <- DimsThorough
 Refine = 1
INVARIANT ClipOK
INVARIANT StoredOK
INVARIANT NonPrimOK
INVARIANT RefineOK
CHECK_DEADLOCK FALSE
