------------------------------------ MODULE Mask ------------------------------------
(* L2 design model (C08): the remainder-mask pipeline between the kernels and the masked vector   *)
(* loads/stores -- a transcription of Fastor's own code, checked exhaustively (MC_Mask) against    *)
(* the L1 statement "exactly the lanes 0..rem-1 are enabled".                                      *)
(*                                                                                                *)
(*  kernels (matmul_kernels.h, matmul_mk_smalln.h, tmatmul.h):                                     *)
(*      int maska[V::Size]; std::fill(maska, &maska[V::Size], -1);                                 *)
(*      for (jj = 0; jj < V::Size - (N-N1); ++jj) maska[jj] = 0;       // rem = N - N1             *)
(*      AVX-512 builds:  mask = array_to_mask(maska);  v.mask_load(p, mask); v.mask_store(p, mask)  *)
(*      AVX2 builds   :  maskload<V>(p, maska) / maskstore(p, maska, v)  (_mm*_set_epi32(maska[0..]))*)
(*  extintrin.h: array_to_mask<N> returns uint8_t for N in {2,4,8}, uint16_t for N = 16 and sets    *)
(*      bit N-1-i for maska[i] == -1;  mask_to_array is its inverse (fallback path);                *)
(*      split_mask<Size> duplicates bit k of a complex-lane mask onto the two real elements          *)
(*  simd_vector_*.h: the declared type of the `mask` parameter of mask_load / mask_store.            *)
(* A mismatch between this transcription and the code is MODEL-DRIFT (reported through the recorded  *)
(* Meta events: declared mask width per (T, ABI)), never a violation; L1 (Simd.tla) is the judge.    *)
EXTENDS Integers, Sequences, FiniteSets

Types == {"f32", "f64", "i32", "i64", "c32", "c64"}
Abis == {"sse", "avx", "avx512"}
CBits(T) == IF T \in {"f32", "i32", "c32"} THEN 32 ELSE 64
RBits(abi) == CASE abi = "sse" -> 128 [] abi = "avx" -> 256 [] abi = "avx512" -> 512
Size(T, abi) == RBits(abi) \div CBits(T)
IsCxM(T) == T \in {"c32", "c64"}

\* declared width in bits of the mask parameter of SIMDVector<T,ABI>::mask_load / mask_store
\* (uint16_t for the 16-lane AVX-512 vectors, uint8_t for the other intrinsic ABIs; the generic/fixed_size implementation picks the type from its lane count)
DeclBits(T, abi) == IF abi = "avx512" /\ T \in {"f32", "i32", "c32"} THEN 16 ELSE 8

Bit(m, j) == (m \div (2 ^ j)) % 2 = 1
RECURSIVE SumOver(_, _)
SumOver(f, n) == IF n = 0 THEN 0 ELSE f[n - 1] + SumOver(f, n - 1)          \* sum_{i=0..n-1} f[i]

\* the kernels' array for a remainder of `rem` lanes (index 0..N-1)
Maska(N, rem) == [j \in 0..(N - 1) |-> IF j < N - rem THEN 0 ELSE 0 - 1]
\* array_to_mask<N>: c |= 1 << (N-i-1) for b[i] == -1, returned through uint8_t (N <= 8) or uint16_t (N = 16)
RetBits(N) == IF N <= 8 THEN 8 ELSE 16
ArrayToMask(b, N) == SumOver([i \in 0..(N - 1) |-> IF b[i] = 0 - 1 THEN 2 ^ (N - i - 1) ELSE 0], N) % (2 ^ RetBits(N))
\* argument conversion to the declared parameter type
Passed(m, T, abi) == m % (2 ^ DeclBits(T, abi))
\* the lanes an implementation enables for a mask value m
LanesK(m, N) == {j \in 0..(N - 1) : Bit(m, j)}                                       \* AVX-512 k-register: bit j <-> lane j
MaskToArray(m, N) == [i \in 0..(N - 1) |-> IF Bit(m, N - i - 1) THEN 0 - 1 ELSE 0]     \* fallback: b[i] = (c & (1 << (N-i-1))) != 0, times -1
LanesFallback(m, N) == {N - i - 1 : i \in {i \in 0..(N - 1) : MaskToArray(m, N)[i] = 0 - 1}}   \* ... if (maska[i] == -1) lane[N-i-1] = a[N-i-1]
LanesAvx2(b, N) == {j \in 0..(N - 1) : b[N - 1 - j] = 0 - 1}                         \* _mm*_set_epi32(maska[0], ..., maska[N-1]): element N-1-k <- maska[k]
\* split_mask<N>(mask, mask0, mask1): real element 2k and 2k+1 of the low half <- bit k, of the high half <- bit N/2+k
Split0(m, N) == SumOver([e \in 0..(N - 1) |-> IF Bit(m, e \div 2) THEN 2 ^ e ELSE 0], N)
Split1(m, N) == SumOver([e \in 0..(N - 1) |-> IF Bit(m, (N \div 2) + (e \div 2)) THEN 2 ^ e ELSE 0], N)
\* real elements (0..2N-1, interleaved re,im) enabled by the two half masks: low half = elements 0..N-1, high half = N..2N-1
ElemsSplit(m, N) == LanesK(Split0(m, N), N) \cup {N + e : e \in LanesK(Split1(m, N), N)}
ElemsOfLanes(L) == UNION {{2 * j, 2 * j + 1} : j \in L}
\* avx2 maskload for complex: mask0 = set(maska[N/2], maska[N/2], ..., maska[N-1], maska[N-1]) on the low half, mask1 = (maska[0], maska[0], ..)
ElemsAvx2Cx(b, N) == {e \in 0..(N - 1) : b[N - 1 - (e \div 2)] = 0 - 1} \cup {N + e : e \in {e \in 0..(N - 1) : b[(N \div 2) - 1 - (e \div 2)] = 0 - 1}}

Prefix(rem) == 0..(rem - 1)
=====================================================================================
