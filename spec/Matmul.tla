---------------------------------- MODULE Matmul ----------------------------------
(* L1 semantics of the matrix product (C01, C17, used by C09): what matmul / operator%         *)
(* denote, independent of any kernel.  Matrices are row-major sequences.                       *)
EXTENDS VT

\* C(i,j) = sum_k A(i,k) * B(k,j)      i in 0..M-1, j in 0..N-1, flat position p = i*N + j + 1
Product(A, B, M, K, N, cx) ==
    [p \in 1..(M * N) |->
        LET i == (p - 1) \div N
            j == (p - 1) % N
        IN SumTo(LAMBDA k : Mul(A[i * K + k], B[(k - 1) * N + j + 1], cx), K, cx)]

\* destination after  D aop= A % B   given its previous contents
Assigned(aop, pre, A, B, M, K, N, cx) ==
    LET P == Product(A, B, M, K, N, cx)
    IN [p \in 1..(M * N) |-> Comb(aop, pre[p], P[p], cx)]

\* Triangular views of an operand: what tmatmul may assume about it
IsLower(A, M, N) == \A p \in 1..(M * N) : ((p - 1) % N > (p - 1) \div N) => A[p] = 0
IsUpper(A, M, N) == \A p \in 1..(M * N) : ((p - 1) % N < (p - 1) \div N) => A[p] = 0
=====================================================================================
