--------------------------------- MODULE MatmulDesign ---------------------------------
(* L2 design model of the matrix-product decomposition (matmul.h, matmul_kernels.h):            *)
(*   Route        -- the branch ladder of _matmul                                               *)
(*   BaseTiles    -- the store tiles of _matmul_base / _matmul_base_masked (M0,M1,N0,N1 blocks)  *)
(* and the obligations that make the decomposition a refinement of Matmul!Product:               *)
(*   every element (i,j) of C is stored by exactly one tile, no tile leaves [0,M) x [0,N),      *)
(*   every B load of a tile stays inside the row it reads unless it is masked.                  *)
EXTENDS SimdDispatch, FiniteSets

Prim(T) == T \in {"f32", "f64", "i32", "i64"}

Route(T, isa, M, K, N) ==
    LET V == BestSize(T, isa, N) IN
    IF M # K /\ M = N /\ M \in {2, 3, 4, 8} /\ T \in {"f32", "f64"} THEN "special"
    ELSE IF ~Prim(T) THEN "nonprim"
    ELSE IF N = 1 THEN "matvec"
    ELSE IF (N = V \/ N = 2 * V \/ N = 3 * V \/ N = 4 * V \/ N = 5 * V) /\ V # 1 THEN "smalln_exact"
    ELSE IF (HasAVX2(isa) \/ HasMasks(isa)) /\ N < 5 * V THEN "smalln_masked"
    ELSE IF (HasAVX2(isa) \/ HasMasks(isa)) /\ M * N * K > 27 /\ N % V <= 1 THEN "base"
    ELSE IF (HasAVX2(isa) \/ HasMasks(isa)) /\ M * N * K > 27 THEN "base_masked"
    ELSE IF M * N * K > 27 THEN "base"
    ELSE "tiny"

\* ---- tiles of _matmul_base(_masked): a tile is [i0, rows, j0, w, kind] storing C[i0..i0+rows) x [j0..j0+w)
NumRows(M, V, outer) == IF outer # 0 THEN outer ELSE IF M % 12 = 0 THEN 3 ELSE IF M < 2 * V THEN 1 ELSE 2
NumCols(M, N, V, inner) == IF inner # 0 THEN inner ELSE IF N % (3 * V) = 0 /\ M % (3 * V) = 0 /\ N > 24 THEN 3 ELSE 2

ColTiles(N, V, nc, masked) ==
    LET ib == nc * V
        N0 == (N \div ib) * ib
        N1 == (N \div V) * V
    IN  { [j0 |-> j, w |-> ib, kind |-> "vec"] : j \in {x \in 0..(N - 1) : x < N0 /\ x % ib = 0} }
   \cup { [j0 |-> j, w |-> V,  kind |-> "vec"] : j \in {x \in 0..(N - 1) : x >= N0 /\ x < N1 /\ (x - N0) % V = 0} }
   \cup (IF masked
         THEN (IF N > N1 THEN { [j0 |-> N1, w |-> N - N1, kind |-> "mask"] } ELSE {})
         ELSE { [j0 |-> j, w |-> 1, kind |-> "scalar"] : j \in N1..(N - 1) })

RowTiles(M, V, outer) ==
    LET nr == NumRows(M, V, outer)
        ob == nr * 4
        M0 == (M \div ob) * ob
        M1 == (M \div 4) * 4
    IN  { [i0 |-> i, rows |-> ob] : i \in {x \in 0..(M - 1) : x < M0 /\ x % ob = 0} }
   \cup { [i0 |-> i, rows |-> 4]  : i \in {x \in 0..(M - 1) : x >= M0 /\ x < M1 /\ (x - M0) % 4 = 0} }
   \cup (IF M > M1 THEN { [i0 |-> M1, rows |-> M - M1] } ELSE {})

BaseTiles(M, N, V, outer, inner, masked) ==
    { [i0 |-> r.i0, rows |-> r.rows, j0 |-> c.j0, w |-> c.w, kind |-> c.kind] :
         r \in RowTiles(M, V, outer), c \in ColTiles(N, V, NumCols(M, N, V, inner), masked) }

Covers(t, i, j) == t.i0 <= i /\ i < t.i0 + t.rows /\ t.j0 <= j /\ j < t.j0 + t.w

\* the obligations.  Tiles are the product RowTiles x ColTiles, so they partition [0,M) x [0,N) iff the row
\* tiles partition [0,M) and the column tiles partition [0,N); the 1-D form keeps the check linear.
RowsPartition(M, rt) == \A i \in 0..(M - 1) : Cardinality({t \in rt : t.i0 <= i /\ i < t.i0 + t.rows}) = 1
ColsPartition(N, ct) == \A j \in 0..(N - 1) : Cardinality({t \in ct : t.j0 <= j /\ j < t.j0 + t.w}) = 1
RowsInside(M, rt) == \A t \in rt : t.i0 >= 0 /\ t.rows >= 1 /\ t.i0 + t.rows <= M
ColsInside(N, ct) == \A t \in ct : t.j0 >= 0 /\ t.w >= 1 /\ t.j0 + t.w <= N
TilesPartition(M, N, tiles) ==
    \A i \in 0..(M - 1), j \in 0..(N - 1) : Cardinality({t \in tiles : Covers(t, i, j)}) = 1
TilesInside(M, N, tiles) ==
    \A t \in tiles : t.i0 >= 0 /\ t.i0 + t.rows <= M /\ t.j0 >= 0 /\ t.j0 + t.w <= N
\* a vector tile of width w loads b[k*N + j0 .. j0 + w): inside row k iff j0 + w <= N (same as TilesInside);
\* a masked tile loads V lanes at j0 of which only the first (N - N1) are enabled.
MaskLanes(N, V) == LET rem == N - (N \div V) * V IN { ln \in 0..(V - 1) : ln < rem }
=======================================================================================
