---------------------------------- MODULE Memory ----------------------------------
(* L1 statement of the memory contract (C07) over an abstract memory.                             *)
(* An operation has operand objects and a result object; each object is an interval of bytes.      *)
(* The harness places every object so that its last byte (resp. first byte) abuts an inaccessible    *)
(* guard page, with canary words on the mapped side, counts heap calls made during the library call,  *)
(* and turns a hardware fault into an observation instead of a crash.  The specification states what   *)
(* a conforming execution of one call looks like; TLC evaluates it on every recorded call:             *)
(*   NoFault     no access outside the mapped objects happened (guard page not touched)                 *)
(*   Frame       canaries adjacent to the objects keep their value                                       *)
(*   NoHeap      no dynamic allocation during a call that completes normally                            *)
(*   Value       the call still computes its L1 value when operands sit at this address/misalignment     *)
(*   CheckedIndexRaises   with runtime checks on, an out-of-range index raises and touches nothing       *)
(* What a state-based specification cannot see -- an over-read that stays inside mapped memory that is    *)
(* not a canary -- is outside this contract's observation channel (DESIGN section 0).                    *)
EXTENDS VT, FiniteSets

\* observation of one call
NoFault(o)  == o.fault = 0
NoHeap(o)   == o.allocs = 0
FrameOK(o)  == o.canary = 1                       \* every canary word intact (the harness compares words, reports a bit)
\* L1 values of the operations exercised in placement mode (small integer data, exact)
SumOf(a) == SumTo(LAMBDA i : a[i], Len(a), FALSE)
DotOf(a, b) == SumTo(LAMBDA i : a[i] * b[i], Len(a), FALSE)
SqNorm(a) == DotOf(a, a)
Axpy(s, a, b) == [i \in 1..Len(a) |-> s * a[i] + b[i]]
MinOf(a) == CHOOSE m \in {a[i] : i \in 1..Len(a)} : \A i \in 1..Len(a) : m <= a[i]
MaxOf(a) == CHOOSE m \in {a[i] : i \in 1..Len(a)} : \A i \in 1..Len(a) : m >= a[i]
RevOf(a) == [i \in 1..Len(a) |-> a[Len(a) + 1 - i]]
MatMulOf(a, b, M, K, N) == [p \in 1..(M * N) |-> LET i == (p - 1) \div N  j == (p - 1) % N
                             IN SumTo(LAMBDA k : a[i * K + k] * b[(k - 1) * N + j + 1], K, FALSE)]
TransOf(a, M, N) == [p \in 1..(M * N) |-> LET i == (p - 1) \div M  j == (p - 1) % M IN a[j * N + i + 1]]     \* result N x M

\* index checking: idx is a multi-index (possibly negative = from the end); InRange as the API defines it
InRange(shape, idx) == \A a \in 1..Len(shape) : idx[a] >= 0 - shape[a] /\ idx[a] < shape[a]
=====================================================================================
