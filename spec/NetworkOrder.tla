--------------------------------- MODULE NetworkOrder ---------------------------------
(* L2 design model of the multi-operand einsum (network_contraction.h): a 3-operand network is     *)
(* evaluated as two pairwise einsums in the order chosen by the flop cost model (which_variant),      *)
(* and each pairwise einsum orders ITS free labels by first appearance in ITS two lists.  So the       *)
(* layout the implementation produces is                                                                *)
(*    v = 0 :  Free( Free(I0 o I1) o I2 )      v = 1 :  Free( I1 o Free(I0 o I2) )                       *)
(*    v = 2 :  Free( I0 o Free(I1 o I2) )                                                                *)
(* while the declared result (static type, and C15) is Free(I0 o I1 o I2).  TLC enumerates the            *)
(* topologies: the two orders are always arrangements of the same label set, and they differ for        *)
(* some (topology, variant) pairs -- finding D8.                                                         *)
EXTENDS Einsum

FreeOfLists(ls) == LabelsWithOcc(FoldLeft(LAMBDA acc, x : acc \o x, <<>>, ls), 1)
Declared3(i0, i1, i2) == FreeOfLists(<<i0, i1, i2>>)
ImplOrder3(i0, i1, i2, v) ==
    CASE v = 0 -> FreeOfLists(<<FreeOfLists(<<i0, i1>>), i2>>)
      [] v = 1 -> FreeOfLists(<<i1, FreeOfLists(<<i0, i2>>)>>)
      [] v = 2 -> FreeOfLists(<<i0, FreeOfLists(<<i1, i2>>)>>)

-----------------------------------------------------------------------------------------------------
(* The cost model that picks the variant (meta/opmin_meta.h).  E maps a label to its extent.            *)
(*   pair_flop_cost(I, J)   = prod(extents of I) * prod(extents of the labels of J that are not in I)    *)
(*                          = product of the extents over the union of the two label sets               *)
(*   triplet_flop_cost      : c01 = pair(I0,I1) + pair(Free(I0 o I1), I2),  c02, c12 alike,              *)
(*                            c012 = one loop nest over all labels;  which_variant = meta_argmin of the   *)
(*                            four, whose tie-breaking is NOT "first minimum": meta_argmin<m,n> = (m<n)?0:1 *)
(*                            (a tie between the first two goes to the SECOND), and a later group wins     *)
(*                            only if it is strictly smaller than the minimum of the earlier ones.          *)
SetOfSeq(s) == {s[i] : i \in DOMAIN s}
ProdOver(S, E) == FoldLeft(LAMBDA acc, x : acc * E[x], 1, SetToSeq(S))
PairCost(a, b, E) == ProdOver(SetOfSeq(a) \cup SetOfSeq(b), E)
TripletCosts(i0, i1, i2, E) ==
    << PairCost(i0, i1, E) + PairCost(FreeOfLists(<<i0, i1>>), i2, E),
       PairCost(i0, i2, E) + PairCost(FreeOfLists(<<i0, i2>>), i1, E),
       PairCost(i1, i2, E) + PairCost(FreeOfLists(<<i1, i2>>), i0, E),
       ProdOver(SetOfSeq(i0) \cup SetOfSeq(i1) \cup SetOfSeq(i2), E) >>
Min2(m, n) == IF m < n THEN m ELSE n
ArgMin2(m, n) == IF m < n THEN 0 ELSE 1
ArgMin3(m, n, r) == LET p == Min2(m, n) IN IF p <= Min2(p, r) THEN ArgMin2(m, n) ELSE ArgMin2(p, r) + 1
ArgMin4(m, n, r, q) == LET p == Min2(m, n) IN IF p <= Min2(p, Min2(r, q)) THEN ArgMin2(m, n) ELSE ArgMin3(p, r, q) + 1
CostVariant(i0, i1, i2, E) == LET c == TripletCosts(i0, i1, i2, E) IN ArgMin4(c[1], c[2], c[3], c[4])
\* extents of the labels, read off the operands
ExtentMap(labels, shapes) ==
    LET all == UNION {SetOfSeq(labels[o]) : o \in DOMAIN labels}
    IN [x \in all |-> LET o == CHOOSE o \in DOMAIN labels : x \in SetOfSeq(labels[o])
                           a == CHOOSE a \in DOMAIN labels[o] : labels[o][a] = x
                       IN shapes[o][a]]
=======================================================================================
