--------------------------------- MODULE NetworkOrder ---------------------------------
(* L2 design model of the multi-operand einsum (network_contraction.h): a 3-operand network is     *)
(* evaluated as two pairwise einsums in the order chosen by the flop cost model (which_variant),      *)
(* and each pairwise einsum orders ITS free labels by first appearance in ITS two lists.  So the       *)
(* layout the implementation produces is                                                                *)
(*    v = 0 :  Free( Free(I0 o I1) o I2 )      v = 1 :  Free( I1 o Free(I0 o I2) )                       *)
(*    v = 2 :  Free( I0 o Free(I1 o I2) )                                                                *)
(* while the declared result (static type, and C15) is Free(I0 o I1 o I2).  TLC enumerates the            *)
(* topologies: the two orders are always arrangements of the same label set, and they differ for        *)
(* some (topology, variant) pairs -- finding D8.                                                         *)
EXTENDS Einsum

FreeOfLists(ls) == LabelsWithOcc(FoldLeft(LAMBDA acc, x : acc \o x, <<>>, ls), 1)
Declared3(i0, i1, i2) == FreeOfLists(<<i0, i1, i2>>)
ImplOrder3(i0, i1, i2, v) ==
    CASE v = 0 -> FreeOfLists(<<FreeOfLists(<<i0, i1>>), i2>>)
      [] v = 1 -> FreeOfLists(<<i1, FreeOfLists(<<i0, i2>>)>>)
      [] v = 2 -> FreeOfLists(<<i0, FreeOfLists(<<i1, i2>>)>>)
=======================================================================================
