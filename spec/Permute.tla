---------------------------------- MODULE Permute ----------------------------------
(* L1 semantics of axis permutation (C14).  perm is a 1-based sequence of 1-based axis numbers.   *)
(*   PermSemantics:  out has extents shape[perm[n]] and out(i[perm[1]],...,i[perm[k]]) = A(i1..ik)  *)
EXTENDS TensorMachine

PermShape(shape, perm) == [n \in 1..Len(shape) |-> shape[perm[n]]]
InvPerm(perm) == [n \in 1..Len(perm) |-> CHOOSE m \in 1..Len(perm) : perm[m] = n]
\* value of out at flat position q (1-based):  out multi-index j, source multi-index i with j[n] = i[perm[n]]
Permuted(A, shape, perm) ==
    LET osh == PermShape(shape, perm)
        inv == InvPerm(perm)
    IN TLCEval([q \in 1..Len(A) |->
          LET j == Unflat(osh, q - 1)
              i == [m \in 1..Len(shape) |-> j[inv[m]]]
          IN A[Flat(shape, i) + 1]])
Conjd(A, cx) == [q \in 1..Len(A) |-> Conj(A[q], cx)]
IsPerm(perm) == {perm[n] : n \in 1..Len(perm)} = 1..Len(perm)
=====================================================================================
