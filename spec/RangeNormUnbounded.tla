------------------------------ MODULE RangeNormUnbounded ------------------------------
(* Unbounded companion of MC_RangeNorm / GenRanges (which enumerate every admissible range record   *)
(* for extents <= 10 with TLC): for EVERY extent n >= 1, every admissible (first, last, step)       *)
(* encoding with step 1..4 and every position j of the selection, the selected axis index lies       *)
(* inside the axis, the selection is non-empty and its extent is ceil((last-first)/step).            *)
(* Checked with Apalache (SMT, unbounded integers) as  Init => Inv  (length 0).                      *)
EXTENDS Integers

VARIABLES
  \* @type: Int;
  n,
  \* @type: Int;
  f,
  \* @type: Int;
  l,
  \* @type: Int;
  s,
  \* @type: Int;
  j

Bound(b) == IF b < 0 THEN n + b + 1 ELSE b
First == Bound(f)
Last == Bound(l)
\* ceil((Last - First) / s) for the four steps (kept linear for the solver)
Extent == (Last - First + s - 1) \div s

Admissible == /\ n >= 1 /\ s \in 1..4
              /\ \/ (f >= 0 /\ l > 0) \/ (f >= 0 /\ l < 0) \/ (f < 0 /\ l < 0)
              /\ First >= 0 /\ First < Last /\ Last <= n

Init == /\ n \in Int /\ f \in Int /\ l \in Int /\ s \in 1..4 /\ j \in Int
        /\ Admissible /\ j >= 0 /\ j < Extent
Next == UNCHANGED <<n, f, l, s, j>>

Inv == /\ Extent >= 1
       /\ First + j * s >= 0
       /\ First + j * s < Last
       /\ First + j * s < n
       /\ First + (Extent - 1) * s < Last /\ Last <= First + Extent * s      \* Extent is exactly the ceiling
=======================================================================================
