---------------------------------- MODULE Reduce ----------------------------------
(* L1 semantics of reductions, predicates and scalar-valued functions (C16): FoldSemantics.        *)
(* What sum / product / min / max / norm / trace / inner / determinant and the predicates           *)
(* all_of / any_of / none_of / isequal / issymmetric / isorthogonal DENOTE, independent of any      *)
(* accumulation order, vector width, horizontal step or identity element the library may use.      *)
(*                                                                                                  *)
(* A tensor (or the value of a lazy expression / view) is its row-major sequence of elements.       *)
(* Elements are integers: the harness only feeds exactly representable data (DESIGN 1.1), so for    *)
(* every element type the mathematically exact value below is also the value every correct          *)
(* floating evaluation returns (all partial sums / products stay below 2^24, see the Exact*         *)
(* preconditions, which the plan generator proves for each case it emits).                          *)
(* Matrices are row-major: element (i,j) of an m x n matrix is A[(i-1)*n + j]  (i, j 1-based).       *)
EXTENDS VT, SequencesExt

Abs(v) == IF v < 0 THEN 0 - v ELSE v

-----------------------------------------------------------------------------------------
(* Folds of a scalar operation over all elements *)
FoldSum(x)     == FoldLeft(LAMBDA acc, v : acc + v, 0, x)              \* empty sum = 0
FoldProduct(x) == FoldLeft(LAMBDA acc, v : acc * v, 1, x)              \* empty product = 1
Lesser(a, b)   == IF b < a THEN b ELSE a
Greater(a, b)  == IF b > a THEN b ELSE a
\* min / max have NO identity element in a bounded type: the fold starts from the first element
\* (defined for Len(x) >= 1 only; the library has no empty tensors)
FoldMin(x) == FoldLeft(Lesser, x[1], x)
FoldMax(x) == FoldLeft(Greater, x[1], x)
IsElementOf(v, x) == \E i \in 1..Len(x) : x[i] = v
\* the contract of min / max stated without a fold:  the result IS an element and bounds every element
\* (for inputs of any sign: nothing but the input determines the result)
MinContract(r, x) == IsElementOf(r, x) /\ \A i \in 1..Len(x) : r <= x[i]
MaxContract(r, x) == IsElementOf(r, x) /\ \A i \in 1..Len(x) : r >= x[i]

\* value of a lazy binary expression a + b, elementwise
Plus(a, b) == [i \in 1..Len(a) |-> a[i] + b[i]]

Inner(a, b) == FoldSum([i \in 1..Len(a) |-> a[i] * b[i]])               \* a_ijk.. * b_ijk..  (same shape)
SumSq(x)    == Inner(x, x)
At(A, n, i, j) == A[(i - 1) * n + j]                                    \* n = number of columns
Trace(A, n) == FoldSum([i \in 1..n |-> At(A, n, i, i)])                 \* n x n
\* inner(a) with one argument: sum of the hyper-diagonal a_ii..i of a uniform rank-k tensor of extent n
\* (rank 1: the sum, rank 2: the trace)
RECURSIVE Pow(_, _)
Pow(b, e) == IF e = 0 THEN 1 ELSE b * Pow(b, e - 1)
DiagStride(n, k) == FoldSum([a \in 1..k |-> Pow(n, a - 1)])             \* 1 + n + ... + n^(k-1)
DiagSum(A, n, k) == FoldSum([i \in 1..n |-> A[(i - 1) * DiagStride(n, k) + 1]])
\* the b-th (1-based) n x n matrix of a batch tensor of shape <<B, n, n>>
Slice(A, n, b) == SubSeq(A, (b - 1) * n * n + 1, b * n * n)

-----------------------------------------------------------------------------------------
(* Euclidean (Frobenius) norm: sqrt(sum x_i^2).  The square root is irrational in general, so the   *)
(* judged quantity is an integer bracket: the harness logs q = round(norm * s) for a power of two   *)
(* s (scaling by s is exact in binary floating point) and a correct result satisfies                 *)
(*       (q-1)^2 <= s^2 * SumSq(x) <= (q+1)^2                                                        *)
(* because |norm - sqrt(S)| <= eps*sqrt(S) << 1/s and rounding moves q by at most 1/2.               *)
(* With S <= NormSMax and s = 2^10 the bracket fits 32-bit integers and pins S exactly: changing S   *)
(* by 1 moves s*sqrt(S) by s/(2 sqrt S) > 11 > 2.  When S is a perfect square the norm is an         *)
(* integer and must be returned exactly (IEEE sqrt is correctly rounded); otherwise it is not an     *)
(* integer at all (sqrt S irrational, and for S < 2048 farther than 0.01 from every integer).        *)
NormScaleLog == 10
NormScale == 1024
NormSMax == 2047
NormBracket(q, S) == /\ q >= 0 /\ q < 46340
                     /\ NormScale * NormScale * S <= (q + 1) * (q + 1)
                     /\ (q = 0 \/ (q - 1) * (q - 1) <= NormScale * NormScale * S)
\* floor(sqrt(S)) by bisection; invariant lo^2 <= S < hi^2 (46341^2 > 2^31, mid <= 46340 so mid*mid fits)
RECURSIVE ISqrtBis(_, _, _)
ISqrtBis(S, lo, hi) == IF hi - lo <= 1 THEN lo
                       ELSE LET mid == (lo + hi) \div 2
                            IN IF mid * mid <= S THEN ISqrtBis(S, mid, hi) ELSE ISqrtBis(S, lo, mid)
ISqrt(S) == ISqrtBis(S, 0, 46341)
IsSquare(S) == ISqrt(S) * ISqrt(S) = S

-----------------------------------------------------------------------------------------
(* Predicates on boolean tensors.  A boolean expression is the elementwise comparison of two values *)
Cmp(op, a, b) == CASE op = "gt" -> a > b  [] op = "lt" -> a < b  [] op = "ge" -> a >= b
                   [] op = "le" -> a <= b [] op = "eq" -> a = b  [] op = "ne" -> a # b
CmpSeq(op, x, y) == [i \in 1..Len(x) |-> Cmp(op, x[i], y[i])]
AllOf(b)  == \A i \in 1..Len(b) : b[i]
AnyOf(b)  == \E i \in 1..Len(b) : b[i]
NoneOf(b) == ~AnyOf(b)                                                  \* none_of is the negation of any_of
\* isequal(a, b, tol): every |a_i - b_i| < tol.  On integer-valued data and the default tolerance (< 1) this is equality
IsEqual(a, b) == Len(a) = Len(b) /\ \A i \in 1..Len(a) : a[i] = b[i]
IsSymmetric(A, m, n) == m = n /\ \A i \in 1..n : \A j \in 1..n : At(A, n, i, j) = At(A, n, j, i)
\* A^T A = I   (n x n)
Gram(A, n, i, j) == FoldSum([k \in 1..n |-> At(A, n, k, i) * At(A, n, k, j)])
IsOrthogonal(A, n) == \A i \in 1..n : \A j \in 1..n : Gram(A, n, i, j) = (IF i = j THEN 1 ELSE 0)

-----------------------------------------------------------------------------------------
(* Determinant of an integer matrix, exactly.                                                       *)
(* DetBareiss: fraction-free Gaussian elimination (Bareiss 1968).  After step k every entry of the   *)
(* trailing block is a (k+1) x (k+1) minor of the input, so all divisions are exact and every        *)
(* intermediate is bounded by (max minor)^2 -- the generator keeps entries small enough for 32 bits  *)
(* (TLC raises an error on overflow, it never wraps).  A zero pivot is replaced by the first row     *)
(* below with a non-zero entry in the pivot column (sign flips); none => determinant 0.              *)
ExactDiv(a, b) == IF b > 0 THEN a \div b ELSE (0 - a) \div (0 - b)      \* b # 0, b divides a
SwapRows(A, n, r1, r2) == TLCEval([p \in 1..(n * n) |->
                             LET i == ((p - 1) \div n) + 1   j == ((p - 1) % n) + 1
                             IN IF i = r1 THEN At(A, n, r2, j) ELSE IF i = r2 THEN At(A, n, r1, j) ELSE A[p]])
RECURSIVE BareissFrom(_, _, _, _, _)
BareissFrom(A, n, k, prev, sign) ==
    IF k = n THEN sign * At(A, n, n, n)
    ELSE IF At(A, n, k, k) = 0
         THEN LET rows == {r \in (k + 1)..n : At(A, n, r, k) # 0}
              IN IF rows = {} THEN 0
                 ELSE BareissFrom(SwapRows(A, n, k, CHOOSE r \in rows : \A r2 \in rows : r <= r2), n, k, prev, 0 - sign)
         ELSE LET piv == At(A, n, k, k)
                  B == TLCEval([p \in 1..(n * n) |->
                          LET i == ((p - 1) \div n) + 1   j == ((p - 1) % n) + 1
                          IN IF i > k /\ j > k
                             THEN ExactDiv(piv * At(A, n, i, j) - At(A, n, i, k) * At(A, n, k, j), prev)
                             ELSE A[p]])
              IN BareissFrom(B, n, k + 1, piv, sign)
DetBareiss(A, n) == IF n = 0 THEN 1 ELSE BareissFrom(A, n, 1, 1, 1)

\* DetLaplace: the definition by cofactor expansion along the first row (n! terms; used for n <= 5 to
\* cross-check Bareiss on every generated case, and as the closed form the library's n <= 4 kernels expand)
Minor(A, n, col) == [p \in 1..((n - 1) * (n - 1)) |->
                        LET i == ((p - 1) \div (n - 1)) + 2               \* rows 2..n
                            jj == ((p - 1) % (n - 1)) + 1
                            j == IF jj < col THEN jj ELSE jj + 1
                        IN At(A, n, i, j)]
RECURSIVE DetLaplace(_, _)
DetLaplace(A, n) == IF n = 0 THEN 1
                    ELSE IF n = 1 THEN A[1]
                    ELSE FoldSum([c \in 1..n |-> (IF c % 2 = 1 THEN 1 ELSE 0 - 1) * A[c] * DetLaplace(TLCEval(Minor(A, n, c)), n - 1)])
Transposed(A, n) == [p \in 1..(n * n) |-> At(A, n, ((p - 1) % n) + 1, ((p - 1) \div n) + 1)]

-----------------------------------------------------------------------------------------
(* Determinants that the library computes through a factorisation (LU with the static pre-pivot,    *)
(* modified Gram-Schmidt QR) are rounded.  Their contract: the result is the exact determinant of a  *)
(* matrix within n*eps of A (backward stability), i.e. |d - D| <= C n eps kappa(A) |D|.  The judged    *)
(* matrices are strictly row diagonally dominant (possibly with the last two rows exchanged), for    *)
(* which kappa_inf(A) <= RowNorm / Margin  (Varah 1975):                                              *)
RowAbs(A, n, i) == FoldSum([j \in 1..n |-> Abs(At(A, n, i, j))])
RowNorm(A, n) == FoldLeft(Greater, 0, [i \in 1..n |-> RowAbs(A, n, i)])
Margin(A, n) == FoldLeft(Lesser, 1000000, [i \in 1..n |-> 2 * Abs(At(A, n, i, i)) - RowAbs(A, n, i)])
IsDominant(A, n) == Margin(A, n) >= 1
\* the harness logs q = round(d * 2^ls); tolerance on q in the same units, rounded up, C = 16:
\*   f64: C n eps kappa |D| 2^ls < 2^-12  (2^ls |D| < 2^30, C n kappa < 2^10)  -> one unit for the rounding of q
\*   f32: eps = 2^-23
DetC == 16
DetTol(T, n, absSD, rho, delta) ==
    IF T = "f64" THEN 1
    ELSE 2 + (((((absSD \div 8192) + 1) * (DetC * n) * rho) \div delta) \div 1024)
Pow2(k) == Pow(2, k)
\* (the harness logs 1999999999 for NaN / infinite / huge results: rejected before any arithmetic could overflow)
DetWithin(q, D, ls, T, n, rho, delta) ==
    /\ Abs(q) < 1000000000
    /\ Abs(q - Pow2(ls) * D) <= DetTol(T, n, Pow2(ls) * Abs(D), rho, delta)
=====================================================================================
