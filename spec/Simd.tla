------------------------------------ MODULE Simd ------------------------------------
(* L1 "LaneSemantics" (property C08): what a SIMDVector<T,ABI> operation denotes.                   *)
(*                                                                                                  *)
(* A vector of n lanes is a sequence of n lane values.  Every vertical operation is a lane-wise      *)
(* map  out[i] = F(a[i], b[i], ...) ; every horizontal operation is the fold of the scalar          *)
(* operation over the lanes; loads/stores/masked forms are defined on a flat memory sequence.       *)
(* Nothing in here knows about registers, intrinsics, ISAs or the split real/imaginary layout.      *)
(*                                                                                                  *)
(* LANE VALUE DOMAINS (DESIGN 1.1)                                                                  *)
(*  small : exactly representable data n/sc (sc = 1 or 4), carried as the integer n; complex lanes   *)
(*          are pairs <<re, im>>.  Results are carried multiplied by the output scale OutScale.      *)
(*          Interpreted by TLC arithmetic: + - * neg abs min max compare, fused multiply-add         *)
(*          family, exact quotients (integer types: C++ truncating division), perfect-square         *)
(*          roots, conj/real/imag/norm, cast, sum/product/dot/minimum/maximum.                       *)
(*  word  : int32/int64 lanes on their FULL range as limb lists (module Word): interpreted by TLC     *)
(*          for + - * neg abs min max compare fmadd.. sum product dot minimum maximum (wrapping).    *)
(*          Integer division on boundary values is table-judged.                                     *)
(*  W     : float/double bit patterns <<class, limbs>> (class 1 = NaN, all NaNs are one class).      *)
(*          neg/abs/reverse/load/store/set/broadcast are interpreted by TLC on the pattern; every    *)
(*          other operation on IEEE specials and random patterns is TABLE-JUDGED: the event carries  *)
(*          ref[i] = the plain scalar C++ operation on lane i (an uninterpreted function table) and  *)
(*          the spec decides the structural claim out[i] = ref[i] (right lane, right operation).     *)
(*  err   : rcp / rsqrt: the lane's relative error in units of 2^-24 (computed in long double by     *)
(*          the recorder); the spec decides err <= ApproxBound.                                      *)
EXTENDS VT, Word, SequencesExt

\* ---------------------------------------------------------------------------------------------
\* element types and lane counts
IsIntT(T)   == T \in {"i32", "i64"}
IsFloatT(T) == T \in {"f32", "f64"}
CompBits(T) == IF T \in {"f32", "i32", "c32"} THEN 32 ELSE 64       \* bits of one real component
NLimbs(T)   == CompBits(T) \div 16
RegBits(abi) == CASE abi = "sse" -> 128 [] abi = "avx" -> 256 [] abi = "avx512" -> 512
\* Size of SIMDVector<T,ABI>: register width / component width (a complex vector holds as many complex lanes as a
\* real vector of its component type holds reals: split real/imaginary registers); scalar = 1; fixed_size<n> = n
LaneCount(T, abi, n) == CASE abi = "scalar" -> 1 [] abi = "fixed" -> n [] OTHER -> RegBits(abi) \div CompBits(T)

\* ---------------------------------------------------------------------------------------------
\* scalar operations on the small domain (integers / pairs)
AbsI(v) == IF v < 0 THEN 0 - v ELSE v
TruncDiv(p, q) == LET m == AbsI(p) \div AbsI(q) IN IF (p < 0) # (q < 0) THEN 0 - m ELSE m     \* C++ integer division, q # 0
ExactDiv(p, q) == AbsI(p) % AbsI(q) = 0
ISqrt(v) == CHOOSE r \in 0..1024 : r * r = v                                                \* v a perfect square <= 2^20
Norm2(z) == z[1] * z[1] + z[2] * z[2]
Scale(z, k, cx) == IF cx THEN <<z[1] * k, z[2] * k>> ELSE z * k
\* complex quotient p/q for q with |q|^2 dividing p*conj(q) (the generator only emits such operands)
CDivOK(p, q) == LET m == Mul(p, Conj(q, TRUE), TRUE) IN Norm2(q) # 0 /\ ExactDiv(m[1], Norm2(q)) /\ ExactDiv(m[2], Norm2(q))
CDiv(p, q) == LET m == Mul(p, Conj(q, TRUE), TRUE) IN <<TruncDiv(m[1], Norm2(q)), TruncDiv(m[2], Norm2(q))>>
Div(p, q, cx) == IF cx THEN CDiv(p, q) ELSE TruncDiv(p, q)
MinI(p, q) == IF q < p THEN q ELSE p
MaxI(p, q) == IF p < q THEN q ELSE p
Cmp(op, p, q) == CASE op = "eq" -> p = q [] op = "ne" -> p # q [] op = "lt" -> p < q [] op = "gt" -> p > q [] op = "le" -> p <= q [] op = "ge" -> p >= q
B01(bv) == IF bv THEN 1 ELSE 0

\* output scale of an operation whose inputs are carried at scale sc
OutScale(op, sc) == IF op \in {"mul", "fmadd", "fmsub", "fnmadd", "dot", "norm"} THEN sc * sc ELSE IF op = "crcp" THEN 4 ELSE sc

\* binary arithmetic  p op q  (result at OutScale)
Arith(op, p, q, cx) == CASE op = "add" -> Add(p, q, cx) [] op = "sub" -> Sub(p, q, cx) [] op = "mul" -> Mul(p, q, cx) [] op = "div" -> Div(p, q, cx)
\* fused multiply-add family:  fmadd = a*b+c   fmsub = a*b-c   fnmadd = c-a*b   (c rescaled to the product's scale)
Fma(op, p, q, r, sc, cx) == CASE op = "fmadd"  -> Add(Mul(p, q, cx), Scale(r, sc, cx), cx)
                              [] op = "fmsub"  -> Sub(Mul(p, q, cx), Scale(r, sc, cx), cx)
                              [] op = "fnmadd" -> Sub(Scale(r, sc, cx), Mul(p, q, cx), cx)

\* ---------------------------------------------------------------------------------------------
\* vectors
Lanes(n, F(_)) == [i \in 1..n |-> F(i)]
Bcast(s, n) == [i \in 1..n |-> s]
\* set(x0, x1, ..., x_{n-1}): the arguments fill the lanes from the TOP, i.e. lane 0 is the LAST argument -- the
\* _mm_set_* convention.  Decided from the generic implementation (std::reverse_copy of the argument list into
\* value[]), from every real-typed specialisation (_mm*_set_ps/pd/epi32/epi64x) and from the library's own use
\* (vector_setter in simd_vector_common.h passes data[idx+(n-1)*stride], ..., data[idx] and expects lane k = data[idx+k*stride]).
SetArgs(args) == Reverse(args)
SetSequential(s, n, step) == [i \in 1..n |-> s + (i - 1) * step]
\* reverse(): lane i of the result is lane n-1-i of the operand (all implementations, README has no other statement)
Rev(a) == Reverse(a)

\* memory: a flat sequence of elements; a vector is loaded from / stored to `off` elements past the base
Load(M, off, n) == [i \in 1..n |-> M[off + i]]
Store(M, off, a) == [j \in 1..Len(M) |-> IF j > off /\ j <= off + Len(a) THEN a[j - off] ELSE M[j]]
\* masks: bit i of the mask enables lane i (lane numbering from 0) -- AVX-512 k-register convention, and what the
\* fallback computes through mask_to_array (maska[j] = bit n-1-j, tested against lane n-1-j)
Enabled(mask, i) == (mask \div (2 ^ (i - 1))) % 2 = 1               \* i is the 1-based lane index
\* mask_store touches only the enabled lanes: everything else in memory (disabled lanes, neighbours, guards) is unchanged
MaskStore(M, off, a, mask) == [j \in 1..Len(M) |-> IF j > off /\ j <= off + Len(a) /\ Enabled(mask, j - off) THEN a[j - off] ELSE M[j]]
\* mask_load: enabled lanes come from memory; the disabled lanes of the register are either all kept (merge
\* masking, the AVX-512 path) or all zeroed (zero masking, the documented fallback "zero out the rest")
MaskLoadOK(out, M, off, mask, prev, zero) ==
    /\ \A i \in 1..Len(out) : Enabled(mask, i) => out[i] = M[off + i]
    /\ \/ \A i \in 1..Len(out) : ~Enabled(mask, i) => out[i] = prev[i]
       \/ \A i \in 1..Len(out) : ~Enabled(mask, i) => out[i] = zero

\* horizontal operations: the fold of the scalar operation over all lanes
Fold(F(_, _), a) == FoldLeft(F, a[1], Tail(a))
HSum(a, cx)  == LET f(p, q) == Add(p, q, cx) IN Fold(f, a)
HProd(a, cx) == LET f(p, q) == Mul(p, q, cx) IN Fold(f, a)
HDot(a, b, cx) == HSum([i \in 1..Len(a) |-> Mul(a[i], b[i], cx)], cx)         \* no conjugation: the lane product is the scalar *
HMin(a) == Fold(MinI, a)
HMax(a) == Fold(MaxI, a)
IsElem(v, a) == \E i \in 1..Len(a) : a[i] = v

\* ---------------------------------------------------------------------------------------------
\* word domain (int32 / int64 on the full range)
WCmp(op, p, q) == CASE op = "eq" -> p = q [] op = "ne" -> p # q [] op = "lt" -> SLess(p, q) [] op = "gt" -> SLess(q, p)
                    [] op = "le" -> ~SLess(q, p) [] op = "ge" -> ~SLess(p, q)
WArith(op, p, q) == CASE op = "add" -> WAdd(p, q) [] op = "sub" -> WSub(p, q) [] op = "mul" -> WMul(p, q)
WFma(op, p, q, r) == CASE op = "fmadd" -> WAdd(WMul(p, q), r) [] op = "fmsub" -> WSub(WMul(p, q), r) [] op = "fnmadd" -> WSub(r, WMul(p, q))
WHSum(a) == Fold(WAdd, a)
WHProd(a) == Fold(WMul, a)
WHDot(a, b) == WHSum([i \in 1..Len(a) |-> WMul(a[i], b[i])])
WHMin(a) == Fold(WMin, a)
WHMax(a) == Fold(WMax, a)
\* sign extension / truncation between word sizes (integer casts)
WResize(w, nl) == [i \in 1..nl |-> IF i <= Len(w) THEN w[i] ELSE IF IsNeg(w) THEN B16 - 1 ELSE 0]

\* ---------------------------------------------------------------------------------------------
\* W domain (IEEE bit patterns): <<class, limb_1 .. limb_nl>>
WIsNaN(w) == w[1] = 1
WTop(w) == w[Len(w)]
WIsZero(w) == w[1] = 0 /\ (\A k \in 2..(Len(w) - 1) : w[k] = 0) /\ WTop(w) \in {0, 32768}
FNeg(w) == IF WIsNaN(w) THEN w ELSE [k \in 1..Len(w) |-> IF k = Len(w) THEN (w[k] + 32768) % B16 ELSE w[k]]
FAbs(w) == IF WIsNaN(w) THEN w ELSE [k \in 1..Len(w) |-> IF k = Len(w) THEN w[k] % 32768 ELSE w[k]]
\* min/max of IEEE values: where the scalar operation itself is order dependent (a NaN operand, or +0 against -0)
\* either operand is a correct result; everywhere else the result is the table value
MinMaxFree(p, q) == WIsNaN(p) \/ WIsNaN(q) \/ (WIsZero(p) /\ WIsZero(q))

\* ---------------------------------------------------------------------------------------------
\* approximate operations.  Neither the headers nor the README document an error bound for rcp()/rsqrt(); the
\* instructions behind them guarantee 1.5*2^-12 (rcpps/rsqrtps) and 2^-14 (AVX-512 rcp14/rsqrt14); the double
\* versions go through the float instruction.  The check uses the bound 2^-11 (in units of 2^-24: 8192).
ApproxBound == 8192
=====================================================================================
