--------------------------------- MODULE SimdDispatch ---------------------------------
(* L2 design model: which SIMD vector type the library picks for (element type, ISA, extent).   *)
(* Transcribes simd_vector_abi.h: simd_abi::native, get_simd_vector_size,                       *)
(* is_exact_multiple_of_smaller_simd, get_half_simd_type and choose_best_simd_type.             *)
(* Bound to the code by Meta events (choose_best_simd_t<...>::Size printed by the harness);     *)
(* a mismatch is MODEL-DRIFT, never a violation.                                               *)
EXTENDS Integers

ISAs  == {"scalar", "sse2", "sse42", "avx", "avx2", "avx512"}
Types == {"f32", "f64", "i32", "i64", "c32", "c64"}

Native(isa) == CASE isa = "scalar" -> "scalar"
                 [] isa \in {"sse2", "sse42"} -> "sse"
                 [] isa \in {"avx", "avx2"} -> "avx"
                 [] isa = "avx512" -> "avx512"
HasAVX2(isa)  == isa \in {"avx2", "avx512"}         \* FASTOR_AVX2_IMPL
HasMasks(isa) == isa = "avx512"                      \* FASTOR_HAS_AVX512_MASKS (F + VL)

\* get_simd_vector_size: complex<float>/complex<double> count float/double lanes of one register
ElemBits(T) == CASE T \in {"f32", "i32", "c32"} -> 32 [] T \in {"f64", "i64", "c64"} -> 64
AbiBits(abi, T) == CASE abi = "avx512" -> 512 [] abi = "avx" -> 256 [] abi = "sse" -> 128 [] abi = "scalar" -> ElemBits(T)
SizeOf(T, abi) == LET s == AbiBits(abi, T) \div ElemBits(T) IN IF s = 0 THEN 1 ELSE s

Half(abi)    == CASE abi = "avx512" -> "avx" [] abi = "avx" -> "sse" [] OTHER -> abi
Quarter(abi) == CASE abi = "avx512" -> "sse" [] OTHER -> abi

\* is_exact_multiple_of_smaller_simd<V,N>
Which(T, abi, N) == LET q == SizeOf(T, abi) \div N IN IF q = 2 THEN 2 ELSE IF q = 4 THEN 4 ELSE 1
IsExactMultiple(T, abi, N) == Which(T, abi, N) # 1 /\ abi # "sse"
ExactAbi(T, abi, N) ==
    IF abi = "avx512" /\ Which(T, abi, N) = 2 THEN "avx"
    ELSE IF abi = "avx" /\ Which(T, abi, N) = 2 THEN "sse"
    ELSE IF abi = "avx512" /\ Which(T, abi, N) = 4 THEN "sse"
    ELSE abi

\* choose_best_simd_type<SIMDVector<T,native>,N>::type  -> abi of the chosen vector
BestAbi(T, isa, N) ==
    LET abi == Native(isa) IN
    IF IsExactMultiple(T, abi, N) THEN ExactAbi(T, abi, N)
    ELSE IF HasAVX2(isa) \/ HasMasks(isa) THEN abi
    ELSE IF N < SizeOf(T, abi) THEN Half(abi) ELSE abi
BestSize(T, isa, N) == SizeOf(T, BestAbi(T, isa, N))

\* design obligations
SizeAtLeastOne == \A T \in Types, isa \in ISAs, N \in 1..80 : BestSize(T, isa, N) >= 1
NeverWider     == \A T \in Types, isa \in ISAs, N \in 1..80 : BestSize(T, isa, N) <= SizeOf(T, Native(isa))
=======================================================================================
