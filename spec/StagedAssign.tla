--------------------------------- MODULE StagedAssign ---------------------------------
(* L2 design model: how the library assigns an expression that contains evaluation-requiring nodes    *)
(* (binary_arithmetic_assignment.h, Aliasing.h, the assign* overloads of the linalg ops).               *)
(* Instead of evaluating the whole right-hand side and then combining it with the destination, the       *)
(* library STAGES the assignment:   D = l + r   becomes   assign(D,l); assign_add(D,r)   and so on,        *)
(* guarded by does_alias() in the += / -= forms.  This module transcribes that rewriting (Asg) and TLC      *)
(* checks, for every tree up to depth 2, every operator and both destination kinds, whether the staged       *)
(* result equals the L1 value (LazyExpr!Expected).  It does NOT in general (MC_StagedAssign.tla): staging      *)
(* refines L1 whenever the destination does not occur on the right-hand side, and for `Tensor = expr`; with      *)
(* the destination as an element-wise operand TLC finds counterexamples -- finding D9 (the alias branch adds a   *)
(* copy of D instead of the right operand) and D9m (a TensorMap destination assigned with plain = is overwritten *)
(* by the first stage before the second stage reads it).  The trace spec uses Staged() to recognise exactly      *)
(* this design defect in recorded results (named deviation "staged_alias").                                      *)
EXTENDS LazyExpr

\* statement-level: `Tensor = expr` goes through a temporary (converting constructor, then copy), `TensorMap = expr`
\* and every compound operator assign in place.
RECURSIVE Asg(_, _, _, _, _, _)
Asg(x, dstn, e, env, n, live) ==      \* live: the destination is a TensorMap (copying it copies the pointer, not the data)
    LET d == env[dstn]
        put(v) == [env EXCEPT ![dstn] = v]
        whole == put(Comb2(x, d, Den(e, env, n)))                \* evaluate e on the CURRENT environment, then combine
    IN
    IF e.k \in {"t", "s"} \/ ~Req(e) THEN whole                            \* trivial_assign: element-wise loop
    ELSE IF e.k \in {"mm", "trans", "inv", "adj", "cof", "sdet", "strace"} THEN whole   \* operands evaluated first, result combined
    ELSE IF x = "set" THEN                                        \* ..._ASSIGNMENT_0: two stages, no alias check
        LET second == e.k                                         \* add -> assign_add, sub -> assign_sub, mul -> assign_mul
        IN Asg(second, dstn, e.r, Asg("set", dstn, e.l, env, n, live), n, live)
    ELSE IF x \in {"add", "sub"} /\ e.k \in {"add", "sub"} THEN   \* ..._ASSIGNMENT_1
        LET sec == IF e.k = "add" THEN x ELSE (IF x = "add" THEN "sub" ELSE "add")
        IN IF ~(dstn = "D" /\ Alias(e.r))
           THEN Asg(sec, dstn, e.r, Asg(x, dstn, e.l, env, n, live), n, live)
           ELSE LET env1 == Asg(x, dstn, e.l, env, n, live)
                    tmp  == IF live THEN env1[dstn] ELSE d         \* const Derived tmp(dst): a snapshot for a Tensor, the SAME storage for a TensorMap
                IN [env1 EXCEPT ![dstn] = Comb2(sec, env1[dstn], tmp)]        \* assign_op(dst, tmp)   <-- D9
    ELSE                                                          \* ..._ASSIGNMENT_2: whole expression into a temporary
        LET envT == Asg("set", "TMP", e, [m \in (DOMAIN env) \cup {"TMP"} |-> IF m \in DOMAIN env THEN env[m] ELSE d], n, FALSE)
        IN put(Comb2(x, d, envT["TMP"]))

Staged(x, e, env, n, dest) ==
    IF x = "set" /\ dest = "tensor"
    THEN Asg("set", "TMP", e, [m \in (DOMAIN env) \cup {"TMP"} |-> IF m \in DOMAIN env THEN env[m] ELSE env["D"]], n, FALSE)["TMP"]
    ELSE Asg(x, "D", e, env, n, dest = "map")["D"]

=======================================================================================
