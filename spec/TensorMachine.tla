-------------------------------- MODULE TensorMachine --------------------------------
(* L1 semantics of the stateful part of the library: storage blocks, handles onto them (owning    *)
(* tensors, TensorMap / reshape / flatten aliases), and reads and writes through scalar indices,   *)
(* slices (dynamic, compile-time, mixed), index tensors and boolean masks.                          *)
(* Properties stated here and evaluated at every step of every validated trace:                    *)
(*   SelectSemantics (C04, C19)  what a slice / index view denotes                                  *)
(*   Snapshot + Frame (C05, C18, C19, C20)  what an assignment through a view does to memory        *)
(*   AliasCoherence (C20)  a handle is (buffer, shape): the same action through any handle of a      *)
(*                         buffer has the effect it has on the buffer                               *)
EXTENDS VT, FiniteSets, SequencesExt

-----------------------------------------------------------------------------------------
(* Shapes, row-major layout *)
RECURSIVE Prod(_)
Prod(s) == IF s = <<>> THEN 1 ELSE s[1] * Prod(Tail(s))
Stride(shape, a) == Prod(SubSeq(shape, a + 1, Len(shape)))         \* row-major stride of axis a (1-based)
\* 0-based flat offset of a 0-based multi-index
RECURSIVE FlatFrom(_, _, _)
FlatFrom(shape, idx, a) == IF a > Len(shape) THEN 0 ELSE idx[a] * Stride(shape, a) + FlatFrom(shape, idx, a + 1)
Flat(shape, idx) == FlatFrom(shape, idx, 1)

-----------------------------------------------------------------------------------------
(* Ranges.  A range is a record as the user writes it:                                            *)
(*   [k |-> "seq" | "fseq" | "iseq", f, l, s]    first, last (exclusive), step; negative = from end *)
(*   [k |-> "all"]  [k |-> "int" | "fix", i]      whole axis; one index (-1 = last element)          *)
(* Documented meaning (README, Ranges.h): a negative bound b on an axis of extent n denotes n+b+1  *)
(* (`last` = -1 is the end point n); a bare index -1 in a slice is the last element.               *)
Bound(b, n) == IF b < 0 THEN n + b + 1 ELSE b
RFirst(r, n) == CASE r.k \in {"seq", "fseq", "iseq"} -> Bound(r.f, n)
                 [] r.k = "all" -> 0
                 [] r.k \in {"int", "fix"} -> IF r.i = -1 THEN n - 1 ELSE r.i
RLast(r, n)  == CASE r.k \in {"seq", "fseq", "iseq"} -> Bound(r.l, n)
                 [] r.k = "all" -> n
                 [] r.k \in {"int", "fix"} -> IF r.i = -1 THEN n ELSE r.i + 1
Step(r)     == IF r.k \in {"seq", "fseq", "iseq"} THEN r.s ELSE 1
Extent(r, n) == (RLast(r, n) - RFirst(r, n) + Step(r) - 1) \div Step(r)        \* ceil((last-first)/step)
\* admissible encodings (DESIGN Appendix A): what the generators may emit and what the API defines
Admissible(r, n) ==
    CASE r.k \in {"seq", "fseq", "iseq"} ->
            /\ r.s >= 1
            /\ \/ (r.f >= 0 /\ r.l > 0) \/ (r.f >= 0 /\ r.l < 0) \/ (r.f < 0 /\ r.l < 0)
            /\ RFirst(r, n) >= 0 /\ RFirst(r, n) < RLast(r, n) /\ RLast(r, n) <= n
            /\ (r.k = "iseq" => r.f >= 0 /\ r.l > 0)
      [] r.k = "all" -> TRUE
      [] r.k \in {"int", "fix"} -> r.i >= -1 /\ r.i < n
\* axis indices selected by r, in order:  j |-> first + j*step
\* (TLCEval forces TLC to evaluate a function constructor once instead of re-evaluating its body at every application)
AxisIdx(r, n) == TLCEval([j \in 1..Extent(r, n) |-> RFirst(r, n) + (j - 1) * Step(r)])

\* Selection of a slice: the 0-based flat offsets of the selected elements, in row-major order of the
\* slice's own multi-index (j1,...,jk)  (SelectSemantics)
RECURSIVE SelFrom(_, _, _)
SelFrom(shape, ranges, a) ==
    IF a > Len(shape) THEN <<0>>
    ELSE LET ax   == AxisIdx(ranges[a], shape[a])
             rest == SelFrom(shape, ranges, a + 1)
             st   == Stride(shape, a)
             nr   == Len(rest)
         IN TLCEval([q \in 1..(Len(ax) * nr) |-> ax[((q - 1) \div nr) + 1] * st + rest[((q - 1) % nr) + 1]])
Sel(shape, ranges) == SelFrom(shape, ranges, 1)
SliceShape(shape, ranges) == [a \in 1..Len(shape) |-> Extent(ranges[a], shape[a])]

ToSetOf(s) == {s[i] : i \in 1..Len(s)}
DupFree(s) == Cardinality(ToSetOf(s)) = Len(s)

-----------------------------------------------------------------------------------------
(* Memory: a block is a sequence  G guard cells ++ body ++ G guard cells.  Offsets below are      *)
(* 0-based into the body.                                                                          *)
Cell(blk, off) == blk[G + off + 1]
Body(blk) == SubSeq(blk, G + 1, Len(blk) - G)
BodyLen(blk) == Len(blk) - 2 * G
GuardsIntact(blk, cx) == \A p \in 1..G : blk[p] = Sentinel(cx) /\ blk[Len(blk) - G + p] = Sentinel(cx)

Read(blk, sel) == TLCEval([q \in 1..Len(sel) |-> Cell(blk, sel[q])])                    \* SelectSemantics

\* exact division is only used where it is exact (generators guarantee divisibility)
ExactDiv(d, v) == IF v < 0 THEN (0 - d) \div (0 - v) ELSE d \div v        \* TLC wants a positive divisor
CombD(aop, d, v, cx) == IF aop = "div" THEN ExactDiv(d, v) ELSE Comb(aop, d, v, cx)

\* Snapshot + Frame: src has been evaluated on the PRE-state; every selected cell is combined with its
\* source element; every other cell of the block -- guard cells included -- is unchanged.
\* (a left fold over the positions of sel: FoldLeftDomain is evaluated iteratively by TLC)
Write(blk, sel, aop, src, cx) ==
    FoldLeftDomain(LAMBDA b, q : [b EXCEPT ![G + sel[q] + 1] = CombD(aop, b[G + sel[q] + 1], src[q], cx)], blk, sel)

-----------------------------------------------------------------------------------------
(* Right-hand sides.  rhs is a record:                                                            *)
(*   [k |-> "sc", v]                      scalar broadcast                                         *)
(*   [k |-> "tn", vals]                   a tensor of the slice's shape (row-major values)         *)
(*   [k |-> "vw", buf, shape, r]          a slice of a (possibly the same) buffer                  *)
(*   [k |-> "ex", buf, shape, r, m, c]    the expression  m * slice + c                            *)
(*   [k |-> "ex2", buf, shape, r, vals]   the expression  slice + tensor                           *)
(*   [k |-> "rv", buf, sel]               an index-tensor view (flat offsets sel) of a buffer       *)
(*   [k |-> "tx", vals, m, c]             the lazy expression  m * tensor + c                        *)
(*   [k |-> "mm", a, b, rows, cols]       the matrix product (rows x 2) % (2 x cols), needs evaluation *)
(*   [k |-> "mp", buf, shape, via]        a TensorMap / reshape / flatten handle of a whole buffer    *)
(* evaluated on memory `mem` (a function from buffer names to blocks), n = number of elements.     *)
EvalRhs(mem, rhs, n, cx) == TLCEval(
    CASE rhs.k = "sc" -> [q \in 1..n |-> rhs.v]
      [] rhs.k = "tn" -> rhs.vals
      [] rhs.k = "vw" -> Read(mem[rhs.buf], Sel(rhs.shape, rhs.r))
      [] rhs.k = "ex" -> LET x == Read(mem[rhs.buf], Sel(rhs.shape, rhs.r))
                         IN [q \in 1..n |-> Add(Mul(rhs.m, x[q], cx), rhs.c, cx)]
      [] rhs.k = "rv" -> Read(mem[rhs.buf], rhs.sel)                                  \* index view of a buffer
      \* a lazy element-wise expression  m * T + c  of a tensor T given by its values
      [] rhs.k = "tx" -> [q \in 1..n |-> Add(Mul(rhs.m, rhs.vals[q], cx), rhs.c, cx)]
      \* an expression that has to be evaluated into a temporary first: the matrix product  P % Q  (P: rows x 2, Q: 2 x cols, or 2 for a vector)
      [] rhs.k = "mm" -> [q \in 1..n |-> LET i == (q - 1) \div rhs.cols  j == (q - 1) % rhs.cols
                                         IN Add(Mul(rhs.a[2 * i + 1], rhs.b[j + 1], cx), Mul(rhs.a[2 * i + 2], rhs.b[rhs.cols + j + 1], cx), cx)]
      [] rhs.k = "mp" -> Read(mem[rhs.buf], [q \in 1..n |-> q - 1])                   \* a map of the whole buffer (row-major cells in order)
      [] rhs.k = "ex2" -> LET x == Read(mem[rhs.buf], Sel(rhs.shape, rhs.r))
                          IN [q \in 1..n |-> Add(x[q], rhs.vals[q], cx)])

\* the action: assignment through a selection `sel` of buffer `buf`
AssignSel(mem, buf, sel, aop, rhs, cx) ==
    [mem EXCEPT ![buf] = Write(mem[buf], sel, aop, EvalRhs(mem, rhs, Len(sel), cx), cx)]

SliceWrite(mem, buf, shape, ranges, aop, rhs, cx) == AssignSel(mem, buf, Sel(shape, ranges), aop, rhs, cx)

\* scalar indexing: negative index counted from the end
ScalarOff(shape, idx) == Flat(shape, [a \in 1..Len(shape) |-> IF idx[a] < 0 THEN shape[a] + idx[a] ELSE idx[a]])

\* index-tensor views: flat index tensor, or one index tensor / range / integer per axis (outer product)
PerAxisIdx(x, n) == IF x.k = "it" THEN x.idx ELSE AxisIdx(x, n)
RECURSIVE IdxSelFrom(_, _, _)
IdxSelFrom(shape, axes, a) ==
    IF a > Len(shape) THEN <<0>>
    ELSE LET ax   == PerAxisIdx(axes[a], shape[a])
             rest == IdxSelFrom(shape, axes, a + 1)
             st   == Stride(shape, a)
             nr   == Len(rest)
         IN TLCEval([q \in 1..(Len(ax) * nr) |-> ax[((q - 1) \div nr) + 1] * st + rest[((q - 1) % nr) + 1]])
IdxSel(shape, axes) == IdxSelFrom(shape, axes, 1)

\* boolean mask: positions where the mask is true, in flat order; the rhs element at the SAME flat position is used
MaskSel(mask) == SelectSeq([p \in 1..Len(mask) |-> p - 1], LAMBDA off : mask[off + 1] = 1)

\* assignment through a mask: the rhs (scalar, or tensor of the FULL shape) element at the same flat position
MaskAssign(mem, buf, mask, aop, rhs, n, cx) ==
    LET sel  == MaskSel(mask)
        full == EvalRhs(mem, rhs, n, cx)
    IN [mem EXCEPT ![buf] = Write(mem[buf], sel, aop, [q \in 1..Len(sel) |-> full[sel[q] + 1]], cx)]

\* layout conversion: column-major offset of a multi-index, and the two mutually inverse conversions
\*   FromCM(a): a holds column-major data; result is the row-major tensor        FromCM(a)[RowOff(i)] = a[ColOff(i)]
\*   ToCM(a):   a is row-major; result holds the same tensor in column-major order  ToCM(a)[ColOff(i)] = a[RowOff(i)]
RECURSIVE UnflatFrom(_, _, _)
UnflatFrom(shape, off, a) == IF a > Len(shape) THEN <<>>
                             ELSE <<off \div Stride(shape, a)>> \o UnflatFrom(shape, off % Stride(shape, a), a + 1)
Unflat(shape, off) == UnflatFrom(shape, off, 1)
ColOff(shape, idx) == LET RECURSIVE Go(_) Go(a) == IF a > Len(shape) THEN 0 ELSE idx[a] * Prod(SubSeq(shape, 1, a - 1)) + Go(a + 1) IN Go(1)
FromCM(shape, a) == TLCEval([p \in 1..Len(a) |-> a[ColOff(shape, Unflat(shape, p - 1)) + 1]])
ToCM(shape, a)   == LET perm == [p \in 1..Len(a) |-> ColOff(shape, Unflat(shape, p - 1)) + 1]          \* row pos -> col pos
                    IN TLCEval([c \in 1..Len(a) |-> a[CHOOSE p \in 1..Len(a) : perm[p] = c]])

\* initial contents of buffer number b with n cells (the harness uses the same formula)
InitCell(b, i) == ((i * 7 + b * 3) % 19) - 9
InitBlock(b, n, cx) == TLCEval(Guarded([i \in 1..n |-> IF cx THEN <<InitCell(b, i - 1), InitCell(b + 1, i - 1)>> ELSE InitCell(b, i - 1)], cx))
=======================================================================================
