-------------------------------- MODULE TilingUnbounded --------------------------------
(* Unbounded companion of the tiling obligations that GenMatmul checks with TLC for the shapes of its    *)
(* plan (MatmulDesign!RowsPartition / ColsPartition): the one-dimensional tiling used by the row and     *)
(* the column loops of _matmul_base(_masked) --                                                          *)
(*     big blocks of B = m*S while a whole big block fits, then small blocks of S, then one remainder      *)
(*     tile [L1, L) --                                                                                    *)
(* partitions [0, L) for EVERY length L >= 1, every small block S in {1,2,4,8,16} (4 rows; the vector      *)
(* widths) and every multiplier m in 1..5 (the row / column unroll factors, macro values included):       *)
(* every position is covered by exactly one tile, and every tile lies inside [0, L).                      *)
(* Tiles are identified by (family, start).  Checked with Apalache as Init => Inv.                        *)
EXTENDS Integers

VARIABLES
  \* @type: Int;
  L,
  \* @type: Int;
  S,
  \* @type: Int;
  B,
  \* @type: Int;
  i,
  \* @type: Int;
  k1,
  \* @type: Int;
  x1,
  \* @type: Int;
  k2,
  \* @type: Int;
  x2

L0 == (L \div B) * B            \* end of the big blocks
L1 == (L \div S) * S            \* end of the small blocks
\* (k, x) is a tile:  family 1 big, 2 small, 3 remainder
IsTile(k, x) == \/ (k = 1 /\ x >= 0 /\ x < L0 /\ x % B = 0)
                \/ (k = 2 /\ x >= L0 /\ x < L1 /\ (x - L0) % S = 0)
                \/ (k = 3 /\ x = L1 /\ L > L1)
Width(k, x) == IF k = 1 THEN B ELSE IF k = 2 THEN S ELSE L - L1
CoversPos(k, x, p) == x <= p /\ p < x + Width(k, x)
\* the tile that covers position p, computed
WK(p) == IF p < L0 THEN 1 ELSE IF p < L1 THEN 2 ELSE 3
WX(p) == IF p < L0 THEN p - (p % B) ELSE IF p < L1 THEN p - ((p - L0) % S) ELSE L1

\* @type: Set(<<Int, Int>>);
Pairs == { <<1, 1>>, <<1, 2>>, <<1, 3>>, <<1, 4>>, <<1, 5>>, <<2, 2>>, <<2, 4>>, <<2, 6>>, <<2, 8>>, <<2, 10>>,
           <<4, 4>>, <<4, 8>>, <<4, 12>>, <<4, 16>>, <<4, 20>>, <<8, 8>>, <<8, 16>>, <<8, 24>>, <<8, 32>>, <<8, 40>>,
           <<16, 16>>, <<16, 32>>, <<16, 48>>, <<16, 64>>, <<16, 80>> }

Init == /\ L \in Int /\ L >= 1
        /\ \E p \in Pairs : S = p[1] /\ B = p[2]
        /\ i \in Int /\ i >= 0 /\ i < L
        /\ k1 \in 1..3 /\ x1 \in Int /\ IsTile(k1, x1) /\ CoversPos(k1, x1, i)
        /\ k2 \in 1..3 /\ x2 \in Int /\ IsTile(k2, x2) /\ CoversPos(k2, x2, i)
Next == UNCHANGED <<L, S, B, i, k1, x1, k2, x2>>

Inv == /\ k1 = k2 /\ x1 = x2                                          \* at most one tile covers a position
       /\ IsTile(WK(i), WX(i)) /\ CoversPos(WK(i), WX(i), i)          \* at least one does (the computed one)
       /\ x1 >= 0 /\ Width(k1, x1) >= 1 /\ x1 + Width(k1, x1) <= L    \* tiles lie inside [0, L)
=======================================================================================
