---------------------------------- MODULE Tmatmul ----------------------------------
(* L1 semantics of the triangular matrix product (C17):                                          *)
(*      tmatmul<LhsTag,RhsTag>(A, B)       A is M x K,  B is K x N,  any M, K, N >= 1            *)
(* A tag is a PROMISE of the caller about an operand ("zero outside this triangle"), never a      *)
(* request to mask it.  Under the promise the call denotes the ordinary product Matmul!Product;  *)
(* outside the promise the property (and this spec) says nothing.  Nothing here depends on how   *)
(* a kernel walks the operands.  Matrices are row-major sequences, positions (r,c) zero based.   *)
EXTENDS Matmul, FiniteSets

Tags == {"General", "Lower", "Upper"}

\* (r,c) belongs to the tagged triangle of an R x C matrix.  For a trapezoidal matrix (R # C) the triangle is
\* cut by the main diagonal c = r exactly as in the square case: "Lower" keeps c <= r, "Upper" keeps c >= r.
InTriangle(tag, r, c) == CASE tag = "Lower" -> c <= r
                           [] tag = "Upper" -> c >= r
                           [] tag = "General" -> TRUE

\* the operand keeps the promise of its tag (Matmul!IsLower / IsUpper are already shape generic)
HasTag(A, R, C, tag, cx) ==
    IF cx THEN \A p \in 1..(R * C) : InTriangle(tag, (p - 1) \div C, (p - 1) % C) \/ A[p] = Zero(cx)
    ELSE CASE tag = "Lower" -> IsLower(A, R, C)
           [] tag = "Upper" -> IsUpper(A, R, C)
           [] tag = "General" -> TRUE

\* the triangular part of an arbitrary operand (what a caller does to establish the promise)
TriPart(A, R, C, tag, cx) ==
    [p \in 1..(R * C) |-> IF InTriangle(tag, (p - 1) \div C, (p - 1) % C) THEN A[p] ELSE Zero(cx)]

\* precondition of the property on one call
Promise(A, B, M, K, N, lt, rt, cx) == HasTag(A, M, K, lt, cx) /\ HasTag(B, K, N, rt, cx)

\* what the call denotes: the full M x N product; every one of the M*N positions is defined, the
\* structurally zero ones included (their value is 0 because every term of the sum vanishes)
TProduct(A, B, M, K, N, cx) == Product(A, B, M, K, N, cx)

\* ---- the property ------------------------------------------------------------------------------
\* R is the M x N result of  tmatmul<lt,rt>(A,B)
TriangularProduct(A, B, M, K, N, lt, rt, R, cx) ==
    Promise(A, B, M, K, N, lt, rt, cx) => R = TProduct(A, B, M, K, N, cx)

\* ---- consequences used by the design model (TmatmulClip) and checked on every generated case ----
\* the inner indices k (zero based) at which A(i,k) * B(k,j) is allowed to be non-zero under the promise
Support(lt, rt, i, j, K) == {k \in 0..(K - 1) : InTriangle(lt, i, k) /\ InTriangle(rt, k, j)}
\* C(i,j) is structurally zero: no term survives
StructZero(lt, rt, i, j, K) == Support(lt, rt, i, j, K) = {}

\* the sum restricted to the support
SupportProduct(A, B, M, K, N, lt, rt, cx) ==
    [p \in 1..(M * N) |->
        LET i == (p - 1) \div N
            j == (p - 1) % N
        IN SumTo(LAMBDA k : IF (k - 1) \in Support(lt, rt, i, j, K)
                            THEN Mul(A[i * K + k], B[(k - 1) * N + j + 1], cx) ELSE Zero(cx), K, cx)]
\* lemma (checked by TLC on every generated case with concrete operands): under the promise the terms
\* outside the support contribute nothing
SupportLemma(A, B, M, K, N, lt, rt, cx) ==
    Promise(A, B, M, K, N, lt, rt, cx) => SupportProduct(A, B, M, K, N, lt, rt, cx) = TProduct(A, B, M, K, N, cx)
=====================================================================================
