--------------------------------- MODULE TmatmulClip ---------------------------------
(* L2 design model of the triangular product kernels (Fastor/backend/matmul/tmatmul.h).          *)
(* The kernels are the general product's block decomposition (MatmulDesign: row tiles M0/M1/rest, *)
(* column tiles N0/N1/remainder) in which the k loop of a block is CLIPPED to                     *)
(*        [ find_kfirst(i0,j0) , find_klast(i0,j0) )                                            *)
(* computed once per block from its origin (i0,j0), the operand tags and the two unroll extents   *)
(* (uo rows, ui columns) the block was instantiated with.  This module transcribes                *)
(*   KFirst / KLast   -- internal::find_kfirst / find_klast                                      *)
(*   TRoute           -- the dispatch of _tmatmul (base / base_masked / non_primitive)           *)
(*   ClipOf           -- which blocks are clipped, and with which (uo, ui), per kernel           *)
(* and states the obligations that make the clipped kernels a refinement of Tmatmul (L1):         *)
(*   ClipContainsSupport  for every block, every (i,j) of the block: Support(i,j) is inside the  *)
(*                        block's clipped range (skipping k outside it loses no non-zero term)   *)
(*   EveryElementStored   the blocks partition [0,M) x [0,N): a block stores all of its cells,    *)
(*                        also when its clipped range is empty (structural zeros are written)    *)
(* Bound to the code by "Meta" events (the constexpr values of find_kfirst/find_klast and the     *)
(* chosen vector width are logged for the plan's shapes); a mismatch is MODEL-DRIFT.              *)
EXTENDS MatmulDesign, Tmatmul

Max2(a, b) == IF a >= b THEN a ELSE b
Min2(a, b) == IF a <= b THEN a ELSE b

\* internal::find_kfirst<size_t,K,uo,ui,Lhs,Rhs>(i,j)   (line by line; tags other than the three are "0UL" / "K")
KFirst(lt, rt, i, j) ==
    IF lt \in {"Lower", "General"}
    THEN (IF rt = "Lower" THEN j ELSE 0)
    ELSE IF lt = "Upper" THEN (IF rt = "Lower" THEN Max2(i, j) ELSE i) ELSE 0
\* internal::find_klast<size_t,K,uo,ui,Lhs,Rhs>(i,j)
KLast(lt, rt, K, uo, ui, i, j) ==
    IF lt = "Lower"
    THEN (IF rt = "Upper" THEN Min2(Min2(i + uo, j + ui), K) ELSE Min2(i + uo, K))
    ELSE IF lt \in {"Upper", "General"} THEN (IF rt = "Upper" THEN Min2(j + ui, K) ELSE K) ELSE K

\* _tmatmul: non-primitive element types take the element-wise kernel; with AVX2 or AVX-512 masks the masked kernel
\* handles N % V > 1; everything else is _tmatmul_base.  (No small-N / matrix-vector special cases, unlike _matmul.)
TMasked(isa, N, V) == (HasAVX2(isa) \/ HasMasks(isa)) /\ N % V > 1
TRoute(T, isa, N) == IF ~Prim(T) THEN "nonprim"
                     ELSE IF TMasked(isa, N, BestSize(T, isa, N)) THEN "base_masked" ELSE "base"

\* ---- blocks: RowTiles x ColTiles of MatmulDesign (default block sizes), classified by position
RowClass(M, V, r) == LET ob == NumRows(M, V, 0) * 4
                         M0 == (M \div ob) * ob
                         M1 == (M \div 4) * 4
                     IN IF r.i0 < M0 THEN "m0" ELSE IF r.i0 < M1 THEN "m1" ELSE "rest"
ColClass(M, N, V, c) == LET ib == NumCols(M, N, V, 0) * V
                            N0 == (N \div ib) * ib
                        IN IF c.kind = "vec" THEN (IF c.j0 < N0 THEN "n0" ELSE "n1") ELSE c.kind    \* "mask" | "scalar"

\* the clip of a block: [tagged, uo, ui].  tagged = FALSE: the block is instantiated with the default (General) tags,
\* i.e. runs k over 0..K-1 whatever the caller's tags are.
\*   _tmatmul_base:        every block of the m0 and m1 row classes is clipped with uo = block rows and
\*                         ui = block columns (n0: numSIMDCols*V, n1: V, scalar remainder: 1); the "rest" rows are not
\*   _tmatmul_base_masked: only the n1 and mask blocks of the m1 row class are clipped, both with (4, V) -- the mask
\*                         block is N - N1 < V columns wide; all m0 blocks, the n0 blocks and the "rest" rows are not
NoClip == [tagged |-> FALSE, uo |-> 0, ui |-> 0]
ClipOf(masked, M, N, V, r, c) ==
    LET rc == RowClass(M, V, r)
        cc == ColClass(M, N, V, c)
    IN IF rc = "rest" THEN NoClip
       ELSE IF ~masked THEN [tagged |-> TRUE, uo |-> r.rows, ui |-> IF cc = "scalar" THEN 1 ELSE c.w]
       ELSE IF rc = "m1" /\ cc \in {"n1", "mask"} THEN [tagged |-> TRUE, uo |-> 4, ui |-> V]
       ELSE NoClip

\* clipped k range of a block, as a set (k zero based).  KLast <= K and KFirst >= 0 by construction, so the interval
\* is inside 0..K-1; it is empty when KLast <= KFirst (the block then stores zeros).
ClipRange(cl, lt, rt, K, i0, j0) ==
    IF cl.tagged THEN KFirst(lt, rt, i0, j0)..(KLast(lt, rt, K, cl.uo, cl.ui, i0, j0) - 1)
    ELSE 0..(K - 1)

\* union of Support(i,j) over the cells of a block  =  {k : some row of the block reaches k} \cap {k : k reaches some column}
RowSupport(lt, r, K) == {k \in 0..(K - 1) : \E i \in r.i0..(r.i0 + r.rows - 1) : InTriangle(lt, i, k)}
ColSupport(rt, c, K) == {k \in 0..(K - 1) : \E j \in c.j0..(c.j0 + c.w - 1) : InTriangle(rt, k, j)}

\* ---- obligations for one (shape, tags, vector width, kernel) ------------------------------------
ClipContainsSupport(M, K, N, lt, rt, V, masked) ==
    LET rts == RowTiles(M, V, 0)
        cts == ColTiles(N, V, NumCols(M, N, V, 0), masked)
        rs == TLCEval([r \in rts |-> RowSupport(lt, r, K)])
        cs == TLCEval([c \in cts |-> ColSupport(rt, c, K)])
    IN \A r \in rts : LET rsr == rs[r] IN
         \A c \in cts : LET cl == ClipOf(masked, M, N, V, r, c) IN
            ~cl.tagged \/ (rsr \cap cs[c]) \subseteq ClipRange(cl, lt, rt, K, r.i0, c.j0)

EveryElementStored(M, N, V, masked) ==
    LET rts == RowTiles(M, V, 0)
        cts == ColTiles(N, V, NumCols(M, N, V, 0), masked)
    IN RowsPartition(M, rts) /\ RowsInside(M, rts) /\ ColsPartition(N, cts) /\ ColsInside(N, cts)

\* the element-wise kernel for non-primitive element types clips every (i,j) with (1,1): exactly the support
NonPrimExact(M, K, N, lt, rt) ==
    \A i \in 0..(M - 1), j \in 0..(N - 1) :
        Support(lt, rt, i, j, K) = ClipRange([tagged |-> TRUE, uo |-> 1, ui |-> 1], lt, rt, K, i, j)

\* ---- the value a clipped kernel computes for C(i,j) when both operands are 1 on their triangle and 0 outside:
\* the number of k in the block's clipped range that lie in Support(i,j).  L1 gives |Support(i,j)| for the same
\* operands, so equality for all (i,j) is "L2 refines L1" on the operand that makes every lost term visible.
OnesRefinement(M, K, N, lt, rt, V, masked) ==
    LET rts == RowTiles(M, V, 0)
        cts == ColTiles(N, V, NumCols(M, N, V, 0), masked)
    IN \A r \in rts, c \in cts :
         LET rg == ClipRange(ClipOf(masked, M, N, V, r, c), lt, rt, K, r.i0, c.j0) IN
         \A i \in r.i0..(r.i0 + r.rows - 1), j \in c.j0..(c.j0 + c.w - 1) :
            Cardinality(rg \cap Support(lt, rt, i, j, K)) = Cardinality(Support(lt, rt, i, j, K))

\* the (uo, ui) pairs with which find_kfirst / find_klast are instantiated for a shape (for the Meta binding)
ClipParams(M, N, V, masked) ==
    { <<cl.uo, cl.ui>> : cl \in { ClipOf(masked, M, N, V, r, c) : r \in RowTiles(M, V, 0), c \in ColTiles(N, V, NumCols(M, N, V, 0), masked) }
                                  \ {NoClip} }
\* does the shape reach a clipped block at all in this kernel (coverage strata of the generator)
HasClippedBlock(M, N, V, masked) == ClipParams(M, N, V, masked) # {}
=======================================================================================
