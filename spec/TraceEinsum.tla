-------------------------------- MODULE TraceEinsum --------------------------------
(* Trace validation of einsum / contraction / inner / outer events (C03).  One event per case and    *)
(* data draw, joined over the configurations that executed it:                                      *)
(*   in   = [T, form, la, lb, sa, sb, out, A, B]   index lists, operand extents, explicit output      *)
(*                                                  order (<<>> if none), operand data (row-major)     *)
(*   outs = << [cfg, isa, out |-> [fault, shape, vals]] ... >>   extents of the returned static type,   *)
(*                                                  its elements; fault # 0: the call died (signal)     *)
(* EinsteinSemantics (Einsum.tla): the expected result is computed ONCE from the L1 operator and        *)
(* compared with every configuration.  Two documented deviations of outer() with a Tensor<T,1> operand   *)
(* are rejected with a tag (listed known findings D29, D30); any other wrong result is an untagged        *)
(* rejection (a violation).                                                                              *)
EXTENDS EinsumDispatch
VARIABLE l

Single(x) == x.form \in {"single", "single_explicit"}
OpsOfEvent(x) == IF Single(x) THEN << [labels |-> x.la, shape |-> x.sa, vals |-> x.A] >>
                 ELSE << [labels |-> x.la, shape |-> x.sa, vals |-> x.A], [labels |-> x.lb, shape |-> x.sb, vals |-> x.B] >>
\* what each form denotes.  inner(a,b) and outer(a,b) name their index lists implicitly (Einsum!InnerOps / OuterOps);
\* the harness logs exactly those lists in la / lb, which the guard below re-checks.
Denotes(x, cx) ==
    LET ops == OpsOfEvent(x)
    IN IF x.form \in {"explicit", "single_explicit"} THEN EinsteinOut(ops, x.out, cx) ELSE Einstein(ops, cx)
FormOK(x) ==
    LET ops == OpsOfEvent(x)
    IN /\ WellFormed(ops)
       /\ (x.form \in {"explicit", "single_explicit"} => IsArrangementOf(x.out, FreeLabels(ops)))
       /\ (x.form = "inner" => x.la = x.lb /\ ~HasRepeat(x.la))
       /\ (x.form = "outer" => ~HasRepeat(x.la \o x.lb))

PairForm(x) == x.form \in {"einsum", "contraction", "explicit"}
JudgeEinsum(ev) ==
    LET x == ev.in
        cx == IsCx(x.T)
        exp == Denotes(x, cx)
    IN /\ FormOK(x)              \* domain of the operator: an event outside it is a harness error (the trace is then not consumed)
       /\ \A o \in 1..Len(ev.outs) :
            LET r == ev.outs[o].out
                ok == r.fault = 0 /\ r.shape = exp.shape /\ r.vals = exp.vals
                \* named deviation (D29): outer(a,b) with a Tensor<T,1> operand returns the right elements without the extent-1 axis
                squeezed == /\ x.form = "outer" /\ (x.sa = <<1>> \/ x.sb = <<1>>)
                            /\ r.fault = 0 /\ r.vals = exp.vals /\ r.shape = (IF x.sb = <<1>> THEN x.sa ELSE x.sb)
                \* named deviation (D30): the same overloads compute  a * b.toscalar()  as an expression; for a complex element type
                \* the library evaluates scalar*tensor to zero (the complex-expression defect of C02), so the result is all zeros
                unitzero == /\ x.form = "outer" /\ (x.sa = <<1>> \/ x.sb = <<1>>) /\ cx
                            /\ r.fault = 0 /\ r.shape = (IF x.sb = <<1>> THEN x.sa ELSE x.sb)
                            /\ \A q \in DOMAIN r.vals : r.vals[q] = Zero(cx)
            IN IF ok THEN TRUE
               ELSE IF squeezed THEN RejectTag(l, ev.case, ev.outs[o].cfg, "outer_unit_squeezed")
               ELSE IF unitzero THEN RejectTag(l, ev.case, ev.outs[o].cfg, "outer_unit_complex_zero")
               ELSE Reject(l, ev.case, ev.outs[o].cfg)

\* L2 binding: the classifier values and the vector length the code computed must be those of EinsumDispatch.
\* A mismatch is MODEL-DRIFT (printed, never a violation).
B01(b) == IF b THEN 1 ELSE 0
JudgeMeta(ev) ==
    LET x == ev.in IN
    \A o \in 1..Len(ev.outs) :
        LET r == ev.outs[o].out
            same == /\ r.pr = B01(IsPairReduction(x.la, x.lb))
                    /\ r.mv = B01(IsMatVec(x.la, x.lb))
                    /\ r.vm = B01(IsVecMat(x.la, x.lb))
                    /\ r.mm = B01(MatMat(x.la, x.lb) = "t")
                    /\ r.stride = VecStride(x.T, "any", x.la, x.lb, x.sb)
        IN IF same THEN TRUE ELSE PrintT(<<"DRIFT", l, ev.case, ev.outs[o].cfg>>)

Init == l = 1
Next == /\ l <= Len(Tr)
        /\ LET ev == Tr[l] IN
             CASE ev.e = "Einsum" -> JudgeEinsum(ev)
               [] ev.e = "Meta" -> JudgeMeta(ev)
               [] ev.e \in {"Fault", "CompileFail"} -> \A o \in 1..Len(ev.outs) : Reject(l, ev.case, ev.outs[o].cfg)
        /\ l' = l + 1
Spec == Init /\ [][Next]_l
=====================================================================================
