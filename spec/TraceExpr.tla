--------------------------------- MODULE TraceExpr ---------------------------------
(* Trace validation of element-wise expression events (C02).                                     *)
(*   in  = [T, tree, aop, N, s, env |-> [a, b, c, q, d, m |-> data], pre]                          *)
(*   outs = << [cfg, out |-> [vals]] >>            (vals: destination after  D aop= tree)          *)
(* The scalar node of the tree carries a placeholder; the drawn scalar is in.s.                   *)
(* Table mode (in.mode = "table"): operands are boundary / special values logged as 16-bit limbs;  *)
(* in.ref is the result of the same scalar C++ operations applied element by element by plain       *)
(* scalar code; the judge decides the structural claim out[p] = ref[p] for every p.                 *)
EXTENDS Expr
VARIABLE l

RECURSIVE Subst(_, _)
Subst(e, sv) == CASE e.k \in {"t", "k"} -> e
                  [] e.k = "s" -> [k |-> "s", v |-> sv]
                  [] e.k \in {"neg", "abs", "sqrt", "not"} -> [k |-> e.k, x |-> Subst(e.x, sv)]
                  [] OTHER -> [k |-> e.k, l |-> Subst(e.l, sv), r |-> Subst(e.r, sv)]

JudgeExprC(ev) ==
    LET x == ev.in
        e == Subst(x.tree, x.s)
    IN IF ~RingOnly(e) THEN PrintT(<<"DOMAIN", l, ev.case>>)
       ELSE LET exp == AssignC(x.aop, x.pre, EvalC(e, x.env, x.N))
            IN \A o \in 1..Len(ev.outs) : IF ev.outs[o].out.vals = exp THEN TRUE ELSE Reject(l, ev.case, ev.outs[o].cfg)

JudgeExpr(ev) ==
    LET x == ev.in
        e == Subst(x.tree, x.s)
        dom == InDomain(e, x.env, x.N)
        exp == IF dom THEN Assign(x.aop, x.pre, Eval(e, x.env, x.N)) ELSE <<>>
    IN IF ~dom THEN PrintT(<<"DOMAIN", l, ev.case>>)
       ELSE \A o \in 1..Len(ev.outs) : IF ev.outs[o].out.vals = exp THEN TRUE ELSE Reject(l, ev.case, ev.outs[o].cfg)

\* named deviation (finding D17): `round` -- wherever the result differs from std::round it equals std::nearbyint (halves to even)
HalfEven(ev, got) == "alt" \in DOMAIN ev.in /\ \A p \in 1..Len(got) : got[p] = ev.in.ref[p] \/ got[p] = ev.in.alt[p]
\* min / max of +0 and -0: both zeros ARE the minimum (maximum) -- the scalar operation returns its first operand, the SIMD instruction its
\* second; the property equates values, and +0 = -0, so for these two operations a zero of either sign matches a zero of either sign
\* (limbs are 16-bit words, least significant first: -0 is 0,..,0,32768)
IsZeroW(w) == (\A k \in 1..(Len(w) - 1) : w[k] = 0) /\ w[Len(w)] \in {0, 32768}
SameValues(ev, got) ==
    \/ got = ev.in.ref
    \/ /\ ev.in.op \in {"min", "max"} /\ ev.in.T \in {"f32", "f64"} /\ Len(got) = Len(ev.in.ref)
       /\ \A q \in 1..Len(got) : got[q] = ev.in.ref[q] \/ (IsZeroW(got[q]) /\ IsZeroW(ev.in.ref[q]))
JudgeTable(ev) == \A o \in 1..Len(ev.outs) :
                     IF SameValues(ev, ev.outs[o].out.limbs) THEN TRUE
                     ELSE IF HalfEven(ev, ev.outs[o].out.limbs) THEN RejectTag(l, ev.case, ev.outs[o].cfg, "round_half_even")
                     ELSE Reject(l, ev.case, ev.outs[o].cfg)

Init == l = 1
Next == /\ l <= Len(Tr)
        /\ LET ev == Tr[l] IN
             CASE ev.e = "Expr" -> IF IsCx(ev.in.T) THEN JudgeExprC(ev) ELSE JudgeExpr(ev)
               [] ev.e = "ExprTable" -> JudgeTable(ev)
               [] ev.e \in {"Fault", "CompileFail"} -> \A o \in 1..Len(ev.outs) : Reject(l, ev.case, ev.outs[o].cfg)
        /\ l' = l + 1
Spec == Init /\ [][Next]_l
=====================================================================================
