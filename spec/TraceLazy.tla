--------------------------------- MODULE TraceLazy ---------------------------------
(* Trace validation of lazy-vs-eager events (C09).                                                 *)
(*   in = [T, n, x, dest, tree, env |-> [A, B, C, U, D]]   outs = << [cfg, out |-> [lazy, eager]] >>  *)
(* lazy: destination after  D x= <lazy expression>;  eager: after  D x= <the same expression built    *)
(* from the immediately evaluating functions on the original operands>.  Both must equal the L1 value. *)
(* A lazy result that equals the staged-assignment design model but not L1 is the named deviation      *)
(* "staged_alias" (findings D9 / D9m).  Chain events check products of 2..5 rectangular matrices.      *)
EXTENDS StagedAssign, Matmul
VARIABLE l

JudgeLazy(ev) ==
    LET v == ev.in
        dom == Dom(v.tree, v.env, v.n)
        exp == IF dom THEN Expected(v.x, v.tree, v.env, v.n) ELSE <<>>
        stg == IF dom THEN Staged(v.x, v.tree, v.env, v.n, v.dest) ELSE <<>>
    IN IF ~dom THEN PrintT(<<"DOMAIN", l, ev.case>>)
       ELSE \A o \in 1..Len(ev.outs) :
              LET r == ev.outs[o].out IN
              IF r.eager # exp THEN RejectTag(l, ev.case, ev.outs[o].cfg, "eager_wrong")
              ELSE IF r.lazy = exp THEN TRUE
              ELSE IF r.lazy = stg THEN RejectTag(l, ev.case, ev.outs[o].cfg, "staged_alias")
              ELSE Reject(l, ev.case, ev.outs[o].cfg)

\* chain of lazy products  M1 % M2 % ... % Mk : equals the left-to-right product whatever association the library picks
RECURSIVE ChainProd(_, _, _)
ChainProd(ms, dims, k) ==      \* product of the first k matrices; dims = <<d0, d1, ..., dk>>
    IF k = 1 THEN ms[1] ELSE Product(ChainProd(ms, dims, k - 1), ms[k], dims[1], dims[k], dims[k + 1], FALSE)
JudgeChain(ev) ==
    LET v == ev.in
        exp == ChainProd(v.ms, v.dims, Len(v.ms))
    IN \A o \in 1..Len(ev.outs) : IF ev.outs[o].out.lazy = exp /\ ev.outs[o].out.eager = exp THEN TRUE ELSE Reject(l, ev.case, ev.outs[o].cfg)

Init == l = 1
Next == /\ l <= Len(Tr)
        /\ LET ev == Tr[l] IN
             CASE ev.e = "Lazy" -> JudgeLazy(ev)
               [] ev.e = "Chain" -> JudgeChain(ev)
               [] ev.e \in {"Fault", "CompileFail"} -> \A o \in 1..Len(ev.outs) : Reject(l, ev.case, ev.outs[o].cfg)
        /\ l' = l + 1
Spec == Init /\ [][Next]_l
=====================================================================================
