--------------------------------- MODULE TraceLinalg ---------------------------------
(* Trace validation of the factorisation events (C10 Inverse, C11 LU, C12 Solve, C13 QR).          *)
(* One event per case, joined over the configurations that executed it:                             *)
(*   in   = [T, strategy, form, pk, rhs, fam, d, v, need, mat, n, nb, sA, A (, k, B for Solve)]     *)
(*   outs = << [cfg, isa, out |-> [...]] ... >>                                                      *)
(* Decided by TLC's own arithmetic on the logged integers: shapes; structure of the factors (entry    *)
(* classes Lc/Uc/Rc); bijectivity of the returned permutation in the encoding that was requested;      *)
(* that the permutation the residual routine used is the one TLC decodes; the library's apply_pivot /   *)
(* reconstruct on exact data; the defining identity whenever the result is a small dyadic.              *)
(* Judged on harness-measured scalars: every ratio_milli <= 1000*CBound (Linalg!JudgeRatio), for the    *)
(* cases inside the property's domain (Linalg!InDomain); the others are skipped, never failed.          *)
EXTENDS Linalg
VARIABLE l

\* ---- C10 --------------------------------------------------------------------------------------
InverseOK(x, r) ==
    LET n == x.n
        dom(b) == InDomain(r.cond_milli[b], 0)
    IN /\ r.shape = <<n, n>>
       /\ Len(r.r1) = x.nb /\ Len(r.r2) = x.nb /\ Len(r.cond_milli) = x.nb
       /\ \A b \in 1..x.nb : dom(b) => JudgeRatio(r.r1[b], CBound) /\ JudgeRatio(r.r2[b], CBound)      \* ||A X - I||, ||X A - I||
       /\ IF r.exact = 1 THEN (InverseExact(x.A, x.sA, r.Xs, r.xs, n) <=> (r.r1[1] = 0 /\ r.r2[1] = 0)) ELSE TRUE

\* ---- permutation outputs (C11, C13) --------------------------------------------------------------
\* the permutation returned in the requested encoding is a bijection, and `perm` (what the residual routine used) is its decoding
PermOK(x, r) ==
    CASE x.pk = "none" -> r.P = <<>> /\ r.perm = Iota(x.n)
      [] x.pk = "V" -> r.pok = 1 /\ IsBijection(r.P, x.n, "V") /\ r.perm = r.P
      [] x.pk = "M" -> r.pok = 1 /\ IF IsBijection(r.P, x.n, "M") THEN r.perm = PermOfMatrix(r.P, x.n) ELSE FALSE

\* ---- C11 --------------------------------------------------------------------------------------
LUOK(x, r) ==
    LET n == x.n IN
    IF ~InDomain(r.cond_milli, r.growth_milli) THEN TRUE                    \* outside the property's domain: skipped
    ELSE /\ r.shape = <<n, n, n, n>>
         /\ UnitLower(r.Lc, n)                                              \* exact zeros above, exact ones on the diagonal
         /\ Upper(r.Uc, n)                                                  \* exact zeros below
         /\ IF PermOK(x, r)
            THEN LET PA == TLCEval(ApplyPerm(x.A, n, n, r.perm))
                 IN /\ r.PA = PA                                            \* apply_pivot(A, P): (PA)[i] = A[perm(i)]
                    /\ r.back = x.A                                         \* reconstruct(I, PA, P) returns A exactly
                    /\ JudgeRatio(r.r_lu, CBound)                           \* ||L U - P A||  / (n eps || |L||U| ||)
                    /\ JudgeRatio(r.r_rec, CBound)                          \* ||reconstruct(L,U,P) - A|| / (same)
                    /\ IF r.exact = 1 THEN (LUExact(PA, x.sA, r.Ls, r.ls, r.Us, r.us, n) <=> r.r_lu = 0) ELSE TRUE
            ELSE FALSE

\* ---- C12 --------------------------------------------------------------------------------------
SolveOK(x, r) ==
    LET n == x.n IN
    IF ~InDomain(r.cond_milli, 0) THEN TRUE
    ELSE /\ r.shape = (IF x.rhs = "vec" THEN <<n>> ELSE <<n, x.k>>)
         /\ JudgeRatio(r.r, CBound)                                         \* max_j ||A x_j - b_j|| / (n eps cond(A) ||b_j||)
         /\ IF r.exact = 1 THEN (SolveExact(x.A, x.sA, r.Xs, r.xs, x.B, n, x.k) <=> r.r = 0) ELSE TRUE

\* ---- C13 --------------------------------------------------------------------------------------
\* The library pre-pivots ROWS (Q R = P A, unary_qr_op.h); the property speaks of the column-pivoted input.
\* Both readings of "the pivoted input" are accepted, for the permutation that was returned.
QROK(x, r) ==
    LET n == x.n IN
    IF ~QRInDomain(x.T, r.cond_k) THEN TRUE
    ELSE /\ r.shape = <<n, n, n, n>>
         /\ Upper(r.Rc, n)
         /\ IF PermOK(x, r)
            THEN LET PA == TLCEval(ApplyPerm(x.A, n, n, r.perm))
                 IN /\ r.PA = PA
                    /\ JudgeRatio(r.r_orth, CBound)                         \* ||Q'Q - I|| / (n eps cond(A))
                    /\ (JudgeRatio(r.r_row, CBound) \/ JudgeRatio(r.r_col, CBound))      \* ||Q R - pivoted A|| / (n eps ||A||)
                    /\ (r.hasdet = 1 => JudgeRatio(r.r_det, CBound))        \* |det_QR - prod diag R| / (n eps |prod|); hasdet = 2: prod outside the range of T, skipped
                    /\ IF r.exact = 1 THEN (QRExact(PA, x.sA, r.Qs, r.qs, r.Rs, r.rs, n) <=> (r.r_orth = 0 /\ r.r_row = 0)) ELSE TRUE
                    /\ IF r.detexact = 1 THEN DiagProduct(r.Rs, n) = r.dets ELSE TRUE
            ELSE FALSE

\* Named deviation (finding D16): solve<SimpleInvPiv>(A, B) with a MATRIX right-hand side undoes the pre-pivot row-wise
\* (reconstruct) instead of column-wise (reconstruct_colwise, as the vector overload does): it returns X with
\* (P A)(P X) = B for the static pre-pivot P.  r_dev is the residual of exactly that identity, pdev the permutation used for it.
SolveDev(x, r) == IF /\ x.strategy = "SimpleInvPiv" /\ x.rhs = "mat" /\ r.hasdev = 1
                     /\ r.pdev = StaticPivot(x.A, x.n) /\ JudgeRatio(r.r_dev, CBound)
                  THEN "rowwise_reconstruct" ELSE ""
NoDev(x, r) == ""

Judge(ev, okf(_, _), devf(_, _)) ==
    \A o \in 1..Len(ev.outs) :
       IF okf(ev.in, ev.outs[o].out) THEN TRUE
       ELSE LET tag == devf(ev.in, ev.outs[o].out)
            IN IF tag # "" THEN RejectTag(l, ev.case, ev.outs[o].cfg, tag) ELSE Reject(l, ev.case, ev.outs[o].cfg)

Init == l = 1
Next == /\ l <= Len(Tr)
        /\ LET ev == Tr[l] IN
             CASE ev.e = "Inverse" -> Judge(ev, InverseOK, NoDev)
               [] ev.e = "LU" -> Judge(ev, LUOK, NoDev)
               [] ev.e = "Solve" -> Judge(ev, SolveOK, SolveDev)
               [] ev.e = "QR" -> Judge(ev, QROK, NoDev)
               [] ev.e \in {"Fault", "CompileFail"} -> \A o \in 1..Len(ev.outs) : Reject(l, ev.case, ev.outs[o].cfg)
        /\ l' = l + 1
Spec == Init /\ [][Next]_l
=====================================================================================
