-------------------------------- MODULE TraceMatmul --------------------------------
(* Trace validation of matrix-product events (C01).  One event per case, joined over the        *)
(* configurations that executed it:                                                             *)
(*   in  = [T, form, M, K, N, A, B, pre]      outs = << [cfg, out |-> [blk]] ... >>             *)
(* blk is the guarded destination block after the call.  The expected block is computed once     *)
(* from the L1 operator and compared with every configuration (ProductSemantics + Frame).        *)
EXTENDS Matmul, SimdDispatch
VARIABLE l

AopOf(form) == CASE form \in {"eager", "t_ctor", "t_assign"} -> "set"
                 [] form = "t_add" -> "add"
                 [] form = "t_sub" -> "sub"
                 [] form = "t_mul" -> "mul"

Expected(x) == LET cx == IsCx(x.T)
               IN Guarded(Assigned(AopOf(x.form), x.pre, x.A, x.B, x.M, x.K, x.N, cx), cx)

JudgeMatmul(ev) == LET exp == Expected(ev.in)
                   IN \A o \in 1..Len(ev.outs) :
                         IF ev.outs[o].out.blk = exp THEN TRUE ELSE Reject(l, ev.case, ev.outs[o].cfg)

\* a fault or a unit that does not compile is never conformant
JudgeFault(ev) == \A o \in 1..Len(ev.outs) : Reject(l, ev.case, ev.outs[o].cfg)

\* L2 binding: the vector size the code picked must be the one SimdDispatch predicts.  A mismatch is
\* MODEL-DRIFT (reported, never a violation): the dispatch rule may change while the property holds.
JudgeMeta(ev) == \A o \in 1..Len(ev.outs) :
                    IF ev.outs[o].out.size = BestSize(ev.in.T, ev.outs[o].isa, ev.in.N) THEN TRUE
                    ELSE PrintT(<<"DRIFT", l, ev.case, ev.outs[o].cfg>>)

Init == l = 1
Next == /\ l <= Len(Tr)
        /\ LET ev == Tr[l] IN
             CASE ev.e = "Matmul" -> JudgeMatmul(ev)
               [] ev.e = "Meta" -> JudgeMeta(ev)
               [] ev.e \in {"Fault", "CompileFail"} -> JudgeFault(ev)
        /\ l' = l + 1
Spec == Init /\ [][Next]_l
=====================================================================================
