-------------------------------- MODULE TraceMemory --------------------------------
(* Trace validation of placement-mode events (C07).                                               *)
(*   MemOp:   in = [T, op, N | M,K,N, side, mis, a, b, s]   out = [fault, allocs, canary, vals]      *)
(*   IndexCheck: in = [shape, idx]    out = [raised, fault]                                          *)
EXTENDS Memory
VARIABLE l

Value(x) ==
    CASE x.op = "copy"  -> x.a
      [] x.op = "axpy"  -> Axpy(x.s, x.a, x.b)
      [] x.op = "scale_inplace" -> [i \in 1..Len(x.a) |-> x.s * x.a[i]]
      [] x.op = "sum"   -> <<SumOf(x.a)>>
      [] x.op = "inner" -> <<DotOf(x.a, x.b)>>
      [] x.op = "sqnorm" -> <<SqNorm(x.a)>>
      [] x.op = "min"   -> <<MinOf(x.a)>>
      [] x.op = "max"   -> <<MaxOf(x.a)>>
      [] x.op = "view_rev2" -> [i \in 1..((Len(x.a) + 1) \div 2) |-> x.a[2 * i - 1]]        \* a(seq(0,N,2))
      [] x.op = "view_write" -> [i \in 1..Len(x.a) |-> IF i % 2 = 1 THEN x.s ELSE x.a[i]]    \* a(seq(0,N,2)) = s
      [] x.op = "matmul" -> MatMulOf(x.a, x.b, x.M, x.K, x.N)
      \* operands are recorded with zeros outside their tagged triangles: the triangular product is the general product of them (C17)
      [] x.op = "tmatmul" -> MatMulOf(x.a, x.b, x.M, x.K, x.N)
      [] x.op = "transpose" -> TransOf(x.a, x.M, x.N)
      [] x.op = "matvec" -> MatMulOf(x.a, x.b, x.M, x.K, 1)

JudgeMem(ev) ==
    \A o \in 1..Len(ev.outs) :
       LET r == ev.outs[o].out IN
       IF NoFault(r) /\ NoHeap(r) /\ FrameOK(r) /\ r.vals = Value(ev.in) THEN TRUE
       ELSE RejectTag(l, ev.case, ev.outs[o].cfg,
              IF ~NoFault(r) THEN "fault" ELSE IF ~NoHeap(r) THEN "heap" ELSE IF ~FrameOK(r) THEN "canary" ELSE "value")

JudgeIndex(ev) ==
    \A o \in 1..Len(ev.outs) :
       LET r == ev.outs[o].out
           should == ~InRange(ev.in.shape, ev.in.idx)
       IN IF r.fault = 0 /\ (r.raised = 1) = should THEN TRUE ELSE Reject(l, ev.case, ev.outs[o].cfg)

Init == l = 1
Next == /\ l <= Len(Tr)
        /\ LET ev == Tr[l] IN
             CASE ev.e = "MemOp" -> JudgeMem(ev)
               [] ev.e = "IndexCheck" -> JudgeIndex(ev)
               [] ev.e \in {"Fault", "CompileFail"} -> \A o \in 1..Len(ev.outs) : Reject(l, ev.case, ev.outs[o].cfg)
        /\ l' = l + 1
Spec == Init /\ [][Next]_l
=====================================================================================
