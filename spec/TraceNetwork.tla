-------------------------------- MODULE TraceNetwork --------------------------------
(* Trace validation of multi-operand einsum events (C15).                                          *)
(*   in = [T, labels, shapes, vals (one sequence per operand), opmin]                                 *)
(*   outs = << [cfg, out |-> [shape, vals, variant]] >>                                               *)
(* Judged against Einsum!Einstein: free labels in order of first appearance over ALL index lists,      *)
(* extents from the operands, every element the full Einstein sum.                                     *)
(* Named deviation "pairing_order" (finding D8): the elements are those of the correct tensor laid out  *)
(* in a different order of the free labels (the order in which the pairwise steps produced them).       *)
(* L2 binding (3 operands): the order found must be NetworkOrder!ImplOrder3(labels, variant); if not,   *)
(* a DRIFT line is printed (the design model no longer describes the code) -- never a rejection.        *)
EXTENDS NetworkOrder
VARIABLE l

Orders == JsonDeserialize(IOEnv.NET_ORDERS)      \* network (case id) -> arrangements of the free labels observed on the unchanged tree
OpsOf(x) == [o \in 1..Len(x.labels) |-> [labels |-> x.labels[o], shape |-> x.shapes[o], vals |-> x.vals[o]]]
\* all arrangements of a sequence of at most 4 distinct labels
Arr(s) == {p \in [1..Len(s) -> ToSetOf(s)] : ToSetOf(p) = ToSetOf(s)}

JudgeNet(ev) ==
    LET x == ev.in
        ops == OpsOf(x)
        cx == IsCx(x.T)
        exp == Einstein(ops, cx)
        free == FreeLabels(ops)
    IN \A o \in 1..Len(ev.outs) :
         LET r == ev.outs[o].out
             ok == r.shape = exp.shape /\ r.vals = exp.vals
             others == {p \in Arr(free) : p # free /\ r.vals = EinsteinSumOut(ops, p, cx)}
             \* L2 binding of the cost model: the logged which_variant must be the one NetworkOrder!CostVariant derives (DRIFT otherwise)
             costDrift == Len(x.labels) = 3 /\ r.variant \in 0..3
                          /\ r.variant # CostVariant(x.labels[1], x.labels[2], x.labels[3], ExtentMap(x.labels, x.shapes))
             \* the order finding D8 is recognised narrowly: for 3 operands the layout must be the one the L2 model derives from the logged variant
             \* (NetworkOrder!ImplOrder3); for more operands it must be one of the arrangements recorded for this very network on the unchanged
             \* tree (spec/net_orders.json; a network that is not in the table is only recognised generically).  Any other arrangement of the
             \* free labels is tagged pairing_order_other, which no finding lists.
             known == IF Len(x.labels) = 3 THEN r.variant \in 0..2 /\ ImplOrder3(x.labels[1], x.labels[2], x.labels[3], r.variant) \in others
                      ELSE ev.case \notin DOMAIN Orders \/ others \subseteq ToSetOf(Orders[ev.case])
         IN (IF costDrift THEN PrintT(<<"DRIFT", l, ev.case, ev.outs[o].cfg, "cost">>) ELSE TRUE) /\
            IF ok THEN TRUE
            ELSE IF others # {}
                 THEN /\ RejectTag(l, ev.case, ev.outs[o].cfg, IF known THEN "pairing_order" ELSE "pairing_order_other")
                      /\ (IF Len(x.labels) > 3 THEN PrintT(<<"ORDER", ev.case, SetToSeq(others)>>) ELSE TRUE)
                 ELSE Reject(l, ev.case, ev.outs[o].cfg)

Init == l = 1
Next == /\ l <= Len(Tr)
        /\ LET ev == Tr[l] IN
             CASE ev.e = "NetEinsum" -> JudgeNet(ev)
               [] ev.e \in {"Fault", "CompileFail"} -> \A o \in 1..Len(ev.outs) : Reject(l, ev.case, ev.outs[o].cfg)
        /\ l' = l + 1
Spec == Init /\ [][Next]_l
=====================================================================================
