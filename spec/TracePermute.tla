-------------------------------- MODULE TracePermute --------------------------------
(* Trace validation of permute / permutation / transpose / trans / ctrans events (C14).           *)
(*   in = [T, fn, perm, shape, A, arg]     outs = << [cfg, out |-> [shape, vals, back]] >>         *)
(* `back` is the result of applying the inverse permutation to the result (PermInverse: must be A). *)
EXTENDS Permute
VARIABLE l

Exp(x, perm) == [shape |-> PermShape(x.shape, perm), vals |-> Permuted(x.A, x.shape, perm)]
Matches(o, e, x) == o.shape = e.shape /\ o.vals = e.vals /\ o.back = x.A

JudgePermute(ev) ==
    LET x == ev.in  cx == IsCx(x.T)
        p == x.perm
        e1 == Exp(x, p)
        e2 == Exp(x, InvPerm(p))
        ec == [shape |-> e1.shape, vals |-> Conjd(e1.vals, cx)]
    IN \A o \in 1..Len(ev.outs) :
         LET r == ev.outs[o].out
             ok == CASE x.fn = "permute" -> Matches(r, e1, x)
                     [] x.fn = "permutation" -> Matches(r, e1, x) \/ Matches(r, e2, x)     \* p or p^-1, same for extents and elements
                     [] x.fn \in {"transpose", "trans"} -> Matches(r, e1, x)
                     [] x.fn \in {"ctranspose", "ctrans"} -> Matches(r, ec, x)
             \* named deviation (finding D15): legacy permutation<> labels the data of the p^-1 permutation with the extents of p
             mixed == x.fn = "permutation" /\ r.shape = e1.shape /\ r.vals = e2.vals
         IN IF ok THEN TRUE ELSE IF mixed THEN RejectTag(l, ev.case, ev.outs[o].cfg, "legacy_mixed") ELSE Reject(l, ev.case, ev.outs[o].cfg)

Init == l = 1
Next == /\ l <= Len(Tr)
        /\ LET ev == Tr[l] IN
             CASE ev.e = "Permute" -> JudgePermute(ev)
               [] ev.e \in {"Fault", "CompileFail"} -> \A o \in 1..Len(ev.outs) : Reject(l, ev.case, ev.outs[o].cfg)
        /\ l' = l + 1
Spec == Init /\ [][Next]_l
=====================================================================================
