-------------------------------- MODULE TraceReduce --------------------------------
(* Trace validation of reduction / predicate / scalar-function events (C16).  One event per case,  *)
(* joined over the configurations that executed it:                                                 *)
(*   in  = [fn, T, arg, shape, sign, pos, op, strat, ls, thr, A, B, C, D]   (A..D as the harness     *)
(*         read them back from the tensors it passed to the library)                                 *)
(*   outs = << [cfg, isa, out |-> [r |-> <<exact integer results>>]  and / or  [q |-> scaled rounded result]] >> *)
(* The value of the first argument is A (tensor, view) or A + B (lazy expression), of the second     *)
(* C or C + D.  The expected result is computed ONCE from the L1 operators of Reduce and compared    *)
(* with every configuration.  r = BADV (1999999999) is the harness' encoding of "not an integer".    *)
EXTENDS Reduce
VARIABLE l

BADV == 1999999999
B2I(b) == IF b THEN 1 ELSE 0
Arg1(x) == IF x.arg \in {"expr", "cmp_es", "et", "ee"} THEN Plus(x.A, x.B) ELSE x.A
Arg2(x) == IF x.arg \in {"te", "ee"} THEN Plus(x.C, x.D) ELSE x.C
LastDim(x) == x.shape[Len(x.shape)]
\* the boolean tensor a predicate is applied to
BoolArg(x) == LET X == Arg1(x)
              IN CmpSeq(x.op, X, IF x.arg = "cmp_tt" THEN x.C ELSE [i \in 1..Len(X) |-> x.thr])

\* determinants judged exactly: the closed forms;  all others (LU, QR, simple for n > 4 = LU) by DetWithin
DetIsExact(x) == x.fn = "det_b" \/ (x.strat = "simple" /\ LastDim(x) <= 4)
IsDetTol(x) == x.fn \in {"determinant", "det"} /\ ~DetIsExact(x)

\* exact expected results, as the sequence the harness logs in out.r
Expected(x) ==
    LET X == Arg1(x)   n == LastDim(x)
    IN CASE x.fn = "sum" -> <<FoldSum(X)>>
         [] x.fn = "product" -> <<FoldProduct(X)>>
         [] x.fn = "min" -> <<FoldMin(X)>>
         [] x.fn = "max" -> <<FoldMax(X)>>
         [] x.fn = "norm" -> <<IF IsSquare(SumSq(X)) THEN ISqrt(SumSq(X)) ELSE BADV>>
         [] x.fn = "inner" -> <<Inner(X, Arg2(x))>>
         [] x.fn = "inner1" -> <<DiagSum(X, n, Len(x.shape))>>
         [] x.fn = "trace" -> <<Trace(X, n)>>
         [] x.fn = "trace_b" -> [b \in 1..x.shape[1] |-> Trace(Slice(X, n, b), n)]
         [] x.fn = "all_of" -> <<B2I(AllOf(BoolArg(x)))>>
         [] x.fn = "any_of" -> <<B2I(AnyOf(BoolArg(x)))>>
         [] x.fn = "none_of" -> <<B2I(NoneOf(BoolArg(x)))>>
         [] x.fn = "isequal" -> <<B2I(IsEqual(X, Arg2(x)))>>
         [] x.fn = "issymmetric" -> <<B2I(IsSymmetric(X, x.shape[1], x.shape[2]))>>
         [] x.fn = "isorthogonal" -> <<B2I(IsOrthogonal(X, n))>>
         [] x.fn \in {"determinant", "det"} -> <<DetBareiss(X, n)>>
         [] x.fn = "det_b" -> [b \in 1..x.shape[1] |-> DetBareiss(Slice(X, n, b), n)]

JudgeReduce(ev) ==
    LET x == ev.in
        X == TLCEval(Arg1(x))
        n == LastDim(x)
        exp == TLCEval(Expected(x))
        tol == IsDetTol(x)
        \* conditioning of the dominant form of the matrix (row exchange undone)
        Ad == IF x.sign = "swaplast" THEN SwapRows(X, n, n - 1, n) ELSE X
        rho == IF tol THEN RowNorm(Ad, n) ELSE 1
        delta == IF tol THEN Margin(Ad, n) ELSE 1
    IN \A o \in 1..Len(ev.outs) :
         LET out == ev.outs[o].out
             r == IF "r" \in DOMAIN out THEN out.r ELSE <<>>
             ok == CASE tol -> delta >= 1 /\ DetWithin(out.q, exp[1], x.ls, x.T, n, rho, delta)
                     [] x.fn = "norm" -> r = exp /\ NormBracket(out.q, SumSq(X))
                     [] x.fn = "min" -> r = exp /\ MinContract(r[1], X)
                     [] x.fn = "max" -> r = exp /\ MaxContract(r[1], X)
                     [] OTHER -> r = exp
             \* named deviations (documented defect classes); anything else is a plain rejection
             tag == CASE x.fn = "none_of" /\ r = <<B2I(AnyOf(BoolArg(x)))>> -> "none_is_any"            \* D4: none_of computes any_of
                      [] x.fn \in {"min", "max"} /\ Len(r) = 1 /\ ~IsElementOf(r[1], X) -> "not_an_element"   \* D3 class: an identity element leaked
                      \* D20: determinant<QR> = product(diag R) of a Gram-Schmidt R with positive diagonal = |det|
                      [] tol /\ x.strat = "qr" /\ exp[1] < 0 /\ delta >= 1 /\ DetWithin(out.q, 0 - exp[1], x.ls, x.T, n, rho, delta) -> "qr_abs"
                      [] OTHER -> ""
         IN IF ok THEN TRUE
            ELSE IF tag # "" THEN RejectTag(l, ev.case, ev.outs[o].cfg, tag)
            ELSE Reject(l, ev.case, ev.outs[o].cfg)

\* a fault, or a translation unit that does not compile in one configuration, is never conformant
JudgeFault(ev) == \A o \in 1..Len(ev.outs) : Reject(l, ev.case, ev.outs[o].cfg)

Init == l = 1
Next == /\ l <= Len(Tr)
        /\ LET ev == Tr[l] IN
             CASE ev.e = "Reduce" -> JudgeReduce(ev)
               [] ev.e \in {"Fault", "CompileFail"} -> JudgeFault(ev)
        /\ l' = l + 1
Spec == Init /\ [][Next]_l
=====================================================================================
