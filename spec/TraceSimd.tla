--------------------------------- MODULE TraceSimd ---------------------------------
(* Trace validation of SIMDVector events (C08) against the lane semantics of Simd.tla.             *)
(*   ev = [e |-> "Simd", case, in |-> x, outs |-> << [cfg, isa, out |-> o] ... >>]                   *)
(*   x  = [T, abi, N, op, form, mode, sc, osc, a, b?, c?, s?, sr?, M?, pre?, mask?, off?, ref?]      *)
(*   o  = [n, v] (lanes) | [h] (horizontal) | [n, blk] (guarded memory) | [n, v, v2] (operator[] and    *)
(*        operator()) | [n, err] (rcp / rsqrt)                                                       *)
(* Value representations (see Simd.tla): small mode = integers n (value n/sc) or pairs; integer-typed *)
(* RESULTS are always words <<0, limbs>>; bits mode = <<class, limbs>> for inputs, results and ref.   *)
(* The expected result is computed once per event and compared with every configuration's output.    *)
EXTENDS Simd
VARIABLE l

\* ---------------------------------------------------------------------------------------------
Bits(x) == x.mode = "bits"
NL(x) == NLimbs(x.T)
\* a lane of an integer-typed operand as a word, whatever the mode
Wd(x, v) == IF Bits(x) THEN Tail(v) ELSE FromInt(v, NL(x))
OutW(w) == <<0>> \o w
Lift(sr) == <<sr, 0>>                                           \* a real scalar operand of a complex operation

\* operand pair of a binary form, as recorded
Opnd(x, i) == CASE x.form \in {"vv", "ipv"} -> <<x.a[i], x.b[i]>>
                [] x.form \in {"vs", "ips"} -> <<x.a[i], x.s>>
                [] x.form = "sv" -> <<x.s, x.b[i]>>
                [] x.form \in {"vr", "ipr"} -> <<x.a[i], Lift(x.sr)>>
                [] x.form = "rv" -> <<Lift(x.sr), x.a[i]>>

CmpOpsT == {"eq", "ne", "lt", "gt", "le", "ge"}
HorizOps == {"sum", "product", "dot", "minimum", "maximum"}
RegOps == {"ctor0", "ctor_b", "asg_b", "set1", "setn", "setseq", "bcast_ptr", "copy", "asg_v", "index", "ctor_ld", "load", "aload"}

\* ---- integer element types: everything on words --------------------------------------------
ExpIntW(x, i) ==
    LET nl == NL(x)  A(j) == Wd(x, x.a[j])
        P == Wd(x, Opnd(x, i)[1])  Q == Wd(x, Opnd(x, i)[2])
    IN CASE x.op \in {"add", "sub", "mul"} -> WArith(x.op, P, Q)
         [] x.op = "div" -> (IF Bits(x) THEN Tail(x.ref[i]) ELSE FromInt(TruncDiv(Opnd(x, i)[1], Opnd(x, i)[2]), nl))     \* boundary values: table-judged
         [] x.op = "neg" -> WNeg(A(i)) [] x.op = "abs" -> WAbs(A(i))
         [] x.op \in {"pos", "copy", "asg_v", "index"} -> A(i)
         [] x.op \in {"fmadd", "fmsub", "fnmadd"} -> WFma(x.op, A(i), Wd(x, x.b[i]), Wd(x, x.c[i]))
         [] x.op = "min" -> WMin(P, Q) [] x.op = "max" -> WMax(P, Q)
         [] x.op \in {"reverse", "setn"} -> A(x.N + 1 - i)
         [] x.op = "ctor0" -> WZero(nl)
         [] x.op \in {"ctor_b", "asg_b", "set1", "bcast_ptr"} -> Wd(x, x.s)
         [] x.op = "setseq" -> WAdd(Wd(x, x.s), FromInt(i - 1, nl))
         [] x.op \in {"ctor_ld", "load", "aload"} -> Wd(x, x.M[x.off + i])
         [] x.op = "cast" -> WResize(A(i), NLimbs(x.form))
ExpInt(x, i) == IF x.op = "cast" /\ IsFloatT(x.form) THEN x.a[i]                      \* int -> float: small values, exact
                ELSE IF x.op \in CmpOpsT THEN B01(WCmp(x.op, Wd(x, Opnd(x, i)[1]), Wd(x, Opnd(x, i)[2])))
                ELSE OutW(ExpIntW(x, i))
ExpIntH(x) == LET A == [j \in 1..x.N |-> Wd(x, x.a[j])] IN
              OutW(CASE x.op = "sum" -> WHSum(A) [] x.op = "product" -> WHProd(A) [] x.op = "minimum" -> WHMin(A) [] x.op = "maximum" -> WHMax(A)
                     [] x.op = "dot" -> WHDot(A, [j \in 1..x.N |-> Wd(x, x.b[j])]))

\* ---- float / complex element types on small exact data --------------------------------------
ExpSmall(x, i) ==
    LET cx == IsCx(x.T)  P == Opnd(x, i)[1]  Q == Opnd(x, i)[2] IN
    CASE x.op \in {"add", "sub", "mul", "div"} -> Arith(x.op, P, Q, cx)
      [] x.op = "neg" -> Neg(x.a[i], cx) [] x.op = "abs" -> AbsI(x.a[i])
      [] x.op \in {"pos", "copy", "asg_v", "index"} -> x.a[i]
      [] x.op = "sqrt" -> ISqrt(x.a[i])
      [] x.op = "conj" -> Conj(x.a[i], TRUE) [] x.op = "real" -> x.a[i][1] [] x.op = "imag" -> x.a[i][2] [] x.op = "norm" -> Norm2(x.a[i])
      [] x.op = "crcp" -> <<TruncDiv(4 * x.a[i][1], Norm2(x.a[i])), TruncDiv(0 - 4 * x.a[i][2], Norm2(x.a[i]))>>      \* 1/z = conj(z)/|z|^2, |z|^2 in {1,2,4}
      [] x.op \in {"fmadd", "fmsub", "fnmadd"} -> Fma(x.op, x.a[i], x.b[i], x.c[i], x.sc, cx)
      [] x.op = "min" -> MinI(P, Q) [] x.op = "max" -> MaxI(P, Q)
      [] x.op \in CmpOpsT -> B01(Cmp(x.op, P, Q))
      [] x.op \in {"reverse", "setn"} -> x.a[x.N + 1 - i]
      [] x.op = "ctor0" -> Zero(cx)
      [] x.op \in {"ctor_b", "asg_b", "set1", "bcast_ptr"} -> x.s
      [] x.op = "setseq" -> x.s + (i - 1) * x.sc
      [] x.op \in {"ctor_ld", "load", "aload"} -> x.M[x.off + i]
      [] x.op = "cast" -> (IF IsIntT(x.form) THEN OutW(FromInt(TruncDiv(x.a[i], x.sc), NLimbs(x.form))) ELSE x.a[i])     \* float -> int truncates toward zero
ExpSmallH(x) == LET cx == IsCx(x.T) IN
                CASE x.op = "sum" -> HSum(x.a, cx) [] x.op = "product" -> HProd(x.a, cx) [] x.op = "dot" -> HDot(x.a, x.b, cx)
                  [] x.op = "minimum" -> HMin(x.a) [] x.op = "maximum" -> HMax(x.a)
\* preconditions of the exact-data argument (a failure here is a generator/recorder mistake, reported as such)
PreSmall(x) == \A i \in 1..x.N :
                 CASE x.op = "div" /\ ~IsIntT(x.T) /\ ~Bits(x) -> (IF IsCx(x.T) THEN CDivOK(Opnd(x, i)[1], Opnd(x, i)[2]) ELSE Opnd(x, i)[2] # 0 /\ ExactDiv(Opnd(x, i)[1], Opnd(x, i)[2]))
                   [] x.op = "div" /\ IsIntT(x.T) /\ ~Bits(x) -> Opnd(x, i)[2] # 0
                   [] x.op = "sqrt" /\ ~Bits(x) -> \E r \in 0..1024 : r * r = x.a[i]
                   [] x.op = "crcp" -> Norm2(x.a[i]) \in {1, 2, 4}
                   [] OTHER -> TRUE

\* ---- float bit patterns: interpreted where the operation is a bit operation, table-judged otherwise ------------
ExpBits(x, i) ==
    CASE x.op = "neg" -> FNeg(x.a[i]) [] x.op = "abs" -> FAbs(x.a[i])
      [] x.op \in {"pos", "copy", "index"} -> x.a[i]
      [] x.op \in {"reverse", "setn"} -> x.a[x.N + 1 - i]
      [] x.op \in {"ctor_b", "set1"} -> x.s
      [] x.op \in {"ctor_ld", "load"} -> x.M[x.off + i]
      [] OTHER -> x.ref[i]                                                    \* add sub mul div sqrt compare: the scalar table
\* the table must agree with the interpreted operations (consistency of the recorder's scalar reference)
RefConsistent(x) == ~("ref" \in DOMAIN x) \/ x.op \notin {"neg", "abs", "pos"} \/ IsIntT(x.T) \/ \A i \in 1..x.N : x.ref[i] = ExpBits(x, i)
RefConsistentInt(x) == ~Bits(x) \/ ~("ref" \in DOMAIN x) \/ x.op = "div" \/
                       (IF x.op \in HorizOps THEN x.ref = ExpIntH(x)
                        ELSE \A i \in 1..x.N : x.ref[i] = (IF x.op \in CmpOpsT THEN ExpInt(x, i) ELSE OutW(ExpIntW(x, i))))

\* ---------------------------------------------------------------------------------------------
Exp(x, i) == IF IsIntT(x.T) THEN ExpInt(x, i) ELSE IF Bits(x) THEN ExpBits(x, i) ELSE ExpSmall(x, i)
ExpV(x) == TLCEval([i \in 1..x.N |-> Exp(x, i)])
ExpH(x) == IF IsIntT(x.T) THEN ExpIntH(x) ELSE ExpSmallH(x)
\* output representation of a recorded memory / register lane value
Rep(x, v) == IF IsIntT(x.T) THEN OutW(Wd(x, v)) ELSE v
ZeroRep(x) == IF IsIntT(x.T) THEN OutW(WZero(NL(x))) ELSE Zero(IsCx(x.T))
PrevOf(x) == IF x.form = "zu" THEN [i \in 1..x.N |-> ZeroRep(x)] ELSE [i \in 1..x.N |-> Rep(x, x.c[i])]
MemRep(x) == [j \in 1..Len(x.M) |-> Rep(x, x.M[j])]
\* destination body after the (masked) store
BodyAfter(x, mask) == IF x.op = "mstore" THEN MaskStore(x.pre, x.off, x.a, mask) ELSE Store(x.pre, x.off, x.a)

MinMaxBitsOK(x, v) == \A i \in 1..x.N : LET P == Opnd(x, i)[1]  Q == Opnd(x, i)[2] IN
                         IF MinMaxFree(P, Q) THEN v[i] \in {P, Q} ELSE v[i] = x.ref[i]

\* verdict for one configuration's output:  "ok" | "bad" | the name of a recognised deviation
Verdict(x, o, ev_exp) ==
    LET N == x.N IN
    IF ~PreSmall(x) THEN "precondition"
    ELSE IF ~RefConsistent(x) \/ (IsIntT(x.T) /\ ~RefConsistentInt(x)) THEN "ref_table_inconsistent"
    ELSE IF x.op \in {"rcp", "rsqrt"} THEN
        (IF o.n = N /\ Len(o.err) = N /\ \A i \in 1..N : o.err[i] <= ApproxBound THEN "ok" ELSE "bad")
    ELSE IF x.form = "gp" /\ o.fault = 1 THEN "masked_access_faults"      \* a disabled lane was touched: it lies in a PROT_NONE page
    ELSE IF x.op = "mstore" /\ x.form = "gp" THEN
        \* remainder mask in front of a guard page: the enabled lanes 0..rem-1 hold the vector's lanes (a touched disabled lane faults)
        (IF x.mask = (2 ^ x.rem) - 1 /\ o.w = [i \in 1..x.rem |-> x.a[i]] THEN "ok"
         ELSE IF x.N = 16 /\ o.w = [i \in 1..x.rem |-> IF i <= 8 THEN x.a[i] ELSE x.pre[i]] THEN "mask_width8"
         ELSE "bad")
    ELSE IF x.op \in {"store", "astore", "mstore"} THEN
        (IF o.blk = Guarded(BodyAfter(x, IF x.op = "mstore" THEN x.mask ELSE 0), IsCx(x.T)) THEN "ok"
         \* named deviations: the disabled lanes of the window are overwritten with 0; only the low 8 mask bits of a 16-lane vector are honoured
         ELSE IF x.op = "mstore" /\ o.blk = Guarded([j \in 1..Len(x.pre) |-> IF j > x.off /\ j <= x.off + N THEN (IF Enabled(x.mask, j - x.off) THEN x.a[j - x.off] ELSE Zero(IsCx(x.T))) ELSE x.pre[j]], IsCx(x.T))
              THEN "mask_store_zeroes_disabled"
         ELSE IF x.op = "mstore" /\ N = 16 /\ o.blk = Guarded(BodyAfter(x, x.mask % 256), IsCx(x.T)) THEN "mask_width8"
         ELSE "bad")
    ELSE IF x.op = "mload" THEN
        (IF o.n = N /\ Len(o.v) = N /\ MaskLoadOK(o.v, MemRep(x), x.off, x.mask, PrevOf(x), ZeroRep(x)) THEN "ok"
         ELSE IF N = 16 /\ Len(o.v) = N /\ MaskLoadOK(o.v, MemRep(x), x.off, x.mask % 256, PrevOf(x), ZeroRep(x)) THEN "mask_width8"
         ELSE "bad")
    ELSE IF x.op \in HorizOps THEN
        (IF o.h = ev_exp THEN "ok"
         \* named deviation: the fold is seeded with 0 instead of the first lane
         ELSE IF x.op \in {"minimum", "maximum"} /\ ~IsIntT(x.T) /\ o.h = (IF x.op = "minimum" THEN MinI(HMin(x.a), 0) ELSE MaxI(HMax(x.a), 0)) THEN "hminmax_zero_seed"
         ELSE IF x.op \in {"minimum", "maximum"} /\ IsIntT(x.T) /\
                 o.h = OutW(IF x.op = "minimum" THEN WMin(Tail(ev_exp), WZero(NL(x))) ELSE WMax(Tail(ev_exp), WZero(NL(x)))) THEN "hminmax_zero_seed"
         ELSE "bad")
    ELSE IF x.op \in {"min", "max"} /\ Bits(x) /\ ~IsIntT(x.T) THEN
        (IF o.n = N /\ Len(o.v) = N /\ MinMaxBitsOK(x, o.v) THEN "ok" ELSE "bad")
    ELSE
        (IF o.n = N /\ o.v = ev_exp /\ (x.op = "index" => o.v2 = ev_exp) THEN "ok"
         \* named deviations
         ELSE IF x.op = "neg" /\ IsIntT(x.T) /\ o.v = [i \in 1..N |-> OutW(LET w == Wd(x, x.a[i]) IN [k \in 1..NL(x) |-> IF k = NL(x) THEN (w[k] + 32768) % 65536 ELSE w[k]])]
              THEN "int_neg_signflip"                        \* the float sign bit is flipped instead of negating
         ELSE IF x.op = "setn" /\ IsCx(x.T) /\ o.v = [i \in 1..N |-> x.a[i]] THEN "cset_first_arg_lane0"     \* complex set(): first argument in lane 0
         ELSE IF x.op = "crcp" /\ o.v = [i \in 1..N |-> <<0, 0>>] THEN "crcp_zero"                           \* complex rcp() returns 0
         ELSE IF x.op = "bcast_ptr" /\ o.v = [i \in 1..N |-> Rep(x, x.a[i])] THEN "bcast_noop"                \* broadcast() leaves the vector unchanged
         ELSE "bad")

ExpOf(x) == IF x.op \in HorizOps THEN ExpH(x)
            ELSE IF x.op \in {"rcp", "rsqrt", "store", "astore", "mstore", "mload"} \/ (x.op \in {"min", "max"} /\ Bits(x) /\ ~IsIntT(x.T)) THEN <<>>
            ELSE ExpV(x)

JudgeSimd(ev) ==
    LET x == ev.in
        ok_shape == x.N = LaneCount(x.T, x.abi, x.N) /\ x.osc = OutScale(x.op, x.sc) /\ Len(x.a) = x.N
        e == IF ok_shape /\ PreSmall(x) THEN ExpOf(x) ELSE <<>>
    IN \A k \in 1..Len(ev.outs) :
         LET v == IF ok_shape THEN Verdict(x, ev.outs[k].out, e) ELSE "shape" IN
         IF v = "ok" THEN TRUE ELSE IF v = "bad" THEN Reject(l, ev.case, ev.outs[k].cfg) ELSE RejectTag(l, ev.case, ev.outs[k].cfg, v)

Init == l = 1
Next == /\ l <= Len(Tr)
        /\ LET ev == Tr[l] IN
             CASE ev.e = "Simd" -> JudgeSimd(ev)
               [] ev.e = "Sweep" -> TRUE         \* coverage record of a native full-range sweep (its candidate vectors are ordinary Simd events)
               [] ev.e = "Meta" -> TRUE          \* L2 binding data (declared mask width), compared with Mask.tla by the driver: drift, never a verdict
               [] ev.e \in {"Fault", "CompileFail"} -> \A k \in 1..Len(ev.outs) : Reject(l, ev.case, ev.outs[k].cfg)
        /\ l' = l + 1
Spec == Init /\ [][Next]_l
=====================================================================================
