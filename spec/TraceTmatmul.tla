-------------------------------- MODULE TraceTmatmul --------------------------------
(* Trace validation of triangular-product events (C17).  One event per case and data draw,       *)
(* joined over the configurations that executed it:                                             *)
(*   Tmatmul:  in = [T, kind, form, lt, rt, M, K, N, A, B]    outs = << [cfg, isa, out |-> [blk]] >> *)
(*     blk = 4 guard cells ++ the M*N result ++ 4 guard cells.  For form "backend" the destination *)
(*     was filled with the sentinel before the call, so a cell the kernel does not write shows.    *)
(*   Meta:     in = [k, T, lt, rt, M, K, N]   out = [V, simdmask, clips |-> << [uo, ui, kf, kl] >>] *)
(*     the constexpr values of internal::find_kfirst / find_klast over all (i,j) of the shape for  *)
(*     the (uo,ui) pairs of the L2 model, and the vector width the library chose.                  *)
(* Judged with the L1 operators of Tmatmul (TriangularProduct); the L2 model TmatmulClip is only   *)
(* compared (DRIFT), never used to reject.                                                        *)
EXTENDS TmatmulClip
VARIABLE l

\* ---- L1 -----------------------------------------------------------------------------------------
\* a plan/harness bug (an operand that breaks the promise of its tag) must not become a violation: the
\* property says nothing about such a call
DomainOK(ev, ok) == IF ok THEN TRUE ELSE PrintT(<<"DOMAIN", l, ev.case>>)

BodyOf(blk) == SubSeq(blk, G + 1, Len(blk) - G)
\* named deviations (diagnosis only; every one of them is a rejection):
\*   "guard"      a guard cell around the destination changed (write outside the M x N result)
\*   "unwritten"  a result cell still holds the sentinel the destination was pre-filled with
\*   ""           a result cell holds a wrong value
Deviation(blk, exp, cx) ==
    IF Len(blk) # Len(exp) THEN "shape"
    ELSE IF \E p \in (1..G) \cup ((Len(blk) - G + 1)..Len(blk)) : blk[p] # exp[p] THEN "guard"
    ELSE IF \E p \in (G + 1)..(Len(blk) - G) : blk[p] # exp[p] /\ blk[p] = Sentinel(cx) THEN "unwritten"
    ELSE ""

JudgeTmatmul(ev) ==
    LET x == ev.in
        cx == IsCx(x.T)
        inDomain == Promise(x.A, x.B, x.M, x.K, x.N, x.lt, x.rt, cx)
        exp == Guarded(TProduct(x.A, x.B, x.M, x.K, x.N, cx), cx)
    IN IF ~inDomain THEN DomainOK(ev, FALSE)
       ELSE \A o \in 1..Len(ev.outs) :
              LET blk == ev.outs[o].out.blk IN
              \* TriangularProduct(A, B, M, K, N, lt, rt, body, cx) with the promise established, plus the frame (guards)
              \* (opsame = 0: the call changed one of its operands -- a write outside the result, tag "operand")
              IF blk = exp /\ ev.outs[o].out.opsame = 1 THEN TRUE
              ELSE IF blk = exp THEN RejectTag(l, ev.case, ev.outs[o].cfg, "operand")
              ELSE LET tag == Deviation(blk, exp, cx) IN
                   IF tag = "" THEN Reject(l, ev.case, ev.outs[o].cfg) ELSE RejectTag(l, ev.case, ev.outs[o].cfg, tag)

\* a fault or a unit that does not compile is never conformant
JudgeFault(ev) == \A o \in 1..Len(ev.outs) : Reject(l, ev.case, ev.outs[o].cfg)

\* ---- L2 binding: MODEL-DRIFT, never a violation ---------------------------------------------------
Drift(ev, o, what) == PrintT(<<"DRIFT", l, ev.case, ev.outs[o].cfg, what>>)
JudgeMeta(ev) ==
    LET x == ev.in
        n == x.M * x.N
    IN \A o \in 1..Len(ev.outs) :
         LET r == ev.outs[o].out
             isa == ev.outs[o].isa
             V == BestSize(x.T, isa, x.N)
             simd == IF HasAVX2(isa) \/ HasMasks(isa) THEN 1 ELSE 0
             tabsOK == \A q \in 1..Len(r.clips) :
                          LET cl == r.clips[q] IN
                          /\ cl.kf = [p \in 1..n |-> KFirst(x.lt, x.rt, (p - 1) \div x.N, (p - 1) % x.N)]
                          /\ cl.kl = [p \in 1..n |-> KLast(x.lt, x.rt, x.K, cl.uo, cl.ui, (p - 1) \div x.N, (p - 1) % x.N)]
             pairs == { <<r.clips[q].uo, r.clips[q].ui>> : q \in 1..Len(r.clips) }
             pairsOK == IF Prim(x.T) THEN pairs = ClipParams(x.M, x.N, V, TMasked(isa, x.N, V)) ELSE pairs = { <<1, 1>> }
         IN /\ (IF ~Prim(x.T) \/ (r.V = V /\ r.simdmask = simd) THEN TRUE ELSE Drift(ev, o, "V"))
            /\ (IF tabsOK THEN TRUE ELSE Drift(ev, o, "tab"))
            /\ (IF pairsOK THEN TRUE ELSE Drift(ev, o, "pairs"))

Init == l = 1
Next == /\ l <= Len(Tr)
        /\ LET ev == Tr[l] IN
             CASE ev.e = "Tmatmul" -> JudgeTmatmul(ev)
               [] ev.e = "Meta" -> JudgeMeta(ev)
               [] ev.e \in {"Fault", "CompileFail"} -> JudgeFault(ev)
        /\ l' = l + 1
Spec == Init /\ [][Next]_l
=====================================================================================
