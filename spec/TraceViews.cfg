SPECIFICATION Spec
INVARIANT GuardsOK
POSTCONDITION AllConsumed
CHECK_DEADLOCK FALSE
