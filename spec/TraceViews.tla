--------------------------------- MODULE TraceViews ---------------------------------
(* Trace validation of runs of the tensor machine (C04, C05, C18, C19, C20).                     *)
(* One trace = one configuration and element type; executions are separated by Reset events.     *)
(* Every event carries the call (`in`, identical to the plan entry TLC generated) and what the     *)
(* implementation did (`out`: the whole guarded block of the touched buffer, or the values read).  *)
(* The judge applies the L1 action of TensorMachine to its own current memory and compares.        *)
(* After a divergence the memory is resynchronised to the implementation's block so that the rest  *)
(* of the execution is still judged step by step.                                                  *)
EXTENDS TensorMachine
VARIABLES l, mem, live       \* live = FALSE after a rejection: the rest of this execution is skipped (no cascades)

Cx(ev) == IsCx(ev.in.T)
Bad(ev) == Reject(l, ev.case, ev.cfg) /\ live' = FALSE
Good == live' = live

\* Reset: every buffer is re-initialised; the logged blocks must be the initial pattern
ResetMem(ev) == [h \in DOMAIN ev.in.bufs |-> InitBlock(ev.in.bufs[h].b, ev.in.bufs[h].n, Cx(ev))]
TReset(ev) == /\ mem' = ResetMem(ev)
              /\ IF \A h \in DOMAIN ev.in.bufs : ev.out.blks[h] = ResetMem(ev)[h] THEN live' = TRUE ELSE Bad(ev)

InDom(ev) == \A a \in 1..Len(ev.in.shape) : Admissible(ev.in.r[a], ev.in.shape[a])
DomainOK(ev, ok) == IF ok THEN TRUE ELSE PrintT(<<"DOMAIN", l, ev.case>>)

\* writes: Snapshot + Frame on the touched buffer (guards included)
\* (cells the recorder could not represent -- non-integers, huge values -- are logged as BADV; they can never equal an
\*  expected value, and are replaced by 0 when resynchronising so that later arithmetic on them cannot overflow TLC's integers)
BADV == 1999999999
SanV(v) == IF v = BADV THEN 0 ELSE v
San(blk, cx) == TLCEval([p \in DOMAIN blk |-> IF cx THEN <<SanV(blk[p][1]), SanV(blk[p][2])>> ELSE SanV(blk[p])])
Resync(ev) == mem' = [mem EXCEPT ![ev.in.buf] = San(ev.out.blk, Cx(ev))]
TSliceWrite(ev) ==
    LET exp == SliceWrite(mem, ev.in.buf, ev.in.shape, ev.in.r, ev.in.aop, ev.in.rhs, Cx(ev))[ev.in.buf]
    IN /\ DomainOK(ev, InDom(ev) /\ DupFree(Sel(ev.in.shape, ev.in.r)) /\ Prod(ev.in.shape) = BodyLen(mem[ev.in.buf]))
       /\ IF ev.out.blk = exp THEN Good ELSE Bad(ev)
       /\ Resync(ev)
\* one view object, two consecutive assignments: the second acts on the memory the first produced (both snapshot semantics)
TSliceWrite2(ev) ==
    LET m1  == SliceWrite(mem, ev.in.buf, ev.in.shape, ev.in.r, ev.in.aop1, ev.in.rhs1, Cx(ev))
        exp == SliceWrite(m1, ev.in.buf, ev.in.shape, ev.in.r, ev.in.aop2, ev.in.rhs2, Cx(ev))[ev.in.buf]
    IN /\ DomainOK(ev, InDom(ev))
       /\ IF ev.out.blk = exp THEN Good ELSE Bad(ev)
       /\ Resync(ev)
TScalarWrite(ev) ==
    LET exp == AssignSel(mem, ev.in.buf, <<ScalarOff(ev.in.shape, ev.in.idx)>>, ev.in.aop, [k |-> "sc", v |-> ev.in.v], Cx(ev))[ev.in.buf]
    IN /\ IF ev.out.blk = exp THEN Good ELSE Bad(ev)
       /\ Resync(ev)
\* the selection of an index view: the logged flat offsets; for the per-axis forms they must be the outer product of the
\* per-axis index lists (SelectSemantics for index views)
IdxSelOf(ev) == ev.in.sel
IdxFormOK(ev) == ev.in.form = "flat" \/ ev.in.sel = IdxSel(ev.in.shape, ev.in.axes)
TIndexWrite(ev) ==
    LET sel == IdxSelOf(ev)
        exp == AssignSel(mem, ev.in.buf, sel, ev.in.aop, ev.in.rhs, Cx(ev))[ev.in.buf]
    IN /\ DomainOK(ev, DupFree(sel) /\ IdxFormOK(ev))
       /\ IF ev.out.blk = exp THEN Good ELSE Bad(ev)
       /\ Resync(ev)
\* mask: rhs element at the same flat position as the destination element
TMaskWrite(ev) ==
    LET exp == MaskAssign(mem, ev.in.buf, ev.in.mask, ev.in.aop, ev.in.rhs, Prod(ev.in.shape), Cx(ev))[ev.in.buf]
    IN /\ IF ev.out.blk = exp THEN Good ELSE Bad(ev)
       /\ Resync(ev)

\* reads: SelectSemantics; memory must not change (the block is logged again: Frame for reads)
ReadExp(ev, sel) ==
    LET x == Read(mem[ev.in.buf], sel)
    IN IF ev.in.form \in {"expr", "assignexpr", "cexpr", "cassignexpr"} THEN [q \in 1..Len(x) |-> Add(Mul(ev.in.m, x[q], Cx(ev)), ev.in.c, Cx(ev))] ELSE x
TSliceRead(ev) ==
    /\ DomainOK(ev, InDom(ev))
    /\ IF ev.out.vals = ReadExp(ev, Sel(ev.in.shape, ev.in.r)) /\ ev.out.blk = mem[ev.in.buf] THEN Good ELSE Bad(ev)
    /\ UNCHANGED mem
TScalarRead(ev) ==
    /\ IF ev.out.vals = <<Cell(mem[ev.in.buf], ScalarOff(ev.in.shape, ev.in.idx))>> THEN Good ELSE Bad(ev)
    /\ UNCHANGED mem
TIndexRead(ev) ==
    /\ DomainOK(ev, IdxFormOK(ev))
    /\ IF ev.out.vals = Read(mem[ev.in.buf], IdxSelOf(ev)) /\ ev.out.blk = mem[ev.in.buf] THEN Good ELSE Bad(ev)
    /\ UNCHANGED mem

\* layout conversions: the two functions are P and P^-1 in one of the two assignments, and compose to the identity
TLayout(ev) ==
    LET a == ev.in.vals  sh == ev.in.shape
        ok == /\ \/ (ev.out.cm = FromCM(sh, a) /\ ev.out.rm = ToCM(sh, a))
                 \/ (ev.out.cm = ToCM(sh, a) /\ ev.out.rm = FromCM(sh, a))
              /\ ev.out.cmrm = a /\ ev.out.rmcm = a
    IN (IF ok THEN Good ELSE Bad(ev)) /\ UNCHANGED mem
\* constructors store the given values in row-major order; with the ColumnMajor flag the buffer is column-major data
TCtor(ev) ==
    LET exp == IF ev.in.kind \in {"ptr_col", "arr_col", "vec_col"} THEN FromCM(ev.in.shape, ev.in.vals) ELSE ev.in.vals
    IN (IF ev.out.vals = exp THEN Good ELSE Bad(ev)) /\ UNCHANGED mem

\* Snapshot: every buffer is logged; all of memory must be what the judge holds (Frame across buffers)
TSnapshot(ev) == /\ IF \A h \in DOMAIN mem : ev.out.blks[h] = mem[h] THEN Good ELSE Bad(ev)
                 /\ mem' = [h \in DOMAIN mem |-> San(ev.out.blks[h], Cx(ev))]
TFault(ev) == Bad(ev) /\ UNCHANGED mem

Init == l = 1 /\ mem = <<>> /\ live = TRUE
Next == /\ l <= Len(Tr)
        /\ LET ev == Tr[l] IN
             CASE ev.e = "Reset" -> TReset(ev)
               [] ev.e \in {"Fault", "CompileFail"} -> TFault(ev)
               [] ~live -> UNCHANGED <<mem, live>>
               [] ev.e = "SliceWrite" -> TSliceWrite(ev)
               [] ev.e = "SliceWrite2" -> TSliceWrite2(ev)
               [] ev.e = "ScalarWrite" -> TScalarWrite(ev)
               [] ev.e = "IndexWrite" -> TIndexWrite(ev)
               [] ev.e = "MaskWrite" -> TMaskWrite(ev)
               [] ev.e = "SliceRead" -> TSliceRead(ev)
               [] ev.e = "ScalarRead" -> TScalarRead(ev)
               [] ev.e = "IndexRead" -> TIndexRead(ev)
               [] ev.e = "Layout" -> TLayout(ev)
               [] ev.e = "Ctor" -> TCtor(ev)
               [] ev.e = "Snapshot" -> TSnapshot(ev)
        /\ l' = l + 1
Spec == Init /\ [][Next]_<<l, mem, live>>

\* evaluated at every consumed line: guard cells of every block the judge holds are intact
GuardsOK == \A h \in DOMAIN mem : Len(mem[h]) >= 2 * G
=======================================================================================
