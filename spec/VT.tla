------------------------------------ MODULE VT ------------------------------------
(* Common definitions shared by the L1 semantics modules and the trace specifications.         *)
(* Values: an element of a real-typed tensor is an integer (the harness only feeds exactly     *)
(* representable data, DESIGN 1.1); an element of a complex tensor is a pair <<re, im>>.        *)
EXTENDS Integers, Sequences, TLC, Json, IOUtils

Tr == ndJsonDeserialize(IOEnv.TRACE)           \* the recorded trace, one record per line

IsCx(T) == T \in {"c32", "c64"}
Zero(cx) == IF cx THEN <<0, 0>> ELSE 0
Add(a, b, cx) == IF cx THEN <<a[1] + b[1], a[2] + b[2]>> ELSE a + b
Sub(a, b, cx) == IF cx THEN <<a[1] - b[1], a[2] - b[2]>> ELSE a - b
Mul(a, b, cx) == IF cx THEN <<a[1] * b[1] - a[2] * b[2], a[1] * b[2] + a[2] * b[1]>> ELSE a * b
Conj(a, cx)   == IF cx THEN <<a[1], 0 - a[2]>> ELSE a
Neg(a, cx)    == IF cx THEN <<0 - a[1], 0 - a[2]>> ELSE 0 - a

\* assignment operators  =  +=  -=  *=   (d: old destination element, v: right-hand-side element)
Comb(aop, d, v, cx) == CASE aop = "set" -> v
                         [] aop = "add" -> Add(d, v, cx)
                         [] aop = "sub" -> Sub(d, v, cx)
                         [] aop = "mul" -> Mul(d, v, cx)

SENT == 7777                                    \* guard-cell sentinel written by the harness
Sentinel(cx) == IF cx THEN <<SENT, 0>> ELSE SENT
G == 4                                          \* guard cells on each side of a guarded block

\* the block  G sentinels ++ body ++ G sentinels  that the harness logs around every destination
Guarded(body, cx) == [p \in 1..(Len(body) + 2 * G) |->
                         IF p <= G \/ p > G + Len(body) THEN Sentinel(cx) ELSE body[p - G]]

\* sum_{k=1..n} f(k)
RECURSIVE SumTo(_, _, _)
SumTo(f(_), n, cx) == IF n = 0 THEN Zero(cx) ELSE Add(SumTo(f, n - 1, cx), f(n), cx)

\* A rejected (case, configuration): printed for the driver; the judge keeps going so that one pass
\* lists every rejection.  Always TRUE so that it can be conjoined.
Reject(l, case, cfg) == PrintT(<<"REJECT", l, case, cfg>>)
\* a rejection that matches a NAMED deviation of the specification (a documented defect class): the tag lets the driver
\* tell exactly this wrong behaviour (a listed known finding) from any other wrong behaviour (a violation)
RejectTag(l, case, cfg, tag) == PrintT(<<"REJECT", l, case, cfg, tag>>)

\* every trace spec:  all lines consumed  <=>  diameter - 1 = Len(Tr)
AllConsumed == TLCGet("stats").diameter - 1 = Len(Tr)
=====================================================================================
