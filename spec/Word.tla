------------------------------------ MODULE Word ------------------------------------
(* Exact two's-complement machine-word arithmetic on limb lists (DESIGN 1.1).                    *)
(* A word of nl*16 bits is a sequence of nl limbs in 0..65535, least significant first           *)
(* (TLC integers are 32 bit, so a 32/64-bit lane value cannot be one TLC integer).               *)
(* Used by Simd.tla to interpret int32/int64 lane operations on the full value range:            *)
(* + - * (wrapping), negation, abs, signed comparison, min/max.  Everything is total.            *)
EXTENDS Integers, Sequences

B16 == 65536

IsWord(w, nl) == Len(w) = nl /\ \A i \in 1..nl : w[i] \in 0..(B16 - 1)
WZero(nl) == [i \in 1..nl |-> 0]

\* small integer (|v| < 2^30) -> word, sign-extended
FromInt(v, nl) ==
    IF v >= 0 THEN [i \in 1..nl |-> IF i = 1 THEN v % B16 ELSE IF i = 2 THEN (v \div B16) % B16 ELSE 0]
    ELSE LET u == (0 - v) - 1 IN        \* ~u = -u-1 = v
         [i \in 1..nl |-> IF i = 1 THEN (B16 - 1) - (u % B16) ELSE IF i = 2 THEN (B16 - 1) - ((u \div B16) % B16) ELSE B16 - 1]

WNot(w) == [i \in 1..Len(w) |-> (B16 - 1) - w[i]]
IsNeg(w) == w[Len(w)] >= 32768

\* carry[i] = carry into limb i  (carry[1] = cin)
RECURSIVE CarryInto(_, _, _, _)
CarryInto(x, y, cin, i) == IF i = 1 THEN cin ELSE (x[i - 1] + y[i - 1] + CarryInto(x, y, cin, i - 1)) \div B16
WAddC(x, y, cin) == [i \in 1..Len(x) |-> (x[i] + y[i] + CarryInto(x, y, cin, i)) % B16]
WAdd(x, y) == WAddC(x, y, 0)
WNeg(x) == WAddC(WNot(x), WZero(Len(x)), 1)
WSub(x, y) == WAddC(x, WNot(y), 1)
WAbs(x) == IF IsNeg(x) THEN WNeg(x) ELSE x                       \* abs(MIN) = MIN (wraps), like the machine

\* unsigned lexicographic comparison from the most significant limb
RECURSIVE ULessFrom(_, _, _)
ULessFrom(x, y, i) == IF i = 0 THEN FALSE ELSE IF x[i] # y[i] THEN x[i] < y[i] ELSE ULessFrom(x, y, i - 1)
ULess(x, y) == ULessFrom(x, y, Len(x))
SLess(x, y) == IF IsNeg(x) # IsNeg(y) THEN IsNeg(x) ELSE ULess(x, y)
WMin(x, y) == IF SLess(y, x) THEN y ELSE x
WMax(x, y) == IF SLess(x, y) THEN y ELSE x

\* wrapping product through 8-bit digits (a 16x16-bit product does not fit a TLC integer)
Bytes(x) == [k \in 1..(2 * Len(x)) |-> IF k % 2 = 1 THEN x[(k + 1) \div 2] % 256 ELSE x[k \div 2] \div 256]
RECURSIVE ColSum(_, _, _, _)
ColSum(p, q, k, j) == IF j = 0 THEN 0 ELSE p[j] * q[k + 1 - j] + ColSum(p, q, k, j - 1)      \* sum_{j=1..k} p[j]*q[k+1-j]
RECURSIVE MulCarry(_, _, _)
MulCarry(p, q, k) == IF k = 1 THEN 0 ELSE (ColSum(p, q, k - 1, k - 1) + MulCarry(p, q, k - 1)) \div 256
WMul(x, y) ==
    LET p == Bytes(x)  q == Bytes(y)
        d == [k \in 1..(2 * Len(x)) |-> (ColSum(p, q, k, k) + MulCarry(p, q, k)) % 256]
    IN [i \in 1..Len(x) |-> d[2 * i - 1] + 256 * d[2 * i]]
=====================================================================================
