SPECIFICATION Spec
CONSTANTS Box = 7
 Quota = 3
 EQuota = 24
 MQuota = 12




CHECK_DEADLOCK FALSE
