---- MODULE _c17_dbg ----
EXTENDS GenTmatmul
ASSUME PrintT(<<"CASES", Cardinality(Cases), Cardinality({x \in Cases: x.stratum="box"}), Cardinality({x \in Cases: x.stratum="edge"}), Cardinality({x \in Cases: x.stratum="masked"}), Cardinality({x \in Cases: x.stratum="nc3"})>>)
ASSUME \A isa \in {"sse2", "avx2", "avx512"} : PrintT(<<"MISSING", isa, Wanted(isa) \ UNION { ClassesOf(x, isa) : x \in { y \in Cases : Prim(y.T) } }>>)
====
