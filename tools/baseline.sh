#!/bin/sh
# Runs the repository's pinned test suite with the hook guard OFF, from /repo's working tree,
# in a scratch build directory under /verif/.work (removed afterwards).  Prints ctest's summary.
set -e
B=/verif/.work/baseline_build
rm -rf "$B"; mkdir -p "$B"
cmake -G Ninja -S /repo -B "$B" -DCMAKE_BUILD_TYPE=RelWithDebInfo -DCMAKE_CXX_FLAGS=-Wno-error > "$B/cmake.log" 2>&1
cmake --build "$B" -j 16 > "$B/build.log" 2>&1 || { tail -30 "$B/build.log"; exit 2; }
ctest --test-dir "$B" -j8 --timeout 900 2>&1 | tail -15
rc=$?
rm -rf "$B"
exit $rc
