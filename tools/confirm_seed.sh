#!/bin/sh
# tools/confirm_seed.sh <worktree> <seed-id> <prop> : confirm a seeded change (demo fails with it / passes without it, pinned suite
# still passes with it), store it under /verif/seeded/<seed-id>/ and remove the scratch worktree.
W="$1"; ID="$2"; PROP="$3"
set -e
cd "$W"
FLAGS="-std=c++14 -O2 $(jq -r '.demo_flags // "" | tostring' _out/meta.json | sed 's/[(;].*//' | grep -oE -- '-(march=[A-Za-z0-9-]+|m[a-z0-9.]+|D[A-Za-z0-9_=]+)' | sort -u | tr '\n' ' ')"
[ -n "$4" ] && FLAGS="-std=c++14 -O2 $4"
git diff --quiet -- Fastor && git apply _out/patch.diff
g++ $FLAGS -I "$W" _out/demo.cpp -o _out/demo_with 2>/dev/null
set +e; ./_out/demo_with > _out/with.txt 2>&1; RW=$?; set -e
git apply -R _out/patch.diff
g++ $FLAGS -I "$W" _out/demo.cpp -o _out/demo_without 2>/dev/null
set +e; ./_out/demo_without > _out/without.txt 2>&1; RO=$?; set -e
git apply _out/patch.diff
cmake -G Ninja -S "$W" -B "$W/_b" -DCMAKE_BUILD_TYPE=RelWithDebInfo -DCMAKE_CXX_FLAGS=-Wno-error > /dev/null
cmake --build "$W/_b" -j 16 > "$W/_b/build.log" 2>&1 || { echo "SUITE BUILD FAILED"; tail -5 "$W/_b/build.log"; }
set +e; ctest --test-dir "$W/_b" -j8 --timeout 900 > _out/ctest.txt 2>&1; set -e
NP=$(grep -c "Passed" _out/ctest.txt || true)
FAILED=$(grep "Failed\|\*\*\*" _out/ctest.txt | grep -v "tests failed" | awk '{print $4}' | tr '\n' ' ')
echo "CONFIRM $ID: demo with change rc=$RW, without rc=$RO, suite passed=$NP failed=[$FAILED] flags=[$FLAGS]"
if [ "$RW" != "0" ] && [ "$RO" = "0" ] && [ "$NP" -ge 47 ]; then
  mkdir -p /verif/seeded/$ID
  cp _out/patch.diff _out/demo.cpp /verif/seeded/$ID/
  jq --arg prop "$PROP" --arg ran "demo: g++ $FLAGS -I <tree> demo.cpp -> exit $RW with the change, exit $RO without; pinned suite with the change: $NP passed, failed=[$FAILED]" \
     '. + {breaks_property: $prop, confirmed: $ran}' _out/meta.json > /verif/seeded/$ID/meta.json
  echo "KEPT /verif/seeded/$ID"
else
  echo "NOT KEPT"
fi
cd /; git -C /repo worktree remove --force "$W"
