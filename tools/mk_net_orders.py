#!/usr/bin/env python3
# tools/mk_net_orders.py [quick|thorough ...]  -- (re)record spec/net_orders.json: for every network of >= 4 operands whose result the
# unchanged library lays out in pairing order (known finding D8), the arrangements of the free labels that were observed.  TraceNetwork
# recognises D8 for such a network only when the observed arrangement is one of these; anything else is reported.  Run on the UNCHANGED tree
# only (it is never run by a check).
import json, os, subprocess, sys
ROOT = os.path.dirname(os.path.dirname(os.path.abspath(__file__)))
tab_p = os.path.join(ROOT, "spec", "net_orders.json")
tab = json.load(open(tab_p))
for tier in (sys.argv[1:] or ["quick"]):
    out = "/tmp/net_orders_%s_%d.json" % (tier, os.getpid())
    env = dict(os.environ, VERIF_RECORD_ORDERS=out, VERIF_NO_EVIDENCE="1")
    r = subprocess.run([os.path.join(ROOT, "check"), "C15", "--tier", tier], env=env, capture_output=True, text=True)
    if r.returncode != 0:
        sys.exit("C15 %s did not pass on this tree (rc=%d): not recording" % (tier, r.returncode))
    for k, v in json.load(open(out)).items():
        cur = tab.setdefault(k, [])
        for a in v:
            if a not in cur:
                cur.append(a)
    os.remove(out)
json.dump(tab, open(tab_p, "w"), indent=0, sort_keys=True)
print("net_orders.json: %d networks" % len(tab))
