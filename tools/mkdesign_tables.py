#!/usr/bin/env python3
# Regenerates sections 12.4 (defects / findings) and 12.5 (binding demonstrations) of DESIGN.md from
# known_findings.json and seeded/*/meta.json, so the tables cannot drift from the machine-read files.
import json, os, glob, re
ROOT = os.path.dirname(os.path.dirname(os.path.abspath(__file__)))
k = json.load(open(os.path.join(ROOT, "known_findings.json")))
out = []
out.append("### 12.4 Genuine defects found on the pinned tree\n")
out.append("Every entry was first reproduced against the real code (stand-alone programs for most are in `notes/`), then either repaired by "
           "one unguarded `fix:` commit in /repo (the pinned suite passes 52/52 with all of them; the five tests that always failed on the "
           "pinned tree were failing because of D2) or, where no small safe repair exists, listed as a known finding.\n")
out.append("**Repaired** (`known_findings.json: fixed`; a fixed entry suppresses nothing):\n")
out.append("| id | property | commit | what failed |\n|---|---|---|---|")
for f in k["fixed"]:
    out.append("| %s | %s | `%s` | %s |" % (f["id"], f["property"], f["commit"], f["what"].replace("|", "\\|")))
out.append("\n**Known findings** (`known_findings.json: findings`; the check prints `KNOWN-FINDING` and exits 0; the signature pins the event kind, "
           "discrete fields and - wherever the wrong behaviour is characteristic - a tag that the trace specification emits only for exactly that "
           "wrong behaviour, so a different violation of the same property is still reported):\n")
out.append("| id | property | signature | finding |\n|---|---|---|---|")
for f in k["findings"]:
    out.append("| %s | %s | `%s` | %s |" % (f["id"], f["property"], json.dumps(f["signature"], separators=(",", ":")), f["what"].replace("|", "\\|")))
out.append("\nObserved, outside every property's claimed domain: D11 (`a(all,-2)` selects the last column: the property does not define a bare "
           "integer <= -2 inside a slice); `TensorMap = TensorMap` rebinds the pointer (C++ copy assignment); g++ 12 `-O2 -march=skylake-avx512` "
           "mis-folds `view *= tensor` on compile-time-constant int32 operands (`notes/gcc12_O2_avx512_constfold_repro.cpp`, clang and run-time data "
           "are right) - the harness keeps operands opaque to the optimiser; `SIMDVector<complex,scalar>` members and `SIMDVector<complex,fixed_size<n>>` "
           "do not compile (excluded in C08's plan with comments); under `-DFASTOR_DONT_VECTORISE` `_matmul<complex<double>,4,9,16>` does not compile "
           "(`notes/c03_c06_complex_matmul_scalar_build.cpp`).\n")
out.append("### 12.5 Binding demonstrations\n")
out.append("* `VERIF_CORRUPT=1 ./check Cxx` flips one recorded result value per configuration after the run; every check reports exactly those "
           "cases as VIOLATION (run for every check; evidence is not written in this mode).\n"
           "* Builder sub-agents ran one hand-made mutant per check in a scratch copy (see their reports in the commit messages / notes).\n"
           "* Seeded changes written by independent sub-agents that were given only the property text and a scratch worktree, confirmed by "
           "`tools/confirm_seed.sh` (demo fails with / passes without the change; pinned suite still passes 52/52 with it) and run with "
           "`tools/try_mutant.sh` (scratch copy of /repo, `VERIF_REPO`):\n")
out.append("| seed | property | change | needs | detected by |\n|---|---|---|---|---|")
for d in sorted(glob.glob(os.path.join(ROOT, "seeded", "*", "meta.json"))):
    m = json.load(open(d))
    sid = os.path.basename(os.path.dirname(d))
    det = m.get("detected_by", {})
    dtxt = "`./check %s` %s: %s rejected events, e.g. %s" % (det.get("check", "?"), det.get("tier", ""), det.get("violations", "?"), det.get("example", ""))
    if det.get("note"):
        dtxt += ". " + det["note"]
    cell = lambda s: re.sub(r"\s+", " ", str(s)).replace("|", "\\|")[:420]
    out.append("| %s | %s | %s | %s | %s |" % (sid, m.get("breaks_property", m.get("property", "")), cell(m.get("summary", "")), cell(m.get("needs", "")), cell(dtxt)))
out.append("\n* C07: a hand-made value-preserving over-read (full-width load over the remainder in `sum()`) is reported with tag `fault` at the "
           "flush-end placement.\n")
txt = "\n".join(out) + "\n"
p = os.path.join(ROOT, "DESIGN.md")
s = open(p).read()
i = s.index("### 12.4")
open(p, "w").write(s[:i] + txt)
print("DESIGN.md 12.4/12.5 regenerated:", len(k["fixed"]), "fixed,", len(k["findings"]), "findings")
