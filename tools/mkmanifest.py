#!/usr/bin/env python3
# Regenerates /verif/MANIFEST.json from the table below (keeps it schema-valid at all times).
import json, os, subprocess
ROOT = os.path.dirname(os.path.dirname(os.path.abspath(__file__)))
props = [json.loads(l) for l in open(os.path.join(ROOT, "properties.jsonl"))]

MC = "model_checking"
CHECKS = {
 "C01": dict(level=MC, design="3/C01",
   text="TLC enumerates the (type, form, M, K, N) case space as the state graph of GenMatmul (exhaustive box plus every boundary of the kernel ladder), checks the L2 tiling obligations of MatmulDesign in every state, and the real library's result for every case is recorded under SSE2/AVX2/AVX-512 builds and validated element-by-element (guards included) by TLC against the L1 operator Matmul!Product.",
   note="Exact on integer-valued data (sound for every summation order); bilinear kernels, so Schwartz-Zippel bounds agreement of a wrong kernel on random draws; the non-integer rounding bound is argued, not measured. Trusted: TLC, g++ 12, the recorder vt.h.",
   technique="TLA+ L1 spec + TLC-enumerated plan + TLC trace validation of recorded results; L2 tiling model checked by TLC"),
 "C04": dict(level=MC, design="3/C04",
   text="TLC generates behaviours of the tensor-machine specification (GenViews, Mode=read) - slices of ranks 1-4 in every admissible encoding, scalar indexing with negative indices, reads interleaved with writes - which are compiled into statements on the real library; every value read is validated by TLC against TensorMachine!Read(Sel(shape, ranges)). The L2 RangeNorm model (constructor normalisation, to_positive, seq::size) is checked exhaustively against the documented meaning for extents <= 12.",
   note="Exact small-integer data. Bare integers <= -2 inside a slice are outside the generated domain (undefined by the property). Reads outside the parent are only visible to C07. Trusted: TLC, g++ 12, recorder.",
   technique="TLA+ tensor-machine spec; tlc -generate behaviours replayed on the library; TLC trace validation"),
 "C05": dict(level=MC, design="3/C05",
   text="TLC generates write behaviours of the tensor-machine specification (5 calls each over a 6-buffer arena: all five operators, scalar/tensor/slice/expression right-hand sides, every admissible range encoding, dynamic and compile-time views, scalar element writes); after every call the whole guarded block of the written buffer, and at the end every buffer, is validated by TLC against the snapshot+frame action TensorMachine!AssignSel.",
   note="Exact small-integer data; /= only on divisible cells. Alignment padding inside a Tensor object is not observed. Runs with and without FASTOR_USE_VECTORISED_EXPR_ASSIGN.",
   technique="TLA+ tensor-machine spec; tlc -generate behaviours replayed on the library; TLC trace validation of full post-states"),
 "C18": dict(level=MC, design="3/C18",
   text="TLC generates behaviours in which source and destination slices are drawn from the same buffer (arbitrary overlap with noalias(); identical or disjoint selections without), on dynamic and compile-time views of ranks 1-4 and all five operators; TLC validates every recorded post-state against the snapshot semantics (right-hand side evaluated on the pre-state).",
   note="Exact small-integer data. Index-tensor and mask views are covered by C19's plan; view-object reuse is not yet in the plan.",
   technique="TLA+ tensor-machine spec; tlc -generate behaviours replayed on the library; TLC trace validation"),
 "C19": dict(level=MC, design="3/C19",
   text="TLC generates behaviours with index-tensor views in every overload form (flat-offset index tensor on parents of rank 1-4, per-axis index tensors, index tensor x integer / x fseq), three index element types, reads with repeats, duplicate-free writes with all operators and scalar/tensor/index-view sources (noalias() for same-buffer sources), and boolean masks over every buffer; TLC validates values read and the whole guarded parent block after every write against TensorMachine!AssignSel / MaskAssign / Read.",
   note="Exact small-integer data. Index vectors are seeded random of length 1..24; the exhaustive length<=4 enumeration of the design is not built. /= is not generated for index views.",
   technique="TLA+ tensor-machine spec; tlc -generate behaviours replayed on the library; TLC trace validation"),
 "C20": dict(level=MC, design="3/C20",
   text="TLC generates behaviours that alternate calls through the owning tensor and through TensorMap / reshape<> (every same-size shape of rank 1-4) / flatten / squeeze handles of the same storage, validated by TLC after every call on the owner's whole guarded block (a handle is (buffer, shape) in the specification, so coherence is checked by construction); plus tocolumnmajor / torowmajor (both functions and both compositions, ranks 1-5) and constructors from raw pointer, std::array, std::vector (row/column-major flag) and nested initializer lists against the row-major / column-major offset operators.",
   note="Exact small-integer data. Dynamic seq views of rank<=2 TensorMaps and TensorMap = scalar do not compile in any configuration (not offered) and are not generated. Misaligned external buffers are C07's.",
   technique="TLA+ tensor-machine spec; tlc -generate behaviours replayed on the library; TLC trace validation"),
 "C14": dict(level=MC, design="3/C14",
   text="TLC enumerates every axis permutation of ranks 2-4 (rank 5 in the thorough tier) on shapes with pairwise distinct extents, for permute<> and the legacy permutation<>, tensor and unevaluated-expression arguments, and transpose/trans/ctrans over a box of (M,N) plus the blocked-kernel edge sizes; checks the L1 permutation algebra (inverse composition) on every enumerated case; every recorded result (static extents, all elements on position-revealing data, and the round trip through the inverse permutation) is validated by TLC against Permute!Permuted under SSE2/AVX2/AVX-512 and C++14/17.",
   note="Exact data (flat indices). permutation<> is accepted by p or by p^-1 consistently; the library's mixed behaviour on non-involutive permutations is a listed known finding (D15), recognised by the trace spec as a named deviation so that any other wrong result is still a violation.",
   technique="TLA+ L1 spec + TLC-enumerated plan + TLC trace validation of recorded results"),
 "C02": dict(level=MC, design="3/C02",
   text="TLC enumerates expression trees up to depth 2 (tensor leaves, scalar on either side, unary minus, abs, sqrt, + - * /, min, max, six comparisons, && || !) x five assignment forms x ten tensor sizes covering every residue of the vector widths x four element types, checks on every enumerated tree that it lies in the exactness domain of the L1 evaluator, and validates every recorded destination position by position against Expr!Eval / Expr!Assign under SSE2/AVX2/AVX-512. A second family (table mode) runs single operations, including 20 math functions, on integer boundary values and IEEE specials and validates lane by lane against the same scalar C++ operation recorded by plain scalar code.",
   note="Interpreted mode is exact (small-integer operands, checked per event by Expr!InDomain). Table mode trusts the scalar C++ operation as the oracle (the property's own oracle); NaN operands are excluded for min/max. round() half-to-even in the vector body is a listed known finding (D17). Complex element types are not in the plan (complex scalar*tensor evaluates to 0, see DESIGN findings).",
   technique="TLA+ L1 expression evaluator + TLC-enumerated plan + TLC trace validation of recorded results"),
 "C09": dict(level=MC, design="3/C09",
   text="Two layers. (L2) TLC model-checks the StagedAssign design model - a transcription of the library's staged assignment of expressions with evaluation-requiring nodes - against the L1 value over all 31k (operator, tree of depth<=2, destination kind) combinations: staging refines L1 whenever the destination is not on the right-hand side, for `Tensor = expr` and for `*=`; the full claim is violated and TLC produces the counterexamples (findings D9, D9m). (L1) TLC enumerates trees mixing element-wise + - * with %, trans, inv, adj, cof, det, trace, with and without the destination as element-wise operand, four operators, Tensor and TensorMap destinations, n in {2,3}, float/double, plus lazy product chains of length 2..5 over extents {1,2,3,5}; the recorded lazy and eager results are both validated by TLC against LazyExpr!Expected / Matmul!Product. A lazy result that equals the StagedAssign model but not L1 is recognised as the named deviation (known finding); any other wrong result is a violation.",
   note="Exact integer data (unimodular operands for inv; n<=3). /=, norm and lu-based solve are not in this plan (C16/C12 cover norm and solve). Forms that do not compile in any configuration (TensorMap destination with %, inv, adj, cof; += of a sum whose right operand is inv/adj/cof or scalar*tensor) are excluded as not offered.",
   technique="TLA+ L1 spec + L2 design model checked by TLC + TLC-enumerated plan + TLC trace validation"),
 "C07": dict(level="exploration", design="3/C07",
   text="The footprint contract is stated in Memory.tla over an abstract memory (no fault, canaries intact, no heap call, value still correct, checked index raises) and judged by TLC on every recorded call; the observation channel is native: operands and results of TLC-enumerated cases are placed flush against PROT_NONE pages (end side and start side), wrapped external buffers additionally at every byte misalignment 0..63 inside canary-filled pages, a SIGSEGV/SIGBUS handler and an interposed malloc family turn faults and allocations into recorded observations. Exercised: TensorMap copy / axpy / in-place scale / sum / inner / norm^2 / min / max / strided view read and write for sizes 1..20,31..35; matmul, matrix-vector and transpose kernels on owning tensors placed as whole objects; out-of-range scalar indices under FASTOR_ENABLE_RUNTIME_CHECKS=1.",
   note="Exploration, not model checking of memory safety: an over-read that stays inside mapped non-guard memory is invisible (DESIGN section 0). Kernel families beyond matmul/matvec/transpose are not placed against guard pages. The sanitizer build of the design is not built.",
   technique="TLA+ contract judged by TLC on traces recorded under guard pages, canaries and an allocation counter"),
 "C06": dict(level=MC, design="3/C06",
   text="A hash-sampled cross-section of the TLC-generated plans of the other checks (matrix product, element-wise expressions, permutations, lazy expressions, slice-write behaviours; thorough: also triangular product, einsum, reductions) is compiled and run under every configuration of a covering array over ISA (scalar, SSE2, SSE4.2, AVX, AVX2+FMA, AVX-512) x C++14/17 x -O0..-O3 x runtime checks x one documented tuning macro. TLC checks the array itself (Config.tla: every factor value, all ISA x std pairs; thorough: all ISA x opt and std x opt pairs and every macro under AVX2 and AVX-512) and the originating trace specification compares each case's outputs under ALL configurations with one L1 value, which for the exact data used is bit-identity across configurations. A translation unit that fails to compile in some configuration is a rejection (compile agreement). Only configuration-dependent rejections are C06 violations.",
   note="Compiler axis is g++ 12 only. Floating results are compared exactly because the data are exact; inexact-data agreement within rounding is not exercised. The quick tier uses 12 configurations and ~400 cases; the thorough tier ~60 configurations.",
   technique="TLC-checked covering array + TLC trace validation of joined multi-configuration traces"),
 "C15": dict(level=MC, design="3/C15",
   text="(L2) TLC model-checks NetworkOrder - the layout produced by evaluating a 3-operand network as two pairwise einsums in the order picked by the cost model - against the declared order over all 33,840 (index pattern of rank<=2 on 5 labels, variant) combinations: always an arrangement of the same labels, and TLC exhibits the patterns where it differs (finding D8). (L1) TLC enumerates canonical 3-operand patterns (rank<=2 quick, <=3 thorough) and sampled 4-operand patterns with uniform and distinct extents, double and int32; every recorded result (static extents, every element, which_variant) under SSE2/AVX2/AVX-512, C++17, op-min off and depth-first is validated by TLC against Einsum!Einstein (free labels by first appearance over all lists). A result whose elements are exactly the correct tensor in another free-label order is the named deviation of D8 (and for 3 operands must equal the L2 model's order, else DRIFT); anything else is a violation.",
   note="Exact small-integer data. Networks in which a pair (or triple) contracts to a scalar do not compile in any configuration and are excluded; 4-operand networks are generated with uniform extents only. 4-operand variants are not modelled at L2.",
   technique="TLA+ L1 n-ary Einstein sum + L2 order model checked by TLC + TLC-enumerated plan + TLC trace validation"),
 "C17": dict(level=MC, design="3/C17",
   text="TLC enumerates (M,K,N) boxes (trapezoidal included) x all 9 Lower/Upper/General tag pairs x f64/f32/i32/i64/c64 x API/backend/expression/matrix-vector forms, plus strata derived from the L2 model (edges {16,17,24,25}, clipped blocks of the AVX2/AVX-512 masked kernel, three-vector blocks). Every call of the real tmatmul/_tmatmul under sse2/avx2/avx512 (thorough: all six ISAs, C++14/17) is recorded and a TLC trace specification judges it against L1 Tmatmul!TriangularProduct: the whole guarded, sentinel-pre-filled MxN block must equal Matmul!Product, structural zeros included. An L2 transcription of find_kfirst/find_klast and the block/clip structure is model-checked exhaustively (M,K,N <= 24; all tag pairs; every reachable vector width and kernel) to show that each block's clipped k-range contains the operands' support and that the blocks partition the result.",
   note="Conformance is sampled (1603 cases quick, 3391 thorough, two exact-integer data draws each). The L2 clip model is bound to the code through logged constexpr find_kfirst/find_klast tables and vector widths; a mismatch is DRIFT, not a violation. Only the default block-size macros are covered.",
   technique="TLA+ L1 spec + L2 clip model checked by TLC + TLC-enumerated plan + TLC trace validation"),
 "C16": dict(level=MC, design="3/C16",
   text="TLC enumerates the case space of GenReduce (functions, element types, argument kinds, shapes, sign patterns, positions of a single extreme element, with the integer data part of the state) and checks exactness preconditions and fold theorems on every case. Every recorded call is judged by the L1 operators of Reduce.tla: exact integer equality for sum, product, min, max (value and membership), inner, trace, closed-form determinants (against Bareiss) and predicates; an integer bracket that pins the sum of squares for norm; a condition-scaled backward-error bound for LU and QR determinants on diagonally dominant integer matrices. The L2 model MC_ReduceDesign proves the vector-accumulator, scalar-tail and horizontal-step scheme refines the folds exactly for neutral seeds, for every width and residue.",
   note="Bounded: sizes 1..35 and four rank-2/3 shapes, determinant sizes <= 6 (8 thorough), small integer data so that every evaluation order is exact. D4 (none_of = any_of) and D20 (QR determinant = |det|) are listed known findings recognised as named deviations; integer norm, integer LU/QR determinants and determinant(Tensor<T,1,1>) with Simple are outside the domain.",
   technique="TLA+ L1 fold semantics + L2 accumulator model checked by TLC + TLC-enumerated plan + TLC trace validation"),
 "C08": dict(level=MC, design="3/C08",
   text="Every SIMDVector operation the library offers, for six element types and every ABI available under SSE2, AVX2 and AVX-512 (thorough: all six ISAs, C++17, -O3), is run on the real API on TLC-enumerated cases and every result is judged lane by lane by TLC against an explicit lane semantics (Simd.tla): lane-wise maps, folds, set/reverse order, memory frames for loads/stores at every offset including all masks (exhaustive up to 8 lanes) and guard pages. Integer lanes are decided on their full range with exact two's-complement limb arithmetic in TLA+ (Word.tla); float specials against the recorded scalar-operation table; small exact data by integer arithmetic. An L2 model of the remainder-mask pipeline (maska fill, array_to_mask, declared mask widths, mask_to_array, AVX2 maskload order, complex split_mask) is model-checked exhaustively to refine L1 and bound to the code by Meta events.",
   note="Bounded conformance checking, not a proof over all inputs: operand values are sampled (boundary cross-products, seeded random bit patterns; exhaustive unary 2^32 sweeps only in the thorough tier and only as a candidate filter whose candidates are judged by TLC). rcp/rsqrt are judged against an assumed 2^-11 bound (none is documented). The float table trusts the recorder's scalar C++ evaluation. Complex set() argument order is a listed known finding (D26).",
   technique="TLA+ lane semantics + limb arithmetic + L2 mask model checked by TLC + TLC trace validation"),
 "C03": dict(level=MC, design="3/C03",
   text="TLC computes the Einstein sum (Einsum!EinsteinSum / EinsteinSumOut: free labels by first appearance or in the explicit order, extents from the operands, exact sum over contracted labels including traces inside one operand) for every recorded call and compares the extents of the static result type and every element exactly, for einsum<I,J>, contraction<I,J>, einsum<I,J,OIndex>, einsum<I>(a) (+OIndex), inner and outer. The plan is the state space of GenEinsum: every pair pattern of operand ranks 1..3 (quick) or 1..4 (thorough) with no label more than twice, extents from {1,2,3,4,5,8,9} with distinct labels given distinct extents and the vectorised extent a multiple or non-multiple of the lane counts, two data draws, on SSE2/AVX2/AVX-512 and C++14/17 (thorough: all six ISAs, both standards, CONTRACT_OPT -1/1/2, five element types). An L2 model of the library's compile-time classifiers and back ends (EinsumDispatch) is checked by TLC to execute exactly the terms of the Einstein sum for every pattern of rank <= 3, and is bound to the code through the logged classifier values.",
   note="Exact on integer-valued data only; rounding is not judged. Quick samples rank-4 patterns 1 in 30. CONTRACT_OPT -3/-2, strided_contraction<> and the Voigt overloads are not exercised. outer() with a Tensor<T,1> operand dropping the unit axis from its result type is a listed known finding (D29).",
   technique="TLA+ L1 n-ary Einstein sum + L2 dispatch model checked by TLC + TLC-enumerated plan + TLC trace validation"),
}
NA_REASON = "check not built yet (work in progress in this session; see DESIGN.md section 3 for the planned model)"

checks, na = [], []
for p in props:
    pid = p["id"]
    if pid in CHECKS:
        c = CHECKS[pid]
        checks.append({
            "property_id": pid,
            "quick_cmd": "./check %s --tier quick" % pid,
            "thorough_cmd": "./check %s --tier thorough" % pid,
            "evidence_file": "evidence/%s.json" % pid,
            "replay_cmd_template": "./check %s --replay {path}" % pid,
            "engine": "tlc-trace",
            "level_claimed": {"category": c["level"], "text": c["text"], "design_ref": c["design"]},
            "level_note": c["note"],
            "technique": c["technique"],
        })
    else:
        na.append({"property_id": pid, "reason": NA_REASON})

hooks_commits = subprocess.run(["git", "-C", "/repo", "log", "--format=%h", "--grep=^hook:"], capture_output=True, text=True).stdout.split()
man = {
 "version": 1,
 "setup_cmd": "./tools/setup.sh",
 "hooks": {"guard": "FASTOR_VERIF_TRACE", "enable": "harness TUs are compiled with -DFASTOR_VERIF_TRACE -I/repo (header-only library; no separate library build)",
           "baseline_off_cmd": "./tools/baseline.sh", "source_commits": hooks_commits, "add_only": True},
 "engines": [{"name": "tlc-trace", "path": "check", "serves_properties": [c["property_id"] for c in checks],
              "kind_free_text": "explicit TLA+ specification (spec/*.tla) model-checked by TLC; TLC-generated plans compiled against the real headers; recorded ndjson traces validated by TLC trace specifications"}],
 "checks": checks,
 "not_applicable": na,
 "notes": "All verdicts come from TLC evaluating the TLA+ specification on recorded traces; see DESIGN.md.",
}
json.dump(man, open(os.path.join(ROOT, "MANIFEST.json"), "w"), indent=1)
print("MANIFEST: %d checks, %d not_applicable" % (len(checks), len(na)))
