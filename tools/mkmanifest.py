#!/usr/bin/env python3
# Regenerates /verif/MANIFEST.json from the table below (keeps it schema-valid at all times).
import json, os, subprocess
ROOT = os.path.dirname(os.path.dirname(os.path.abspath(__file__)))
props = [json.loads(l) for l in open(os.path.join(ROOT, "properties.jsonl"))]

MC = "model_checking"
CHECKS = {
 "C01": dict(level=MC, design="3/C01",
   text="TLC enumerates the (type, form, M, K, N) case space as the state graph of GenMatmul (exhaustive box plus every boundary of the kernel ladder), checks the L2 tiling obligations of MatmulDesign in every state, and the real library's result for every case is recorded under SSE2/AVX2/AVX-512 builds and validated element-by-element (guards included) by TLC against the L1 operator Matmul!Product.",
   note="Exact on integer-valued data (sound for every summation order); bilinear kernels, so Schwartz-Zippel bounds agreement of a wrong kernel on random draws; the non-integer rounding bound is argued, not measured. Trusted: TLC, g++ 12, the recorder vt.h.",
   technique="TLA+ L1 spec + TLC-enumerated plan + TLC trace validation of recorded results; L2 tiling model checked by TLC"),
}
NA_REASON = "check not built yet (work in progress in this session; see DESIGN.md section 3 for the planned model)"

checks, na = [], []
for p in props:
    pid = p["id"]
    if pid in CHECKS:
        c = CHECKS[pid]
        checks.append({
            "property_id": pid,
            "quick_cmd": "./check %s --tier quick" % pid,
            "thorough_cmd": "./check %s --tier thorough" % pid,
            "evidence_file": "evidence/%s.json" % pid,
            "replay_cmd_template": "./check %s --replay {path}" % pid,
            "engine": "tlc-trace",
            "level_claimed": {"category": c["level"], "text": c["text"], "design_ref": c["design"]},
            "level_note": c["note"],
            "technique": c["technique"],
        })
    else:
        na.append({"property_id": pid, "reason": NA_REASON})

hooks_commits = subprocess.run(["git", "-C", "/repo", "log", "--format=%h", "--grep=^hook:"], capture_output=True, text=True).stdout.split()
man = {
 "version": 1,
 "setup_cmd": "./tools/setup.sh",
 "hooks": {"guard": "FASTOR_VERIF_TRACE", "enable": "harness TUs are compiled with -DFASTOR_VERIF_TRACE -I/repo (header-only library; no separate library build)",
           "baseline_off_cmd": "./tools/baseline.sh", "source_commits": hooks_commits, "add_only": True},
 "engines": [{"name": "tlc-trace", "path": "check", "serves_properties": [c["property_id"] for c in checks],
              "kind_free_text": "explicit TLA+ specification (spec/*.tla) model-checked by TLC; TLC-generated plans compiled against the real headers; recorded ndjson traces validated by TLC trace specifications"}],
 "checks": checks,
 "not_applicable": na,
 "notes": "All verdicts come from TLC evaluating the TLA+ specification on recorded traces; see DESIGN.md.",
}
json.dump(man, open(os.path.join(ROOT, "MANIFEST.json"), "w"), indent=1)
print("MANIFEST: %d checks, %d not_applicable" % (len(checks), len(na)))
