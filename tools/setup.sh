#!/bin/sh
# setup: verify tools, pre-parse every specification module (offline; nothing is fetched)
set -e
cd "$(dirname "$0")/.."
command -v java >/dev/null; command -v g++ >/dev/null; command -v python3 >/dev/null
test -f /opt/veriftools/tla/tla2tools.jar
cd spec
fail=0
for f in *.tla; do
  out=$(java -cp /opt/veriftools/tla/tla2tools.jar:/opt/veriftools/tla/CommunityModules-deps.jar tla2sany.SANY "$f" 2>&1) || true
  if echo "$out" | grep -q "Semantic errors\|Fatal errors\|Could not parse\|\*\*\* Errors"; then echo "SANY failed: $f"; echo "$out" | tail -5; fail=1; fi
done
[ $fail -eq 0 ] && echo "setup ok"
exit $fail
