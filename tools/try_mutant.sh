#!/bin/sh
# tools/try_mutant.sh <patch.diff> <Cxx> [tier]  -- apply a seeded change to /repo, run the check, undo it.
# Prints: MUTANT <patch> <prop> rc=<rc> violations=<n>.  Never leaves /repo modified.
P="$1"; C="$2"; T="${3:-quick}"
cd /repo || exit 2
if [ -n "$(git status --porcelain -- Fastor)" ]; then echo "repo not clean"; exit 2; fi
git apply "$P" || { echo "patch does not apply"; exit 2; }
cd /verif
VERIF_NO_EVIDENCE=1 timeout 3000 ./check "$C" --tier "$T" > /tmp/mut_$C.log 2>&1
rc=$?
git -C /repo checkout -- . 
n=$(grep -c "^VIOLATION" /tmp/mut_$C.log)
echo "MUTANT $P $C rc=$rc violations=$n"
grep "^VIOLATION" /tmp/mut_$C.log | head -3
grep "CHECK-BROKEN" /tmp/mut_$C.log | head -2
