#!/bin/sh
# tools/try_mutant.sh <patch.diff> <Cxx> [tier]  -- run a check against a seeded change.
# The change is applied to a scratch copy of /repo (git worktree-free: plain copy of the tracked tree) and the check is
# pointed at it with VERIF_REPO, so /repo itself is never modified and concurrent runs are not disturbed.
# Prints: MUTANT <patch> <prop> rc=<rc> violations=<n>.
P="$(readlink -f "$1")"; C="$2"; T="${3:-quick}"
S=/tmp/mutrepo_$$
rm -rf "$S"; mkdir -p "$S"
git -C /repo archive HEAD | tar -x -C "$S" || exit 2
( cd "$S" && patch -p1 -s < "$P" ) || { echo "patch does not apply"; rm -rf "$S"; exit 2; }
cd /verif
VERIF_REPO="$S" VERIF_NO_EVIDENCE=1 timeout 3000 ./check "$C" --tier "$T" > /tmp/mut_$C.log 2>&1
rc=$?
rm -rf "$S" /verif/.work/${C}_alt*
n=$(grep -c "^VIOLATION" /tmp/mut_$C.log)
echo "MUTANT $P $C rc=$rc violations=$n"
grep "^VIOLATION" /tmp/mut_$C.log | head -3
grep "CHECK-BROKEN" /tmp/mut_$C.log | head -2
